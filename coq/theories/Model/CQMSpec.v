(* S level of C05: a constrained quadratic model as a plain list of labelled
   polynomials, with every public mutation of dimod.ConstrainedQuadraticModel
   as a pure function  step : scqm -> op -> scqm * exc.
   Labels are small nats (the harness numbers the Python labels).
   The discrete-mark rules are those of the code after the repairs 8da040e,
   e1db866, 2289545:
     - fix_variable of a BINARY variable to a non-zero value unmarks every
       marked-discrete constraint containing it (whether or not it is one-hot);
     - flip_variable unmarks the constraints that were discrete (marked AND
       one-hot) and contained the variable BEFORE the flip;
     - remove_variable raises ValueError for a variable used in a discrete
       constraint.
   Executable; no proofs in this file. *)
From Coq Require Import List ZArith QArith Qcanon Bool Arith.
From Dimod Require Import Base.Util Model.Poly.
Import ListNotations.
Open Scope Qc_scope.

Inductive sense := LE | GE | EQ.
Inductive penalty := PLin | PQuad.
Inductive exc := XNone | XValue | XType | XKey | XAttr | XOther.

Definition sense_eqb (a b : sense) : bool :=
  match a, b with LE, LE | GE, GE | EQ, EQ => true | _, _ => false end.
Definition penalty_eqb (a b : penalty) : bool :=
  match a, b with PLin, PLin | PQuad, PQuad => true | _, _ => false end.
Definition exc_eqb (a b : exc) : bool :=
  match a, b with
  | XNone, XNone | XValue, XValue | XType, XType | XKey, XKey | XAttr, XAttr | XOther, XOther => true
  | _, _ => false
  end.

Record vinfo := mkV { v_lbl : label; v_vt : vartype; v_lb : Qc; v_ub : Qc }.

Record scon := mkCon {
  k_lbl : nat; k_p : poly; k_sense : sense; k_rhs : Qc;
  k_soft : option (Qc * penalty); k_mark : bool }.

Record scqm := mkCqm { q_vars : list vinfo; q_obj : poly; q_cons : list scon }.

Definition empty_cqm : scqm := mkCqm [] pzero [].

(* ---------- lookups ---------- *)

Definition find_var (l : label) (vs : list vinfo) : option vinfo :=
  find (fun x => (v_lbl x =? l)%nat) vs.
Definition has_var (l : label) (vs : list vinfo) : bool :=
  match find_var l vs with Some _ => true | None => false end.
Definition vt_of (vs : list vinfo) (l : label) : vartype :=
  match find_var l vs with Some x => v_vt x | None => INTEGER end.
Definition find_con (l : nat) (ks : list scon) : option scon :=
  find (fun k => (k_lbl k =? l)%nat) ks.
Definition has_con (l : nat) (ks : list scon) : bool :=
  match find_con l ks with Some _ => true | None => false end.

Definition memb (x : nat) (l : list nat) : bool := existsb (Nat.eqb x) l.

(* the variables of an expression: every variable an expression tracks has a
   (possibly zero) linear term *)
Definition pvars (p : poly) : list label := nodup Nat.eq_dec (map fst (p_lin p)).
Definition pmentions (p : poly) (v : label) : bool := memb v (map fst (p_lin p)).

Definition is_bin_or_spin (t : vartype) : bool :=
  match t with BINARY | SPIN => true | _ => false end.
Definition is_binary (t : vartype) : bool := match t with BINARY => true | _ => false end.
Definition is_real (t : vartype) : bool := match t with REAL => true | _ => false end.

(* Expression::add_quadratic: both end points become variables of the expression *)
Definition s_addq (vt : label -> vartype) (u v : label) (b : Qc) (p : poly) : poly :=
  add_quadratic vt u v b (add_linear v 0 (add_linear u 0 p)).

(* constraint.h is_onehot *)
Definition is_onehot (vs : list vinfo) (k : scon) : bool :=
  let p := k_p k in
  match p_quad p with [] => true | _ => false end
  && (2 <=? length (pvars p))%nat
  && sense_eqb (k_sense k) EQ
  && Qc_eqb (p_off p) 0
  && forallb (fun v => is_binary (vt_of vs v)) (pvars p)
  && forallb (fun v => Qc_eqb (lin_coeff (p_lin p) v) (k_rhs k)) (pvars p).

Definition is_discrete (vs : list vinfo) (k : scon) : bool := k_mark k && is_onehot vs k.

(* ---------- record updates ---------- *)

Definition con_set_p (k : scon) (p : poly) : scon :=
  mkCon (k_lbl k) p (k_sense k) (k_rhs k) (k_soft k) (k_mark k).
Definition con_set_mark (k : scon) (m : bool) : scon :=
  mkCon (k_lbl k) (k_p k) (k_sense k) (k_rhs k) (k_soft k) m.
Definition con_set_soft (k : scon) (s : option (Qc * penalty)) : scon :=
  mkCon (k_lbl k) (k_p k) (k_sense k) (k_rhs k) s (k_mark k).
Definition con_set_lbl (k : scon) (l : nat) : scon :=
  mkCon l (k_p k) (k_sense k) (k_rhs k) (k_soft k) (k_mark k).

Definition map_exprs (f : poly -> poly) (q : scqm) : scqm :=
  mkCqm (q_vars q) (f (q_obj q)) (map (fun k => con_set_p k (f (k_p k))) (q_cons q)).
Definition set_vars (q : scqm) (vs : list vinfo) : scqm := mkCqm vs (q_obj q) (q_cons q).
Definition set_cons (q : scqm) (ks : list scon) : scqm := mkCqm (q_vars q) (q_obj q) ks.
Definition set_obj (q : scqm) (p : poly) : scqm := mkCqm (q_vars q) p (q_cons q).
Definition upd_con (l : nat) (f : scon -> scon) (q : scqm) : scqm :=
  set_cons q (map (fun k => if (k_lbl k =? l)%nat then f k else k) (q_cons q)).
Definition del_var (l : label) (vs : list vinfo) : list vinfo :=
  filter (fun x => negb (v_lbl x =? l)%nat) vs.
Definition upd_var (l : label) (f : vinfo -> vinfo) (vs : list vinfo) : list vinfo :=
  map (fun x => if (v_lbl x =? l)%nat then f x else x) vs.

(* ---------- operations ---------- *)

Inductive target := TObj | TCon (l : nat).

Record mdesc := mkDesc { d_vars : list vinfo; d_lin : list lterm; d_quad : list qterm; d_off : Qc }.

Inductive term := T0 (b : Qc) | T1 (v : label) (b : Qc) | T2 (u v : label) (b : Qc) | TBad.

Inductive op :=
| AddVar (vt : vartype) (l : label) (lb ub : option Qc)
| AddVars (vt : vartype) (ls : list label) (lb ub : option Qc)
| RemoveVar (l : label)
| FixVar (l : label) (a : Qc)
| FixVars (fs : list (label * Qc)) (inplace : bool)
| Flip (l : label)
| ChangeVt (vt : vartype) (l : label)
| SpinToBinary
| RelabelVars (mp : list (label * label))
| SetObjModel (d : mdesc)
| SetObjIter (ts : list term)
| AddConModel (d : mdesc) (s : sense) (rhs : Qc) (l : nat) (soft : option (Qc * penalty))
| AddConIter (ts : list term) (s : sense) (rhs : Qc) (l : nat) (soft : option (Qc * penalty))
| AddDiscreteIter (ls : list label) (l : nat) (chk : bool)
| AddDiscreteModel (d : mdesc) (l : nat) (chk : bool)
| SetWeight (l : nat) (w : option Qc) (pen : penalty)
| RemoveCon (l : nat) (cascade : bool)
| RelabelCons (mp : list (nat * nat))
| SetLb (l : label) (b : Qc)
| SetUb (l : label) (b : Qc)
| VAddLinear (t : target) (v : label) (b : Qc)
| VAddQuadratic (t : target) (u v : label) (b : Qc)
| VSetLinear (t : target) (v : label) (b : Qc)
| VRemoveVar (t : target) (v : label)
| VRemoveInter (t : target) (u v : label)
| VSetOffset (t : target) (b : Qc)
| MarkDiscrete (l : nat) (m : bool)
| Clear                                                     (* cyConstrainedQuadraticModel.clear() *)
| FromDqm (d : mdesc) (groups : list (nat * list label))    (* ConstrainedQuadraticModel.from_discrete_quadratic_model: a NEW model;
                                                               d = the case-level BQM over the (variable, case) labels,
                                                               groups = per DQM variable its constraint label and its cases *)
| SubstSelfLoops (mp : list (label * label * nat))          (* substitute_self_loops(); mp = the mapping it returned:
                                                               variable, its new counterpart, the label of the new constraint *)
| Nop.

Definition Qc_ltb (a b : Qc) : bool := negb (Qle_bool b a).
Definition Qc_leb (a b : Qc) : bool := Qle_bool a b.

Definition default_bounds (vt : vartype) : Qc * Qc :=
  match vt with
  | BINARY => (0, 1)
  | SPIN => (- (1), 1)
  | INTEGER => (0, qc 9007199254740991 1)
  | REAL => (0, qc 1000000000000000019884624838656 1)
  end.

Definition opt_or (o : option Qc) (d : Qc) : Qc := match o with Some x => x | None => d end.

(* cyconstrained.add_variables: bounds of BINARY/SPIN are forced (and count as given) *)
Definition norm_bounds (vt : vartype) (lb ub : option Qc) : option Qc * option Qc :=
  match vt with
  | BINARY => (Some 0, Some 1)
  | SPIN => (Some (- (1)), Some 1)
  | _ => (lb, ub)
  end.

(* one variable of add_variables: None = ValueError *)
Definition add_one_var (vt : vartype) (lb ub : option Qc) (l : label) (vs : list vinfo) : option (list vinfo) :=
  match find_var l vs with
  | Some x =>
      if negb (vartype_eqb vt (v_vt x)) then None
      else if match lb with Some b => negb (Qc_eqb b (v_lb x)) | None => false end then None
      else if match ub with Some b => negb (Qc_eqb b (v_ub x)) | None => false end then None
      else Some vs
  | None => Some (vs ++ [mkV l vt (opt_or lb (fst (default_bounds vt))) (opt_or ub (snd (default_bounds vt)))])
  end.

Fixpoint add_vars_loop (vt : vartype) (lb ub : option Qc) (ls : list label) (vs : list vinfo) : list vinfo * exc :=
  match ls with
  | [] => (vs, XNone)
  | l :: r => match add_one_var vt lb ub l vs with
              | Some vs' => add_vars_loop vt lb ub r vs'
              | None => (vs, XValue)
              end
  end.

Definition add_variables (vt : vartype) (lb ub : option Qc) (ls : list label) (q : scqm) : scqm * exc :=
  let '(lb', ub') := norm_bounds vt lb ub in
  let l0 := opt_or lb' (fst (default_bounds vt)) in
  let u0 := opt_or ub' (snd (default_bounds vt)) in
  (* vartype_info min/max: for INTEGER and REAL the largest magnitude is the default upper bound *)
  let mx := snd (default_bounds vt) in
  let out_of_range := match vt with INTEGER | REAL => Qc_ltb l0 (- mx) || Qc_ltb mx u0 | _ => false end in
  if out_of_range then (q, XValue)
  else if Qc_ltb u0 l0 then (q, XValue)
  else let '(vs, e) := add_vars_loop vt lb' ub' ls (q_vars q) in (set_vars q vs, e).

(* model -> CQM variable merge of add_constraint_from_model / _set_objective_from_cyqm *)
Definition vinfo_compat (a b : vinfo) : bool :=
  vartype_eqb (v_vt a) (v_vt b) && Qc_eqb (v_lb a) (v_lb b) && Qc_eqb (v_ub a) (v_ub b).
Definition merge_ok (vs dv : list vinfo) : bool :=
  forallb (fun d => match find_var (v_lbl d) vs with Some e => vinfo_compat e d | None => true end) dv.
Definition merge_vars (vs dv : list vinfo) : list vinfo :=
  fold_left (fun acc d => if has_var (v_lbl d) acc then acc else acc ++ [d]) dv vs.

Definition desc_poly (vt : label -> vartype) (d : mdesc) : poly :=
  fold_left (fun p t => s_addq vt (fst (fst t)) (snd (fst t)) (snd t) p) (d_quad d)
            (mkPoly (d_off d) (d_lin d) []).

Fixpoint add_terms (vs : list vinfo) (ts : list term) (p : poly) : poly * bool :=
  match ts with
  | [] => (p, false)
  | T0 b :: r => add_terms vs r (add_offset b p)
  | T1 v b :: r => if has_var v vs then add_terms vs r (add_linear v b p) else (p, true)
  | T2 u v b :: r => if has_var u vs && has_var v vs then add_terms vs r (s_addq (vt_of vs) u v b p) else (p, true)
  | TBad :: _ => (p, true)
  end.

(* cyConstraintView.set_weight on the constraint labelled l *)
Definition set_weight (l : nat) (w : option Qc) (pen : penalty) (q : scqm) : scqm * exc :=
  match find_con l (q_cons q) with
  | None => (q, XKey)
  | Some k =>
      if match w with Some x => Qc_leb x 0 | None => false end then (q, XValue)
      else if penalty_eqb pen PQuad && negb (forallb (fun v => is_bin_or_spin (vt_of (q_vars q) v)) (pvars (k_p k)))
      then (q, XValue)
      else (upd_con l (fun k => con_set_soft k (match w with Some x => Some (x, pen) | None => None end)) q, XNone)
  end.

(* the weight and penalty are validated before the model is touched (q0: the model as it was) *)
Definition append_con (q0 q : scqm) (k : scon) (soft : option (Qc * penalty)) : scqm * exc :=
  let q1 := set_cons q (q_cons q ++ [k]) in
  match soft with
  | None => (q1, XNone)
  | Some (w, pen) =>
      if Qc_leb w 0 then (q0, XValue)
      else if penalty_eqb pen PQuad && negb (forallb (fun v => is_bin_or_spin (vt_of (q_vars q) v)) (pvars (k_p k)))
      then (q0, XValue)
      else set_weight (k_lbl k) (Some w) pen q1
  end.

Definition add_con_model (d : mdesc) (s : sense) (rhs : Qc) (l : nat) (soft : option (Qc * penalty)) (q : scqm) : scqm * exc :=
  if has_con l (q_cons q) then (q, XValue)
  else if negb (merge_ok (q_vars q) (d_vars d)) then (q, XValue)
  else
    let vs := merge_vars (q_vars q) (d_vars d) in
    append_con q (set_vars q vs) (mkCon l (desc_poly (vt_of vs) d) s rhs None false) soft.

Definition remove_var_raw (l : label) (q : scqm) : scqm :=
  set_vars (map_exprs (remove_variable l) q) (del_var l (q_vars q)).

Definition any_discrete (q : scqm) : bool := existsb (is_discrete (q_vars q)) (q_cons q).
Definition in_discrete (l : label) (q : scqm) : bool :=
  existsb (fun k => is_discrete (q_vars q) k && pmentions (k_p k) l) (q_cons q).

Definition remove_variable_py (l : label) (q : scqm) : scqm * exc :=
  if in_discrete l q then (q, XValue)
  else if has_var l (q_vars q) then (remove_var_raw l q, XNone) else (q, XValue).

Definition fix_one (l : label) (a : Qc) (q : scqm) : scqm * exc :=
  match find_var l (q_vars q) with
  | None => (q, XValue)
  | Some x =>
      let q1 :=
        if is_binary (v_vt x) && negb (Qc_eqb a 0)
        then set_cons q (map (fun k => if k_mark k && pmentions (k_p k) l then con_set_mark k false else k) (q_cons q))
        else q in
      (set_vars (map_exprs (fix_variable l a) q1) (del_var l (q_vars q1)), XNone)
  end.

Fixpoint fix_many (fs : list (label * Qc)) (q : scqm) : scqm * exc :=
  match fs with
  | [] => (q, XNone)
  | (l, a) :: r => match fix_one l a q with
                   | (q', XNone) => fix_many r q'
                   | (q', e) => (q', e)
                   end
  end.

(* C++ fix_variables (new model): discrete mark kept only if still one-hot *)
Definition fix_copy (fs : list (label * Qc)) (q : scqm) : scqm * exc :=
  if negb (forallb (fun f => has_var (fst f) (q_vars q)) fs) then (q, XValue)
  else
    let q1 := map_exprs (fix_variables fs) q in
    let vs := filter (fun x => negb (memb (v_lbl x) (map fst fs))) (q_vars q) in
    (mkCqm vs (q_obj q1) (map (fun k => con_set_mark k (k_mark k && is_onehot vs k)) (q_cons q1)), XNone).

Definition flip (l : label) (q : scqm) : scqm * exc :=
  match find_var l (q_vars q) with
  | None => (q, XValue)
  | Some x =>
      match v_vt x with
      | SPIN | BINARY =>
          let c := match v_vt x with BINARY => 1 | _ => 0 end in
          (* the affected discrete constraints are determined BEFORE the flip *)
          let f := substitute l (- (1)) c in
          let drop k := is_discrete (q_vars q) k && pmentions (k_p k) l in
          (mkCqm (q_vars q) (f (q_obj q))
                 (map (fun k => let k1 := con_set_p k (f (k_p k)) in if drop k then con_set_mark k1 false else k1)
                      (q_cons q)), XNone)
      | _ => (q, XValue)
      end
  end.

Definition set_info (l : label) (vt : vartype) (lb ub : Qc) (q : scqm) : scqm :=
  set_vars q (upd_var l (fun x => mkV (v_lbl x) vt lb ub) (q_vars q)).

Definition spin_to_binary_one (l : label) (q : scqm) : scqm :=
  set_info l BINARY 0 1 (map_exprs (spin_to_binary l) q).

Definition change_vartype (vt : vartype) (l : label) (q : scqm) : scqm * exc :=
  match find_var l (q_vars q) with
  | None => (q, XValue)
  | Some x =>
      match v_vt x, vt with
      | BINARY, BINARY | SPIN, SPIN | INTEGER, INTEGER | REAL, REAL => (q, XNone)
      | SPIN, BINARY => (spin_to_binary_one l q, XNone)
      | BINARY, SPIN => (set_info l SPIN (- (1)) 1 (map_exprs (binary_to_spin l) q), XNone)
      | SPIN, INTEGER => (set_info l INTEGER 0 1 (spin_to_binary_one l q), XNone)
      | BINARY, INTEGER => (set_info l INTEGER (v_lb x) (v_ub x) q, XNone)
      | _, _ => (q, XType)
      end
  end.

Definition spin_to_binary_all (q : scqm) : scqm :=
  fold_left (fun acc x => match v_vt x with SPIN => spin_to_binary_one (v_lbl x) acc | _ => acc end) (q_vars q) q.

(* Variables._relabel through iter_safe_relabels *)
Fixpoint assoc (l : nat) (mp : list (nat * nat)) : option nat :=
  match mp with [] => None | (a, b) :: r => if (a =? l)%nat then Some b else assoc l r end.
Definition relabel_fun (mp : list (nat * nat)) (l : nat) : nat :=
  match assoc l mp with Some n => n | None => l end.
Fixpoint distinct (l : list nat) : bool :=
  match l with [] => true | x :: r => negb (memb x r) && distinct r end.
Definition relabel_ok (mp : list (nat * nat)) (existing : list nat) : bool :=
  distinct (map snd mp)
  && forallb (fun n => negb (memb n existing && negb (memb n (map fst mp)))) (map snd mp).

Definition relabel_vars (mp : list (label * label)) (q : scqm) : scqm * exc :=
  if negb (relabel_ok mp (map v_lbl (q_vars q))) then (q, XValue)
  else
    let f := relabel_fun mp in
    let q1 := map_exprs (relabel f) q in
    (set_vars q1 (map (fun x => mkV (f (v_lbl x)) (v_vt x) (v_lb x) (v_ub x)) (q_vars q1)), XNone).

Definition relabel_cons (mp : list (nat * nat)) (q : scqm) : scqm * exc :=
  if negb (relabel_ok mp (map k_lbl (q_cons q))) then (q, XValue)
  else (set_cons q (map (fun k => con_set_lbl k (relabel_fun mp (k_lbl k))) (q_cons q)), XNone).

Definition discrete_overlap (chk : bool) (l : label) (q : scqm) : bool := chk && in_discrete l q.

Definition add_discrete_iter (ls : list label) (l : nat) (chk : bool) (q : scqm) : scqm * exc :=
  if has_con l (q_cons q) then (q, XValue)
  else if existsb (fun v => has_var v (q_vars q)
                         && (discrete_overlap chk v q || negb (is_binary (vt_of (q_vars q) v)))) ls
  then (q, XValue)
  else
    let dl := rev (nodup Nat.eq_dec (rev ls)) in      (* first occurrences, in order *)
    let d := mkDesc (map (fun v => mkV v BINARY 0 1) dl) (map (fun v => (v, 1)) dl) [] 0 in
    match add_con_model d EQ 1 l None q with
    | (q', XNone) => (upd_con l (fun k => con_set_mark k true) q', XNone)
    | r => r
    end.

Definition desc_vt (d : mdesc) (l : label) : vartype := vt_of (d_vars d) l.

Definition add_discrete_model (d : mdesc) (l : nat) (chk : bool) (q : scqm) : scqm * exc :=
  if match d_quad d with [] => false | _ => true end then (q, XValue)
  else if existsb (fun t =>
            (if has_var (fst t) (q_vars q)
             then discrete_overlap chk (fst t) q || negb (is_binary (vt_of (q_vars q) (fst t)))
             else negb (is_binary (desc_vt d (fst t))))
            || negb (Qc_eqb (snd t) 1)) (d_lin d)
  then (q, XValue)
  else
    match add_con_model d EQ 1 l None q with
    | (q', XNone) => (upd_con l (fun k => con_set_mark k true) q', XNone)
    | r => r
    end.

Definition remove_con (l : nat) (cascade : bool) (q : scqm) : scqm * exc :=
  match find_con l (q_cons q) with
  | None => (q, if cascade then XKey else XValue)
  | Some k =>
      let rest := filter (fun k' => negb (k_lbl k' =? l)%nat) (q_cons q) in
      let q1 := set_cons q rest in
      if negb cascade then (q1, XNone)
      else
        let gone := filter (fun v => negb (pmentions (q_obj q) v)
                                     && negb (existsb (fun k' => pmentions (k_p k') v) rest)) (pvars (k_p k)) in
        match gone with
        | [] => (q1, XNone)
        | _ => (fold_left (fun acc v => remove_var_raw v acc) gone q1, XNone)
        end
  end.

Definition set_lb (l : label) (b : Qc) (q : scqm) : scqm * exc :=
  match find_var l (q_vars q) with
  | None => (q, XValue)
  | Some x => if is_bin_or_spin (v_vt x) then (q, XValue)
              else if Qc_ltb (v_ub x) b then (q, XValue)
              else (set_info l (v_vt x) b (v_ub x) q, XNone)
  end.
Definition set_ub (l : label) (b : Qc) (q : scqm) : scqm * exc :=
  match find_var l (q_vars q) with
  | None => (q, XValue)
  | Some x => if is_bin_or_spin (v_vt x) then (q, XValue)
              else if Qc_ltb b (v_lb x) then (q, XValue)
              else (set_info l (v_vt x) (v_lb x) b q, XNone)
  end.

(* edits through an expression view *)
Definition on_target (t : target) (f : poly -> poly) (q : scqm) : scqm * exc :=
  match t with
  | TObj => (set_obj q (f (q_obj q)), XNone)
  | TCon l => if has_con l (q_cons q) then (upd_con l (fun k => con_set_p k (f (k_p k))) q, XNone) else (q, XKey)
  end.
Definition target_ok (t : target) (q : scqm) : bool :=
  match t with TObj => true | TCon l => has_con l (q_cons q) end.

Definition set_offset (b : Qc) (p : poly) : poly := mkPoly b (p_lin p) (p_quad p).

(* ---------- substitute_self_loops ----------
   every self-loop u*u (u not BINARY/SPIN) of the objective or a constraint becomes u*new for ONE new variable per u with
   u's vartype and bounds; afterwards the constraint u - new == 0 is appended under the label of `new`.  The new labels
   are drawn at random by the implementation, so the operation carries the mapping it returned; the specification
   decides WHICH variables must be in it (exactly those with a stored self-loop, in any expression). *)
Definition needs_subst (q : scqm) (x : vinfo) : bool :=
  negb (is_bin_or_spin (v_vt x))
  && (has_pair (p_quad (q_obj q)) (v_lbl x) (v_lbl x)
      || existsb (fun k => has_pair (p_quad (k_p k)) (v_lbl x) (v_lbl x)) (q_cons q)).

Definition subst_loops_poly (vt : label -> vartype) (mp : list (label * label * nat)) (p : poly) : poly :=
  fold_left (fun p t => let u := fst (fst t) in let nw := snd (fst t) in
                        if has_pair (p_quad p) u u
                        then remove_interaction u u (s_addq vt u nw (quad_coeff (p_quad p) u u) p)
                        else p) mp p.

Definition subst_self_loops (mp : list (label * label * nat)) (q : scqm) : scqm * exc :=
  let need := map v_lbl (filter (needs_subst q) (q_vars q)) in
  let keys := map (fun t => fst (fst t)) mp in
  let news := map (fun t => snd (fst t)) mp in
  if negb (forallb (fun x => memb x keys) need && forallb (fun x => memb x need) keys) then (q, XOther)
  else if negb (distinct keys && distinct news && distinct (map snd mp)) then (q, XOther)
  else if existsb (fun x => has_var x (q_vars q)) news || existsb (fun t => has_con (snd t) (q_cons q)) mp then (q, XOther)
  else
    let vs := fold_left (fun vs t => match find_var (fst (fst t)) (q_vars q) with
                                     | Some x => vs ++ [mkV (snd (fst t)) (v_vt x) (v_lb x) (v_ub x)]
                                     | None => vs
                                     end) mp (q_vars q) in
    let f := subst_loops_poly (vt_of vs) mp in
    let ks := map (fun k => con_set_p k (f (k_p k))) (q_cons q) in
    let eqs := map (fun t => mkCon (snd t) (add_linear (snd (fst t)) (- (1)) (add_linear (fst (fst t)) 1 pzero)) EQ 0 None false) mp in
    (mkCqm vs (f (q_obj q)) (ks ++ eqs), XNone).

(* from_discrete_quadratic_model: objective = the case-level BQM, then one discrete constraint per DQM variable *)
Fixpoint add_groups (gs : list (nat * list label)) (q : scqm) : scqm * exc :=
  match gs with
  | [] => (q, XNone)
  | g :: r => match add_discrete_iter (snd g) (fst g) false q with
              | (q', XNone) => add_groups r q'
              | e => e
              end
  end.

Definition from_dqm (d : mdesc) (gs : list (nat * list label)) : scqm * exc :=
  if negb (merge_ok [] (d_vars d)) then (empty_cqm, XValue)
  else let vs := merge_vars [] (d_vars d) in add_groups gs (mkCqm vs (desc_poly (vt_of vs) d) []).

Definition step (q : scqm) (o : op) : scqm * exc :=
  let vs := q_vars q in
  match o with
  | AddVar vt l lb ub => add_variables vt lb ub [l] q
  | AddVars vt ls lb ub => add_variables vt lb ub ls q
  | RemoveVar l => remove_variable_py l q
  | FixVar l a => fix_one l a q
  | FixVars fs true => fix_many fs q
  | FixVars fs false => fix_copy fs q
  | Flip l => flip l q
  | ChangeVt vt l => change_vartype vt l q
  | SpinToBinary => (spin_to_binary_all q, XNone)
  | RelabelVars mp => relabel_vars mp q
  | SetObjModel d =>
      if negb (merge_ok vs (d_vars d)) then (q, XValue)
      else let vs' := merge_vars vs (d_vars d) in
           (mkCqm vs' (desc_poly (vt_of vs') d) (q_cons q), XNone)
  | SetObjIter ts =>
      let '(p, bad) := add_terms vs ts pzero in (set_obj q p, if bad then XValue else XNone)
  | AddConModel d s rhs l soft => add_con_model d s rhs l soft q
  | AddConIter ts s rhs l soft =>
      if has_con l (q_cons q) then (q, XValue)
      else let '(p, bad) := add_terms vs ts pzero in
           if bad then (q, XValue) else append_con q q (mkCon l p s rhs None false) soft
  | AddDiscreteIter ls l chk => add_discrete_iter ls l chk q
  | AddDiscreteModel d l chk => add_discrete_model d l chk q
  | SetWeight l w pen => set_weight l w pen q
  | RemoveCon l cascade => remove_con l cascade q
  | RelabelCons mp => relabel_cons mp q
  | SetLb l b => set_lb l b q
  | SetUb l b => set_ub l b q
  | VAddLinear t v b =>
      if negb (target_ok t q) then (q, XKey)
      else if negb (has_var v vs) then (q, XValue) else on_target t (add_linear v b) q
  | VAddQuadratic t u v b =>
      if negb (target_ok t q) then (q, XKey)
      else if negb (has_var u vs && has_var v vs) then (q, XValue)
      else if (u =? v)%nat && is_bin_or_spin (vt_of vs u) then (q, XValue)
      else if is_real (vt_of vs u) || is_real (vt_of vs v) then (q, XValue)
      else on_target t (s_addq (vt_of vs) u v b) q
  | VSetLinear t v b =>
      if negb (target_ok t q) then (q, XKey)
      else if negb (has_var v vs) then (q, XValue) else on_target t (set_linear v b) q
  | VRemoveVar t v =>
      if negb (target_ok t q) then (q, XKey)
      else if negb (has_var v vs) then (q, XValue) else on_target t (remove_variable v) q
  | VRemoveInter t u v =>
      if negb (target_ok t q) then (q, XKey)
      else if negb (has_var u vs && has_var v vs) then (q, XValue) else on_target t (remove_interaction u v) q
  | VSetOffset t b => on_target t (set_offset b) q
  | MarkDiscrete l m =>
      if has_con l (q_cons q) then (upd_con l (fun k => con_set_mark k m) q, XNone) else (q, XKey)
  | Clear => (empty_cqm, XNone)
  | FromDqm d gs => from_dqm d gs
  | SubstSelfLoops mp => subst_self_loops mp q
  | Nop => (q, XNone)
  end.

Definition run (ops : list op) (q : scqm) : scqm :=
  fold_left (fun s o => fst (step s o)) ops q.
