(* C20 - the remaining reads of cyDiscreteQuadraticModel (dimod/discrete/cydiscrete_quadratic_model.pyx), written the way
   the .pyx writes them; None = ValueError.  Executable; no proofs here.
     get_quadratic_case(u, case_u, v, case_v)   the two `case >= num_cases` checks, then cppbqm.quadratic(cu, cv)
     get_quadratic(u, v, array=True)            np.zeros((num_cases(u), num_cases(v))) overwritten by the same span walk
                                                 as the dict form (Model/DqmNative.get_quadratic)
     energies(samples), one row                 the shape check, then per variable `if case_u >= num_cases(u): raise`
                                                 BEFORE anything of that variable is read; the accumulation is d_energy's
   Cases are unsigned here (nat): the `case_u < 0` halves of the checks are not expressible. *)
From Coq Require Import List ZArith QArith Qcanon Bool Arith.
From Dimod Require Import Base.Util Model.Poly Model.Adj Model.AdjMore Model.DqmNative.
Import ListNotations.
Open Scope Qc_scope.

Definition get_quadratic_case (d : dqm) (u cu v cv : nat) : option Qc :=
  if (cu <? d_ncases d u)%nat then
    if (cv <? d_ncases d v)%nat then Some (quadratic (d_b d) (cs d u cu) (cs d v cv)) else None
  else None.

(* row major; the value written last for a cell wins, cells never written stay 0 *)
Definition span_cell (sp : nbh) (key : nat) : Qc :=
  fold_left (fun acc e => if (fst e =? key)%nat then snd e else acc) sp 0.

Definition get_quadratic_array (d : dqm) (u v : nat) : option (list (list Qc)) :=
  if lb_has v (d_nb d u) then
    Some (map (fun cu =>
                 let sp := span_from (d_start d v) (d_start d (S v)) (nb (d_b d) (cs d u cu)) in
                 map (fun cv => span_cell sp (d_start d v + cv)%nat) (seq 0 (d_ncases d v)))
              (seq 0 (d_ncases d u)))
  else None.

(* one sample row of energies *)
Fixpoint energies_walk (d : dqm) (s : list nat) (us : list nat) (e : Qc) : option Qc :=
  match us with
  | [] => Some e
  | u :: r =>
      if (nth u s 0%nat <? d_ncases d u)%nat then
        let cu := cs d u (nth u s 0%nat) in
        energies_walk d s r
          (fold_left (fun e' v => e' + quadratic (d_b d) cu (cs d v (nth v s 0%nat)))
                     (below_or_eq u (d_nb d u)) (e + linear (d_b d) cu))
      else None
  end.

Definition energies_checked (d : dqm) (s : list nat) : option Qc :=
  if (length s =? d_nvars d)%nat then energies_walk d s (seq 0 (d_nvars d)) (off (d_b d)) else None.
