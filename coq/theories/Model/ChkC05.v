(* C05 correspondence: a history of public CQM mutations is replayed on the
   plain list of polynomials (CQMSpec.step); after every operation the
   exception bucket and the complete observable state of the implementation
   must be those of the model.  Operations that re-index expressions are
   additionally replayed on the index-level model (Expr.v) from the raw
   arrays (variables_, linear, quadratic by local index) dumped before the
   operation and compared with the raw arrays dumped after it.  Finally the
   energies the implementation computes for each expression are compared with
   the energy of the coefficients it reports (oracle). *)
From Coq Require Import List ZArith QArith Qcanon Bool Arith.
From Dimod Require Import Base.Util Model.Poly Model.CQMSpec Model.Expr.
Import ListNotations.

Record ocon := mkOCon {
  oc_lbl : nat; oc_obs : obs; oc_vars : list label; oc_sense : sense; oc_rhs : Qc;
  oc_soft : option (Qc * penalty); oc_disc : bool }.
Record snap := mkSnap { sn_vars : list vinfo; sn_obj : obs; sn_objvars : list label; sn_cons : list ocon }.

Record raw := mkRaw { r_vars : list nat; r_lin : list Qc; r_quad : list lqterm; r_off : Qc }.

(* the expression an index-level step acts on: 0 = objective, S i = i-th constraint *)
Inductive mkind :=
| MReindex (v : nat)
| MFix (v : nat) (a : Qc)
| MExprRemove (c v : nat)
| MAddLinear (c v : nat) (b : Qc)
| MSetLinear (c v : nat) (b : Qc)
| MAddQuadratic (c u v : nat) (b : Qc) (vts : list vartype)
| MMove (c : nat) (mapping : list nat) (vts : list vartype).   (* before = the source model's raw arrays *)

Record mstep := mkMStep { ms_kind : mkind; ms_n : nat; ms_pairs : list (raw * raw) }.

Record case := mkCase {
  c_n : nat;
  c_steps : list (op * exc * snap);
  c_msteps : list mstep;
  c_energy : list (obs * list (label * Qc) * Qc) }.

(* ---------- S level ---------- *)
Definition vinfo_eqb (a b : vinfo) : bool :=
  (v_lbl a =? v_lbl b)%nat && vartype_eqb (v_vt a) (v_vt b) && Qc_eqb (v_lb a) (v_lb b) && Qc_eqb (v_ub a) (v_ub b).
Definition set_eqb (l1 l2 : list nat) : bool :=
  forallb (fun x => memb x l2) l1 && forallb (fun x => memb x l1) l2.
Definition expr_matches (n : nat) (p : poly) (o : obs) (ovars : list label) : bool :=
  poly_coeff_eqb n p (obs_poly o) && poly_pairs_eqb n p (obs_poly o) && set_eqb (pvars p) ovars.
Definition soft_eqb (a b : option (Qc * penalty)) : bool := option_eqb (pair_eqb Qc_eqb penalty_eqb) a b.
Definition con_matches (n : nat) (vs : list vinfo) (k : scon) (oc : ocon) : bool :=
  (k_lbl k =? oc_lbl oc)%nat && expr_matches n (k_p k) (oc_obs oc) (oc_vars oc)
  && sense_eqb (k_sense k) (oc_sense oc) && Qc_eqb (k_rhs k) (oc_rhs oc)
  && soft_eqb (k_soft k) (oc_soft oc) && Bool.eqb (is_discrete vs k) (oc_disc oc).
Fixpoint forall2b {A B} (f : A -> B -> bool) (l1 : list A) (l2 : list B) : bool :=
  match l1, l2 with
  | [], [] => true
  | x :: xs, y :: ys => f x y && forall2b f xs ys
  | _, _ => false
  end.
Definition snap_matches (n : nat) (q : scqm) (sn : snap) : bool :=
  list_eqb vinfo_eqb (q_vars q) (sn_vars sn)
  && expr_matches n (q_obj q) (sn_obj sn) (sn_objvars sn)
  && forall2b (con_matches n (q_vars q)) (q_cons q) (sn_cons sn).

Fixpoint run_check (n : nat) (q : scqm) (steps : list (op * exc * snap)) : bool :=
  match steps with
  | [] => true
  | (o, x, sn) :: r =>
      let '(q', e) := step q o in
      exc_eqb e x && snap_matches n q' sn && run_check n q' r
  end.

(* ---------- M level ---------- *)
Definition raw_to_expr (r : raw) : mexpr :=
  mkE (r_vars r) (rebuild_idx (r_vars r)) (r_lin r) (r_quad r) (r_off r).

Definition lquad_eqb (k : nat) (a b : list lqterm) : bool :=
  forallb (fun i => forallb (fun j => Qc_eqb (quad_coeff a i j) (quad_coeff b i j)
                                      && Bool.eqb (has_pair a i j) (has_pair b i j))
                            (seq 0 (S i))) (seq 0 k).

Definition raw_matches (e : mexpr) (r : raw) : bool :=
  list_eqb Nat.eqb (e_vars e) (r_vars r) && list_eqb Qc_eqb (e_lin e) (r_lin r)
  && Qc_eqb (e_off e) (r_off r) && lquad_eqb (length (r_vars r)) (e_quad e) (r_quad r).

Definition on_pair (n' : nat) (f : mexpr -> mexpr) (ba : raw * raw) : bool :=
  let e := raw_to_expr (fst ba) in
  let e' := f e in
  expr_ok n' e' && raw_matches e' (snd ba).

Definition on_nth (n' c : nat) (f : mexpr -> mexpr) (ps : list (raw * raw)) : bool :=
  forallb (fun ip => on_pair n' (if (fst ip =? c)%nat then f else (fun e => e)) (snd ip))
          (combine (seq 0 (length ps)) ps).

Definition vt_at (vts : list vartype) (i : nat) : vartype := nth i vts INTEGER.

Definition check_mstep (s : mstep) : bool :=
  let n := ms_n s in
  match ms_kind s with
  | MReindex v => forallb (on_pair (pred n) (m_reindex v)) (ms_pairs s)
  | MFix v a => forallb (on_pair (pred n) (fun e => m_reindex v (m_substitute v 0 a e))) (ms_pairs s)
  | MExprRemove c v => on_nth n c (m_remove_variable v) (ms_pairs s)
  | MAddLinear c v b => on_nth n c (m_add_linear v b) (ms_pairs s)
  | MSetLinear c v b => on_nth n c (m_set_linear v b) (ms_pairs s)
  | MAddQuadratic c u v b vts => on_nth n c (m_add_quadratic (vt_at vts) u v b) (ms_pairs s)
  | MMove c mapping vts =>
      (* the moved constraint (only pair) must be what BOTH C++ paths produce *)
      forallb (fun ba =>
                 let src := fst ba in
                 let mv := expr_from_move (r_lin src) (r_quad src) (r_off src) mapping in
                 expr_ok n mv && raw_matches mv (snd ba)
                 && poly_coeff_eqb n (abs_expr mv)
                      (abs_expr (expr_from_copy (vt_at vts) (r_lin src) (r_quad src) (r_off src) mapping)))
              (ms_pairs s)
  end.

(* ---------- oracle: reported coefficients define the reported energies ---------- *)
Definition check_energy (t : obs * list (label * Qc) * Qc) : bool :=
  Qc_eqb (energy_on (obs_poly (fst (fst t))) (snd (fst t))) (snd t).

Definition check (c : case) : bool :=
  run_check (c_n c) empty_cqm (c_steps c)
  && forallb check_mstep (c_msteps c)
  && forallb check_energy (c_energy c).

(* debugging aid: per step (exception agrees, state agrees, model's exception) *)
Fixpoint trace (n : nat) (q : scqm) (steps : list (op * exc * snap)) : list (bool * bool * exc) :=
  match steps with
  | [] => []
  | (o, x, sn) :: r =>
      let '(q', e) := step q o in
      (exc_eqb e x, snap_matches n q' sn, e) :: trace n q' r
  end.
Definition trace_case (c : case) := trace (c_n c) empty_cqm (c_steps c).
Definition state_after (c : case) (k : nat) : scqm :=
  run (map (fun s => fst (fst s)) (firstn k (c_steps c))) empty_cqm.
