(* C14 correspondence + oracle.  A case is what the implementation showed:
   - SeqCase: a sample set built by from_samples, then a history of operations with the
     full observable state after each; every step is compared with the model applied to the
     PREVIOUS OBSERVED state (so relationally-specified steps - sorted slices, `first` - do
     not need a prediction of argsort's tie order) and the property oracles are evaluated on
     the observations themselves;
   - DeferCase: operations captured on a future-backed sample set, resolved afterwards;
   - AsCase: as_samples of one assignment table in several accepted forms;
   - AliasCase: several handles on one future, record sharing observed (Model/Alias.v). *)
From Coq Require Import List ZArith QArith Qcanon Bool Arith.
From Dimod Require Import Base.Util Model.Poly Model.Samples Model.SSet Model.Narrow Model.Alias.
Import ListNotations.
Open Scope Qc_scope.

Inductive step :=
| Step (o : op) (raised : bool) (post : sset)
| StepFirst (seen : option row)
(* a sorted slice / `first` together with what np.argsort returned for the same key vector: the
   implementation's result must be EXACTLY the code shape record[order[selector]] / record[order[0]] *)
| StepSorted (k : skey) (a b c : option Z) (order : list nat) (post : sset)
| StepFirstAt (order : list nat) (seen : option row)
| StepConcatD (others : list sset) (defs : list (nat * Qc)) (post : option sset)      (* read-only: the receiver is kept *)
(* SampleSet.data(sorted_by=k, reverse=..., index=True): (idx, row) as yielded; index=True asks numpy for a STABLE
   argsort, so the order is determined: order = argsort_stable(keys), flipped when reverse *)
| StepData (k : option skey) (reverse : bool) (seen : list (nat * row))
(* SampleSet.samples(n, sorted_by=k) (also iter(sampleset)): the sample rows of record.sample[order][:n], with
   `order` what np.argsort returned for the same key vector *)
| StepSamples (k : option skey) (n : option Z) (order : list nat) (seen : list (list Qc)).

(* dimod.concatenate(samplesets, defaults=...) when the sample sets do NOT carry the same data vectors
   (numpy.lib.recfunctions.stack_arrays, usemask=False): the result has the first set's vectors followed by the new
   ones in order of appearance; a row takes a missing vector's value from `defaults`, else numpy's fill value for
   floats (1e20) *)
Definition np_float_fill : Qc := qc 100000000000000000000 1.
Definition union_fields (first : list nat) (others : list (list nat)) : list nat :=
  fold_left (fun acc fs => acc ++ filter (fun f => negb (memb f acc)) fs) others first.
Fixpoint field_pos (f : nat) (fs : list nat) : option nat :=
  match fs with [] => None | g :: r => if (g =? f)%nat then Some 0%nat else option_map S (field_pos f r) end.
Definition refield (res : list nat) (defs : list (nat * Qc)) (fs : list nat) (r : row) : row :=
  mkRow (vals r) (en r) (oc r) (tag r)
        (map (fun f => match field_pos f fs with
                       | Some i => nth i (extra r) 0
                       | None => match find (fun d => (fst d =? f)%nat) defs with Some d => snd d | None => np_float_fill end
                       end) res).
Fixpoint concat_rows_d (res : list nat) (defs : list (nat * Qc)) (first : sset) (others : list sset) : option (list row) :=
  match others with
  | [] => Some []
  | o :: rest =>
      let o' := if vartype_eqb (vt o) (vt first) then Some o
                else match change_vartype_ss (vt first) 0 o with Ok x => Some x | Fail _ => None end in
      match o', concat_rows_d res defs first rest with
      | Some x, Some more =>
          if same_set (labels x) (labels first)
          then Some (map (fun r => refield res defs (fields x) (recolumn (labels first) (labels x) r)) (rws x) ++ more) else None
      | _, _ => None
      end
  end.
Definition concat_d (others : list sset) (defs : list (nat * Qc)) (s : sset) : option sset :=
  let res := union_fields (fields s) (map fields others) in
  match concat_rows_d res defs s others with
  | Some more => Some (mkSS (labels s) (vt s) (map (refield res defs (fields s)) (rws s) ++ more) 0%nat res)
  | None => None
  end.

Inductive case :=
| SeqCase (K : lkeys) (sortl : bool) (init seen0 : sset) (steps : list step)
| DeferCase (K : lkeys) (base : sset) (ops : list op) (pending : bool) (calls : list dcall) (seen : option sset)
| AsCase (ref_labels : list label) (ref_rows : list (list Qc)) (outs : list (option (list label * list (list Qc))))
(* as_samples of integer values given WITHOUT dtype in a list-like form: the bit width of the signed integer
   dtype of the returned array (None = ValueError) must be the model's choice *)
| NarrowCase (vals : list Z) (seen : option nat)
(* a history over several handles on ONE future (its result object, two from_future sample sets, every object
   returned by relabel_variables / change_vartype issued before or after the result exists), with a dump of
   every resolved object (content + record sharing) after every event: Model/Alias.v *)
| AliasCase (evs : list (aev * dump)).

Definition same_frame (a b : sset) : bool :=
  list_eqb Nat.eqb (labels a) (labels b) && vartype_eqb (vt a) (vt b) && (info a =? info b)%nat
  && list_eqb Nat.eqb (fields a) (fields b).

(* oracle for aggregate, on the observations: weighted multiset preserved, no duplicates,
   first-seen order with the first occurrence's fields *)
Definition weight (l : list row) (v : list Qc) : Z :=
  fold_right Z.add 0%Z (map oc (filter (fun r => qlist_eqb (vals r) v) l)).
Fixpoint nodup_vals (l : list (list Qc)) : bool :=
  match l with [] => true | x :: r => negb (existsb (qlist_eqb x) r) && nodup_vals r end.
Definition agg_oracle (before after : list row) : bool :=
  forallb (fun r => (weight before (vals r) =? weight after (vals r))%Z) (before ++ after)
  && nodup_vals (map vals after)
  && list_eqb Nat.eqb (map tag after) (map (fun i => tag (nth i before rowz)) (distinct_firsts before 0 []))
  && forallb (fun a => existsb (fun b => row_eqb (set_oc a 0%Z) (set_oc b 0%Z)) before) after.

(* is `order` an admissible outcome of np.argsort(keys)? *)
Fixpoint sortedb (l : list Qc) : bool :=
  match l with
  | x :: ((y :: _) as r) => qle x y && sortedb r
  | _ => true
  end.
Definition argsort_ok_b (keys : list Qc) (order : list nat) : bool :=
  (length order =? length keys)%nat && nodupb order && forallb (fun i => (i <? length keys)%nat) order
  && sortedb (map (fun i => nth i keys 0) order).

(* the future-backed state machine, following the returned handle *)
Fixpoint drun (K : lkeys) (base : sset) (calls : list dcall) (d : dstate) : option sset :=
  match calls with
  | [] => dresolve K base d
  | c :: r => match dstep K base c d with Some (_, ret) => drun K base r ret | None => None end
  end.

Definition step_ok (K : lkeys) (cur : sset) (st : step) : bool * sset :=
  match st with
  | StepSorted k a b c order post =>
      (same_frame cur post && argsort_ok_b (map (key_of k) (rws cur)) order
       && list_eqb row_eqb (slice_sorted_code order (slice_indices (length (rws cur)) a b c) (rws cur)) (rws post)
       && slice_sorted_ok k a b c (rws cur) (rws post), cur)      (* emitted BEFORE the Step it belongs to *)
  | StepFirstAt order seen =>
      (match first_code order (rws cur), seen with
       | None, None => match rws cur with [] => true | _ => false end
       | Some r, Some r' => argsort_ok_b (map en (rws cur)) order && row_eqb r r' && first_ok (rws cur) r'
       | _, _ => false
       end, cur)
  | StepConcatD others defs post => (option_eqb sset_eqb (concat_d others defs cur) post, cur)
  | StepData k reverse seen =>
      (let rows := rws cur in
       let order := match k with None => seq 0 (length rows) | Some k' => argsort_stable (map (key_of k') rows) end in
       let order' := if reverse then rev order else order in
       list_eqb Nat.eqb (map fst seen) order'
       && forallb (fun p => row_eqb (nth (fst p) rows rowz) (snd p)) seen, cur)
  | StepSamples k n order seen =>
      (let rows := rws cur in
       match k with
       | None => list_eqb Nat.eqb order (seq 0 (length rows))
       | Some k' => argsort_ok_b (map (key_of k') rows) order
       end
       && list_eqb qlist_eqb seen
            (map vals (slice_sorted_code order (slice_indices (length rows) None n None) rows)), cur)
  | StepFirst seen =>
      (match rws cur, seen with
       | [], None => true
       | _ :: _, Some r => first_ok (rws cur) r
       | _, _ => false
       end, cur)
  | Step (OSlice (Some k) a b c) raised post =>
      (negb raised && same_frame cur post && slice_sorted_ok k a b c (rws cur) (rws post), post)
  | Step o raised post =>
      (match apply K o cur with
       | Ok s => negb raised && sset_eqb s post
       | Fail s => raised && sset_eqb s post
       end
       && match o with
          | OAggregate => agg_oracle (rws cur) (rws post)
                          && list_eqb row_eqb (aggregate_np (rws cur)) (rws post)
                          && list_eqb row_eqb (unsort_accumulate (rev (np_unique_rows (rws cur))) (rws cur)) (rws post)
          | _ => true
          end, post)
  end.

Fixpoint steps_ok (K : lkeys) (cur : sset) (l : list step) : bool :=
  match l with
  | [] => true
  | st :: r => let '(b, nxt) := step_ok K cur st in b && steps_ok K nxt r
  end.

(* as_samples: same label set, same number of rows, every label the same value in every row *)
Definition as_out_ok (ref_labels : list label) (ref_rows : list (list Qc)) (out : option (list label * list (list Qc))) : bool :=
  match out with
  | None => false
  | Some (ls, rows) =>
      same_set ls ref_labels && (length rows =? length ref_rows)%nat
      && forallb (fun rr => (length (fst rr) =? length ls)%nat
                            && forallb (fun v => Qc_eqb (row_value ls (fst rr) v) (row_value ref_labels (snd rr) v)) ref_labels)
                 (combine rows ref_rows)
  end.

Definition check (c : case) : bool :=
  match c with
  | SeqCase K sortl init seen0 steps =>
      sset_eqb (sort_columns K sortl init) seen0 && steps_ok K seen0 steps
  | DeferCase K base ops pending calls seen =>
      option_eqb sset_eqb (resolve K (fold_left (fun p o => defer o p) ops []) base) seen
      && option_eqb sset_eqb (drun K base calls (if pending then DPending [] else DResolved base)) seen
  | AsCase rl rr outs => forallb (as_out_ok rl rr) outs
  | NarrowCase vals seen => option_eqb Nat.eqb (narrow vals) seen
  | AliasCase evs => alias_check evs
  end.
