(* C14 correspondence + oracle.  A case is what the implementation showed:
   - SeqCase: a sample set built by from_samples, then a history of operations with the
     full observable state after each; every step is compared with the model applied to the
     PREVIOUS OBSERVED state (so relationally-specified steps - sorted slices, `first` - do
     not need a prediction of argsort's tie order) and the property oracles are evaluated on
     the observations themselves;
   - DeferCase: operations captured on a future-backed sample set, resolved afterwards;
   - AsCase: as_samples of one assignment table in several accepted forms. *)
From Coq Require Import List ZArith QArith Qcanon Bool Arith.
From Dimod Require Import Base.Util Model.Poly Model.Samples Model.SSet Model.Narrow.
Import ListNotations.
Open Scope Qc_scope.

Inductive step :=
| Step (o : op) (raised : bool) (post : sset)
| StepFirst (seen : option row)
(* a sorted slice / `first` together with what np.argsort returned for the same key vector: the
   implementation's result must be EXACTLY the code shape record[order[selector]] / record[order[0]] *)
| StepSorted (k : skey) (a b c : option Z) (order : list nat) (post : sset)
| StepFirstAt (order : list nat) (seen : option row).

Inductive case :=
| SeqCase (K : lkeys) (sortl : bool) (init seen0 : sset) (steps : list step)
| DeferCase (K : lkeys) (base : sset) (ops : list op) (pending : bool) (calls : list dcall) (seen : option sset)
| AsCase (ref_labels : list label) (ref_rows : list (list Qc)) (outs : list (option (list label * list (list Qc))))
(* as_samples of integer values given WITHOUT dtype in a list-like form: the bit width of the signed integer
   dtype of the returned array (None = ValueError) must be the model's choice *)
| NarrowCase (vals : list Z) (seen : option nat).

Definition same_frame (a b : sset) : bool :=
  list_eqb Nat.eqb (labels a) (labels b) && vartype_eqb (vt a) (vt b) && (info a =? info b)%nat
  && list_eqb Nat.eqb (fields a) (fields b).

(* oracle for aggregate, on the observations: weighted multiset preserved, no duplicates,
   first-seen order with the first occurrence's fields *)
Definition weight (l : list row) (v : list Qc) : Z :=
  fold_right Z.add 0%Z (map oc (filter (fun r => qlist_eqb (vals r) v) l)).
Fixpoint nodup_vals (l : list (list Qc)) : bool :=
  match l with [] => true | x :: r => negb (existsb (qlist_eqb x) r) && nodup_vals r end.
Definition agg_oracle (before after : list row) : bool :=
  forallb (fun r => (weight before (vals r) =? weight after (vals r))%Z) (before ++ after)
  && nodup_vals (map vals after)
  && list_eqb Nat.eqb (map tag after) (map (fun i => tag (nth i before rowz)) (distinct_firsts before 0 []))
  && forallb (fun a => existsb (fun b => row_eqb (set_oc a 0%Z) (set_oc b 0%Z)) before) after.

(* is `order` an admissible outcome of np.argsort(keys)? *)
Fixpoint sortedb (l : list Qc) : bool :=
  match l with
  | x :: ((y :: _) as r) => qle x y && sortedb r
  | _ => true
  end.
Definition argsort_ok_b (keys : list Qc) (order : list nat) : bool :=
  (length order =? length keys)%nat && nodupb order && forallb (fun i => (i <? length keys)%nat) order
  && sortedb (map (fun i => nth i keys 0) order).

(* the future-backed state machine, following the returned handle *)
Fixpoint drun (K : lkeys) (base : sset) (calls : list dcall) (d : dstate) : option sset :=
  match calls with
  | [] => dresolve K base d
  | c :: r => match dstep K base c d with Some (_, ret) => drun K base r ret | None => None end
  end.

Definition step_ok (K : lkeys) (cur : sset) (st : step) : bool * sset :=
  match st with
  | StepSorted k a b c order post =>
      (same_frame cur post && argsort_ok_b (map (key_of k) (rws cur)) order
       && list_eqb row_eqb (slice_sorted_code order (slice_indices (length (rws cur)) a b c) (rws cur)) (rws post)
       && slice_sorted_ok k a b c (rws cur) (rws post), cur)      (* emitted BEFORE the Step it belongs to *)
  | StepFirstAt order seen =>
      (match first_code order (rws cur), seen with
       | None, None => match rws cur with [] => true | _ => false end
       | Some r, Some r' => argsort_ok_b (map en (rws cur)) order && row_eqb r r' && first_ok (rws cur) r'
       | _, _ => false
       end, cur)
  | StepFirst seen =>
      (match rws cur, seen with
       | [], None => true
       | _ :: _, Some r => first_ok (rws cur) r
       | _, _ => false
       end, cur)
  | Step (OSlice (Some k) a b c) raised post =>
      (negb raised && same_frame cur post && slice_sorted_ok k a b c (rws cur) (rws post), post)
  | Step o raised post =>
      (match apply K o cur with
       | Ok s => negb raised && sset_eqb s post
       | Fail s => raised && sset_eqb s post
       end
       && match o with
          | OAggregate => agg_oracle (rws cur) (rws post)
                          && list_eqb row_eqb (aggregate_np (rws cur)) (rws post)
                          && list_eqb row_eqb (unsort_accumulate (rev (np_unique_rows (rws cur))) (rws cur)) (rws post)
          | _ => true
          end, post)
  end.

Fixpoint steps_ok (K : lkeys) (cur : sset) (l : list step) : bool :=
  match l with
  | [] => true
  | st :: r => let '(b, nxt) := step_ok K cur st in b && steps_ok K nxt r
  end.

(* as_samples: same label set, same number of rows, every label the same value in every row *)
Definition as_out_ok (ref_labels : list label) (ref_rows : list (list Qc)) (out : option (list label * list (list Qc))) : bool :=
  match out with
  | None => false
  | Some (ls, rows) =>
      same_set ls ref_labels && (length rows =? length ref_rows)%nat
      && forallb (fun rr => (length (fst rr) =? length ls)%nat
                            && forallb (fun v => Qc_eqb (row_value ls (fst rr) v) (row_value ref_labels (snd rr) v)) ref_labels)
                 (combine rows ref_rows)
  end.

Definition check (c : case) : bool :=
  match c with
  | SeqCase K sortl init seen0 steps =>
      sset_eqb (sort_columns K sortl init) seen0 && steps_ok K seen0 steps
  | DeferCase K base ops pending calls seen =>
      option_eqb sset_eqb (resolve K (fold_left (fun p o => defer o p) ops []) base) seen
      && option_eqb sset_eqb (drun K base calls (if pending then DPending [] else DResolved base)) seen
  | AsCase rl rr outs => forallb (as_out_ok rl rr) outs
  | NarrowCase vals seen => option_eqb Nat.eqb (narrow vals) seen
  end.
