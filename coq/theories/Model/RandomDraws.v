(* C17 - what the random-model generators of dimod/generators/random.py draw, as descriptors that
   translators/random_draws.py emits from the source (Gen/Gen_RandomDraws.v).
   Bounds are affine forms of the parameters with integer coefficients.  The semantics of the numpy calls is TRUSTED:
     RandomState.randint(lo, hi)    an integer x with lo <= x < hi
     RandomState.uniform(lo, hi)    a real x with lo <= x <= hi
     choice(rvals, ...)             an element of rvals (every element possible when p is positive everywhere)
     np.zeros(..) / 0               0
   No proofs here (Proofs/RandomDrawsFacts.v). *)
From Coq Require Import List ZArith.
Import ListNotations.
Open Scope Z_scope.

Definition aff2 := (Z * Z * Z)%type.    (* (a, b, c) = a*low + b*high + c *)
Definition aff1 := (Z * Z)%type.        (* (a, c) = a*r + c *)

Inductive draw (A : Type) :=
| DUniform (lo hi : A)
| DRandint (lo hi : A)
| DChoice
| DZero.
Arguments DUniform {A}.
Arguments DRandint {A}.
Arguments DChoice {A}.
Arguments DZero {A}.

Definition draw2 := draw aff2.
Definition draw1 := draw aff1.

Definition eval2 (low high : Z) (a : aff2) : Z := let '(x, y, c) := a in x * low + y * high + c.
Definition eval1 (r : Z) (a : aff1) : Z := let '(x, c) := a in x * r + c.

(* the integers a draw can return *)
Definition in_draw2 (low high : Z) (d : draw2) (x : Z) : Prop :=
  match d with
  | DRandint lo hi => eval2 low high lo <= x < eval2 low high hi
  | DUniform lo hi => eval2 low high lo <= x <= eval2 low high hi
  | DChoice => False
  | DZero => x = 0
  end.

(* the values of rvals: a concatenation of half-open integer ranges *)
Definition in_rvals (r : Z) (pieces : list (aff1 * aff1)) (x : Z) : Prop :=
  exists p, In p pieces /\ eval1 r (fst p) <= x < eval1 r (snd p).

Definition in_draw1 (r : Z) (pieces : list (aff1 * aff1)) (d : draw1) (x : Z) : Prop :=
  match d with
  | DRandint lo hi => eval1 r lo <= x < eval1 r hi
  | DUniform lo hi => eval1 r lo <= x <= eval1 r hi
  | DChoice => in_rvals r pieces x
  | DZero => x = 0
  end.

Definition triple_list {A} (t : A * A * A) : list A := let '(a, b, c) := t in [a; b; c].
