(* int(np.ceil(np.log10(n))) for an integer n >= 1: the least d with n <= 10^d, i.e. the number of
   decimal digits of n - 1 (0 has no digits).  Specification: Proofs/DqmIneqGenFacts.ceil_log10_spec. *)
From Coq Require Import ZArith.
From Dimod Require Import Model.Penalty.

Definition ceil_log10 (n : Z) : nat := ndigits (Z.to_nat (n - 1)) (n - 1).
