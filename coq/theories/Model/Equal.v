(* C18: is_equal of BinaryQuadraticModel, QuadraticModel / CQM expression views and
   ConstrainedQuadraticModel written in the shape of the code
   (binary_quadratic_model.py:is_equal, quadratic_model.py:is_equal,
   constrained/expression.py:_ExpressionMixin.is_equal, constrained.py:is_equal,
   views/quadratic.py Mapping equality), with every lookup that can raise made
   explicit, and the specification `same_model` it is compared with.
   Note: Vartype.__call__ exists, so `callable(other.vartype)` is true for a BQM as
   well and the `else` branches of the code are dead.  No proofs in this file. *)
From Coq Require Import List ZArith QArith Qcanon Bool Arith.
From Dimod Require Import Base.Util Model.Poly.
From Dimod Require Export Model.EqualLang.
From Dimod Require Import Gen.Gen_EqualCatches.
Import ListNotations.
Open Scope Qc_scope.

(* exn (AttrErr | ValErr | KeyErr) is defined in Model/EqualLang.v; the except clauses come from
   Gen/Gen_EqualCatches.v (translators/equal_catches.py) *)
Inductive out := Val (b : bool) | Raise (e : exn).

Definition exn_eqb (a b : exn) : bool :=
  match a, b with AttrErr, AttrErr | ValErr, ValErr | KeyErr, KeyErr => true | _, _ => false end.

Inductive ecls := EB (vt : vartype) | EQ.     (* BQM with its vartype | QM or expression view *)

(* variables in order with their vartype and linear bias; one entry per interaction *)
Record emdl := mkE {
  e_cls : ecls;
  e_vars : list (label * vartype * Qc);
  e_off : Qc;
  e_quad : list qterm
}.

Definition labels (m : emdl) : list label := map (fun t => fst (fst t)) (e_vars m).
Definition lin_items (m : emdl) : list (label * Qc) := map (fun t => (fst (fst t), snd t)) (e_vars m).

Fixpoint assoc {A : Type} (l : list (label * A)) (k : label) : option A :=
  match l with
  | [] => None
  | (k', x) :: l' => if (k' =? k)%nat then Some x else assoc l' k
  end.

Definition lin_of (m : emdl) (l : label) : option Qc := assoc (lin_items m) l.
Definition qm_vt (m : emdl) (l : label) : option vartype :=
  assoc (map (fun t => (fst (fst t), snd (fst t))) (e_vars m)) l.
Definition mem (l : label) (ls : list label) : bool := existsb (Nat.eqb l) ls.

(* model.vartype(v): a BQM answers its own vartype for every argument (Vartype.__call__);
   a QM / view raises ValueError for a label it does not have *)
Definition ask_vt (m : emdl) (v : label) : option vartype :=
  match e_cls m with EB vt => Some vt | EQ => qm_vt m v end.

(* the vartype a model really gives to a label (specification side) *)
Definition vt_of (m : emdl) (l : label) : option vartype :=
  match e_cls m with
  | EB vt => if mem l (labels m) then Some vt else None
  | EQ => qm_vt m l
  end.

Definition ovt_eqb := option_eqb vartype_eqb.

(* all(<cond> for v in vs): stops at the first False; a lookup may raise before that *)
Fixpoint all_vt (f : label -> option bool) (vs : list label) : out :=
  match vs with
  | [] => Val true
  | v :: vs' => match f v with
                | None => Raise ValErr
                | Some true => all_vt f vs'
                | Some false => Val false
                end
  end.

Definition vartype_eq (a b : emdl) : out :=
  match e_cls a with
  | EB vt =>   (* all(other.vartype(v) is self.vartype for v in other.variables) *)
      all_vt (fun v => match ask_vt b v with Some t => Some (vartype_eqb t vt) | None => None end) (labels b)
  | EQ =>      (* all(self.vartype(v) == other.vartype(v) for v in self.variables) *)
      all_vt (fun v => match ask_vt b v with Some t => Some (ovt_eqb (qm_vt a v) (Some t)) | None => None end) (labels a)
  end.

(* Mapping equality: dict(a.items()) == dict(b.items()) *)
Definition incl_d {A : Type} (eqb : A -> A -> bool) (a b : list (label * A)) : bool :=
  forallb (fun k => match assoc a k, assoc b k with
                    | Some x, Some y => eqb x y
                    | _, _ => false
                    end) (map fst a).
Definition dict_eqb {A : Type} (eqb : A -> A -> bool) (a b : list (label * A)) : bool :=
  incl_d eqb a b && incl_d eqb b a.

(* neighbourhood of v as the mapping {u: bias} *)
Definition nbrs (q : list qterm) (v : label) : list (label * Qc) :=
  flat_map (fun t => let '(a, b, x) := t in
                     if (a =? v)%nat then [(b, x)]
                     else if (b =? v)%nat then [(a, x)] else []) q.

Definition adj_of (m : emdl) (v u : label) : option Qc := assoc (nbrs (e_quad m) v) u.

Definition adj_eqb (a b : emdl) : bool :=
  forallb (fun v => mem v (labels b)) (labels a) && forallb (fun v => mem v (labels a)) (labels b)
  && forallb (fun v => dict_eqb Qc_eqb (nbrs (e_quad a) v) (nbrs (e_quad b) v)) (labels a).

Definition shape_eqb (a b : emdl) : bool :=
  (length (e_vars a) =? length (e_vars b))%nat && (length (e_quad a) =? length (e_quad b))%nat.

Definition body (a b : emdl) : out :=
  match vartype_eq a b with
  | Raise e => Raise e
  | Val false => Val false
  | Val true => Val (shape_eqb a b && Qc_eqb (e_off a) (e_off b)
                     && dict_eqb Qc_eqb (lin_items a) (lin_items b) && adj_eqb a b)
  end.

(* ---------- constrained models ---------- *)
Inductive sense := Le | Ge | Eq.
Definition sense_eqb (a b : sense) : bool :=
  match a, b with Le, Le | Ge, Ge | Eq, Eq => true | _, _ => false end.

(* a constraint also carries what equality does NOT look at: the soft weight (None = hard),
   the penalty kind of a soft constraint, the discrete (one-hot) mark *)
Record constr := mkC { k_sense : sense; k_lhs : emdl; k_rhs : Qc;
                       k_weight : option Qc; k_quadratic_penalty : bool; k_discrete : bool }.
Record cqm := mkCqm { q_obj : emdl; q_vars : list (label * vartype); q_cons : list (label * constr) }.

(* anything is_equal may be handed *)
Inductive obj := ONumber (q : Qc) | OModel (m : emdl) | OCqm (c : cqm) | OOther.

Definition handle (catches : list exn) (o : out) : out :=
  match o with
  | Raise e => if existsb (exn_eqb e) catches then Val false else Raise e
  | v => v
  end.

(* body of the try block against a CQM: vartype lookups go to cqm.vartype(v) (ValueError
   for a label the CQM does not have), then other.shape raises AttributeError *)
Definition body_vs_cqm (a : emdl) (c : cqm) : out :=
  let r := match e_cls a with
           | EB vt => all_vt (fun v => match assoc (q_vars c) v with Some t => Some (vartype_eqb t vt) | None => None end)
                             (map fst (q_vars c))
           | EQ => all_vt (fun v => match assoc (q_vars c) v with Some t => Some (ovt_eqb (qm_vt a v) (Some t)) | None => None end)
                          (labels a)
           end in
  match r with
  | Val true => Raise AttrErr
  | x => x
  end.

(* the except clauses: BQM catches AttributeError; QM and views catch (AttributeError,
   ValueError) since the repair (before it: AttributeError only) *)
Definition catches_of (a : emdl) : list exn :=
  match e_cls a with EB _ => gen_catches_is_equal_bqm | EQ => gen_catches_is_equal_qm end.
Definition catches_orig (a : emdl) : list exn := [AttrErr].

Definition is_equal_with (catches : emdl -> list exn) (a : emdl) (o : obj) : out :=
  match o with
  | ONumber q => Val (match e_vars a with [] => true | _ => false end && Qc_eqb (e_off a) q)
  | OModel b => handle (catches a) (body a b)
  | OCqm c => handle (catches a) (body_vs_cqm a c)
  | OOther => handle (catches a) (Raise AttrErr)
  end.

Definition is_equal_code := is_equal_with catches_of.

Definition and_out (x : out) (y : out) : out :=
  match x with Val true => y | o => o end.

Definition constraint_eq (c0 c1 : constr) : out :=
  and_out (Val (sense_eqb (k_sense c0) (k_sense c1)))
    (and_out (is_equal_code (k_lhs c0) (OModel (k_lhs c1))) (Val (Qc_eqb (k_rhs c0) (k_rhs c1)))).

Fixpoint all_out (l : list out) : out :=
  match l with [] => Val true | x :: xs => and_out x (all_out xs) end.

Definition keys_eqb (a b : list (label * constr)) : bool :=
  forallb (fun k => mem k (map fst b)) (map fst a) && forallb (fun k => mem k (map fst a)) (map fst b).

(* ConstrainedQuadraticModel.is_equal: `if not isinstance(other, ConstrainedQuadraticModel):
   return False` (since the repair a52e756), then objective, constraint labels, constraints *)
Definition cqm_is_equal_code (c : cqm) (o : obj) : out :=
  match o with
  | OCqm d =>
      and_out (is_equal_code (q_obj c) (OModel (q_obj d)))
        (and_out (Val (keys_eqb (q_cons c) (q_cons d)))
           (all_out (map (fun lc => match assoc (q_cons d) (fst lc) with
                                    | Some c1 => constraint_eq (snd lc) c1
                                    | None => Raise KeyErr
                                    end) (q_cons c))))
  | _ => Val false
  end.

(* ---------- specification ---------- *)
Definition same_model (a b : emdl) : Prop :=
  (forall l, vt_of a l = vt_of b l) /\
  length (e_vars a) = length (e_vars b) /\ length (e_quad a) = length (e_quad b) /\
  e_off a = e_off b /\
  (forall l, lin_of a l = lin_of b l) /\
  (forall v u, In v (labels a) -> adj_of a v u = adj_of b v u).

(* executable version of the specification, used by the correspondence check *)
Definition same_model_b (n : nat) (a b : emdl) : bool :=
  forallb (fun l => ovt_eqb (vt_of a l) (vt_of b l)) (seq 0 n)
  && shape_eqb a b && Qc_eqb (e_off a) (e_off b)
  && forallb (fun l => option_eqb Qc_eqb (lin_of a l) (lin_of b l)) (seq 0 n)
  && forallb (fun v => forallb (fun u => option_eqb Qc_eqb (adj_of a v u) (adj_of b v u)) (seq 0 n)) (seq 0 n).

Definition same_constr_b (n : nat) (x y : option constr) : bool :=
  match x, y with
  | None, None => true
  | Some c0, Some c1 => sense_eqb (k_sense c0) (k_sense c1) && same_model_b n (k_lhs c0) (k_lhs c1)
                        && Qc_eqb (k_rhs c0) (k_rhs c1)
  | _, _ => false
  end.

(* constraint labels are numbered 0..k-1 by the harness *)
Definition same_cqm_b (n k : nat) (c d : cqm) : bool :=
  same_model_b n (q_obj c) (q_obj d)
  && forallb (fun l => same_constr_b n (assoc (q_cons c) l) (assoc (q_cons d) l)) (seq 0 k).

(* ---------- is_almost_equal ---------- *)
(* Python's round(x, places) on the exact value x: rint(x * 10^places) / 10^places with ties to
   even.  Only "rounds to zero" matters (`not round(a - b, places)`; -0.0 is falsy as well):
   that is |x| * 10^places < 1/2, or = 1/2 exactly (the tie goes to the even neighbour 0).
   Outside the model: the float subtraction a - b and, for numpy scalars, the float product
   x * 10^places (np.round multiplies, rints and divides); both are exact on the dyadic data the
   harness generates.  CPython's float round is correctly rounded on the exact binary value. *)
Fixpoint pow10 (p : nat) : Qc := match p with O => 1 | S k => qc 10 1 * pow10 k end.
Definition rz (places : nat) (d : Qc) : bool :=
  Qle_bool ((d * pow10 places)%Qc) half && Qle_bool ((- d * pow10 places)%Qc) half.   (* |d| * 10^places <= 1/2 *)
Definition almost_eqb (places : nat) (x y : Qc) : bool := rz places (x - y).

Definition almost_model_b (places n : nat) (a b : emdl) : bool :=
  forallb (fun l => ovt_eqb (vt_of a l) (vt_of b l)) (seq 0 n)
  && shape_eqb a b && almost_eqb places (e_off a) (e_off b)
  && forallb (fun l => option_eqb (almost_eqb places) (lin_of a l) (lin_of b l)) (seq 0 n)
  && forallb (fun v => forallb (fun u => option_eqb (almost_eqb places) (adj_of a v u) (adj_of b v u)) (seq 0 n)) (seq 0 n).

(* code shape of is_almost_equal (BQM as repaired, QM, views): number shortcut; vartype test as
   in is_equal; shape; offset; other.get_linear(v) for v in self.variables (ValueError for a
   missing label); other.get_quadratic(u, v) for every interaction of self (ValueError when the
   other model has no such interaction); except (AttributeError, ValueError): False *)
Definition almost_body (p : nat) (a b : emdl) : out :=
  and_out (vartype_eq a b)
    (and_out (Val (shape_eqb a b))
       (and_out (Val (almost_eqb p (e_off a) (e_off b)))
          (and_out
             (all_out (map (fun v => match lin_of b v with
                                     | None => Raise ValErr
                                     | Some y => match lin_of a v with
                                                 | Some x => Val (almost_eqb p x y)
                                                 | None => Raise ValErr
                                                 end
                                     end) (labels a)))
             (all_out (map (fun t => match adj_of b (fst (fst t)) (snd (fst t)) with
                                     | None => Raise ValErr
                                     | Some y => Val (almost_eqb p (snd t) y)
                                     end) (e_quad a)))))).

(* one list serves all classes: Proofs/EqualCatchesFacts.v proves the three generated lists equal *)
Definition almost_catches : list exn := gen_catches_is_almost_equal_qm.

Definition is_almost_equal_code (p : nat) (a : emdl) (o : obj) : out :=
  match o with
  | ONumber q => Val (match e_vars a with [] => true | _ => false end && almost_eqb p (e_off a) q)
  | OModel b => handle almost_catches (almost_body p a b)
  | OCqm c => handle almost_catches (body_vs_cqm a c)
  | OOther => handle almost_catches (Raise AttrErr)
  end.

Definition constraint_almost (p : nat) (c0 c1 : constr) : out :=
  and_out (Val (sense_eqb (k_sense c0) (k_sense c1)))
    (and_out (is_almost_equal_code p (k_lhs c0) (OModel (k_lhs c1)))
             (Val (almost_eqb p (k_rhs c0) (k_rhs c1)))).

Definition cqm_is_almost_equal_code (p : nat) (c : cqm) (o : obj) : out :=
  match o with
  | OCqm d =>
      and_out (is_almost_equal_code p (q_obj c) (OModel (q_obj d)))
        (and_out (Val (keys_eqb (q_cons c) (q_cons d)))
           (all_out (map (fun lc => match assoc (q_cons d) (fst lc) with
                                    | Some c1 => constraint_almost p (snd lc) c1
                                    | None => Raise KeyErr
                                    end) (q_cons c))))
  | _ => Val false
  end.

(* well-formed observation of a real model: labels are distinct, an unordered pair of variables
   has at most one interaction, interactions join variables of the model *)
Definition npair (t : qterm) : label * label :=
  (Nat.min (fst (fst t)) (snd (fst t)), Nat.max (fst (fst t)) (snd (fst t))).

Definition wf (m : emdl) : Prop :=
  NoDup (labels m) /\ NoDup (map npair (e_quad m)) /\
  (forall t, In t (e_quad m) -> In (fst (fst t)) (labels m) /\ In (snd (fst t)) (labels m)).

Fixpoint nodup_b {A} (eqb : A -> A -> bool) (l : list A) : bool :=
  match l with [] => true | x :: xs => negb (existsb (eqb x) xs) && nodup_b eqb xs end.

Definition wf_b (m : emdl) : bool :=
  nodup_b Nat.eqb (labels m)
  && nodup_b (fun x y => (fst x =? fst y)%nat && (snd x =? snd y)%nat) (map npair (e_quad m))
  && forallb (fun t => mem (fst (fst t)) (labels m) && mem (snd (fst t)) (labels m)) (e_quad m).

Definition rel_opt (R : Qc -> Qc -> bool) (x y : option Qc) : Prop :=
  match x, y with
  | None, None => True
  | Some a, Some b => R a b = true
  | _, _ => False
  end.

Definition almost_same_model (p : nat) (a b : emdl) : Prop :=
  (forall l, vt_of a l = vt_of b l) /\
  length (e_vars a) = length (e_vars b) /\ length (e_quad a) = length (e_quad b) /\
  almost_eqb p (e_off a) (e_off b) = true /\
  (forall l, rel_opt (almost_eqb p) (lin_of a l) (lin_of b l)) /\
  (forall v u, In v (labels a) -> rel_opt (almost_eqb p) (adj_of a v u) (adj_of b v u)).
