(* binary/vartypeview.py, class VartypeView: every method of the live .spin/.binary view that is not
   one of the two translated writes of Model/View.v (add_linear / add_quadratic).

   The base model (`self.data`) is a plain polynomial `Poly.poly` (a BQM: no term (v, v, b) in p_quad);
   the direction `vdir` says what the VIEW shows relative to the base:
     BinOverSpin : view is BINARY, base is SPIN   (the `if self._vartype is BINARY` branches)
     SpinOverBin : view is SPIN,  base is BINARY  (the `else` branches)
   All factors come from Gen/Gen_ViewReads.v (translators/view_reads.py regenerates it from the source on
   every run and checks that set_linear, set_quadratic, the offset setter, remove_interaction,
   remove_variable, add_variable, energies, __copy__ have exactly the statement sequences mirrored here).
   No proofs in this file. *)
From Coq Require Import List ZArith QArith Qcanon Qround Bool Arith.
From Dimod Require Import Base.Util Model.Poly.
From Dimod Require Export Model.View Gen.Gen_ViewReads.
Import ListNotations.
Open Scope Qc_scope.

(* ---------- the base reads the view uses ---------- *)

(* data.reduce_neighborhood(v, add, 0): sum of the biases of the interactions of v *)
Definition reduce_neighborhood (base : poly) (v : label) : Qc :=
  qsum (map snd (filter (mentions v) (p_quad base))).

(* the other end of an interaction of v *)
Definition other_end (v : label) (t : qterm) : label :=
  if (fst (fst t) =? v)%nat then snd (fst t) else fst (fst t).

(* data.iter_neighborhood(v): (neighbour, bias) *)
Definition base_neighborhood (base : poly) (v : label) : list lterm :=
  map (fun t => (other_end v t, snd t)) (filter (mentions v) (p_quad base)).

Definition no_self_loopb (base : poly) : bool :=
  forallb (fun t => negb (fst (fst t) =? snd (fst t))%nat) (p_quad base).

(* ---------- reads through the view ---------- *)

(*  def get_linear(self, v):
        if self._vartype is BINARY:  # binary <- spin
            return (2 * self.data.get_linear(v) - 2 * self.data.reduce_neighborhood(v, add, 0))
        else:  # spin <- binary
            return (self.data.get_linear(v) / 2 + self.data.reduce_neighborhood(v, add, 0) / 4)      *)
Definition view_get_linear (d : vdir) (base : poly) (v : label) : Qc :=
  let '(kl, kn) := gen_get_linear d in
  kl * lin_coeff (p_lin base) v + kn * reduce_neighborhood base v.

(*  def get_quadratic(self, u, v, default=None):
        if u == v: raise ValueError
        try:
            if self._vartype is BINARY: return 4 * self.data.get_quadratic(u, v)
            else:                       return self.data.get_quadratic(u, v) / 4
        except ValueError as err:       (no interaction)  raise / return default
    None = the ValueError *)
Definition view_get_quadratic (d : vdir) (base : poly) (u v : label) : option Qc :=
  if (u =? v)%nat then None
  else if has_pair (p_quad base) u v then Some (gen_get_quadratic d * quad_coeff (p_quad base) u v)
  else None.

(*  for u, bias in self.data.iter_neighborhood(v): yield u, 4 * bias      /     yield u, bias / 4 *)
Definition view_iter_neighborhood (d : vdir) (base : poly) (v : label) : list lterm :=
  map (fun t => (fst t, gen_iter_neighborhood d * snd t)) (base_neighborhood base v).

(*  for u, v, bias in self.data.iter_quadratic(): yield u, v, 4 * bias    /     yield u, v, bias / 4 *)
Definition view_iter_quadratic (d : vdir) (base : poly) : list qterm :=
  map (fun t => (fst t, gen_iter_quadratic d * snd t)) (p_quad base).

(*  @property offset:
        binary <- spin:  self.data.offset - self.data.reduce_linear(add, 0) + self.data.reduce_quadratic(add, 0)
        spin <- binary:  self.data.offset + self.data.reduce_linear(add, 0) / 2 + self.data.reduce_quadratic(add, 0) / 4 *)
Definition view_offset_gen (d : vdir) (base : poly) : Qc :=
  let '(ko, kl, kq) := gen_offset d in
  ko * p_off base + kl * sum_lin base + kq * sum_quad base.

(*  reduce_neighborhood / reduce_linear / reduce_quadratic of the VIEW with (add, 0):
        functools.reduce(add, (b for _, b in self.iter_neighborhood(v)), 0)       etc. *)
Definition view_reduce_neighborhood (d : vdir) (base : poly) (v : label) : Qc :=
  qsum (map snd (view_iter_neighborhood d base v)).
Definition view_reduce_quadratic (d : vdir) (base : poly) : Qc :=
  qsum (map snd (view_iter_quadratic d base)).
(* `vars` = self.variables = self.data.variables *)
Definition view_reduce_linear (d : vdir) (vars : list label) (base : poly) : Qc :=
  qsum (map (view_get_linear d base) vars).

(* ---------- the polynomial the view REPORTS ---------- *)

(* term-wise form: the offset getter, iter_quadratic, and a bag of linear terms whose coefficient at v is
   get_linear(v) whenever the base has no self-loop term (Proofs/ViewOpsFacts.v: view_poly_lin_coeff):
   every base linear term scaled by the get_linear factor, plus for every base interaction (u, v, b) the
   reduce_neighborhood factor times b on both ends *)
Definition view_lin_terms (d : vdir) (base : poly) : list lterm :=
  let '(kl, kn) := gen_get_linear d in
  map (fun t => (fst t, kl * snd t)) (p_lin base)
  ++ flat_map (fun t => [(fst (fst t), kn * snd t); (snd (fst t), kn * snd t)]) (p_quad base).

Definition view_poly (d : vdir) (base : poly) : poly :=
  mkPoly (view_offset_gen d base) (view_lin_terms d base) (view_iter_quadratic d base).

(* literal form: `{v: view.get_linear(v) for v in view.variables}` *)
Definition view_poly_vars (d : vdir) (vars : list label) (base : poly) : poly :=
  mkPoly (view_offset_gen d base) (map (fun v => (v, view_get_linear d base v)) vars)
         (view_iter_quadratic d base).

(* value of the BASE variable when the view's variable has value y (inverse of View.view_value) *)
Definition base_value (d : vdir) (y : Qc) : Qc :=
  match d with BinOverSpin => two * y - 1 | SpinOverBin => (y + 1) * half end.

(* ---------- writes through the view, composed exactly as the code composes them ---------- *)

(* self.data.add_variable(v): the variable exists afterwards (with bias 0 if it is new); on a polynomial
   this is a zero linear term *)
Definition data_add_variable (v : label) (base : poly) : poly := add_linear v 0 base.

(*  def add_variable(self, v=None, bias=0):
        v = self.data.add_variable(v)
        self.add_linear(v, bias)                 *)
Definition view_add_variable (d : vdir) (v : label) (b : Qc) (base : poly) : poly :=
  view_add_linear d v b (data_add_variable v base).

(*  def set_linear(self, v, bias):
        self.add_linear(v, 0)  # make sure it exists
        self.add_linear(v, bias - self.get_linear(v))  # just add the delta      *)
Definition view_set_linear (d : vdir) (v : label) (b : Qc) (base : poly) : poly :=
  let p1 := view_add_linear d v 0 base in
  view_add_linear d v (b - view_get_linear d p1 v) p1.

(*  def set_quadratic(self, u, v, bias):
        self.add_variable(u)
        self.add_variable(v)
        self.add_quadratic(u, v, 0)  # make sure it exists
        self.add_quadratic(u, v, bias - self.get_quadratic(u, v))
    (get_quadratic raises only when u == v; the model then leaves the first three steps in place) *)
Definition view_set_quadratic (d : vdir) (u v : label) (b : Qc) (base : poly) : poly :=
  let p1 := view_add_variable d u 0 base in
  let p2 := view_add_variable d v 0 p1 in
  let p3 := view_add_quadratic d u v 0 p2 in
  match view_get_quadratic d p3 u v with
  | Some q => view_add_quadratic d u v (b - q) p3
  | None => p3
  end.

(*  @offset.setter:   self.data.offset += bias - self.offset  # use the difference   (both directions) *)
Definition view_set_offset (d : vdir) (b : Qc) (base : poly) : poly :=
  add_offset (b - view_offset_gen d base) base.

(*  def remove_interaction(self, u, v):
        self.get_quadratic(u, v)  # raise an error if it doesn't exist
        self.set_quadratic(u, v, 0)  # zero it out in the appropriate vartype
        self.data.remove_interaction(u, v)
    None = the ValueError of get_quadratic *)
Definition view_remove_interaction (d : vdir) (u v : label) (base : poly) : option poly :=
  match view_get_quadratic d base u v with
  | None => None
  | Some _ => Some (remove_interaction u v (view_set_quadratic d u v 0 base))
  end.

(*  def remove_variable(self, v):
        for u, _ in self.iter_neighborhood(v):
            self.set_quadratic(u, v, 0)
        self.set_linear(v, 0)
        return self.data.remove_variable(v)
    (the neighbours are those of the base; set_quadratic on an existing interaction changes no structure) *)
Definition view_zero_neighborhood (d : vdir) (v : label) (us : list label) (base : poly) : poly :=
  fold_left (fun p u => view_set_quadratic d u v 0 p) us base.

Definition view_zero_variable (d : vdir) (v : label) (base : poly) : poly :=
  view_set_linear d v 0
    (view_zero_neighborhood d v (map fst (view_iter_neighborhood d base v)) base).

Definition view_remove_variable (d : vdir) (v : label) (base : poly) : poly :=
  remove_variable v (view_zero_variable d v base).

(* ---------- energies ---------- *)

(* numpy floor division of the sample array by a constant *)
Definition floor_div (y k : Qc) : Qc := Q2Qc (inject_Z (Qfloor (y * / k))).

Definition apply_step (x : Qc) (s : sample_step) : Qc :=
  match s with
  | SMul k => x * k
  | SAdd k => x + k
  | SFloorDiv k => floor_div x k
  end.

(*  if self._vartype is BINARY:  samples *= 2 ; samples -= 1
    else:                        samples += 1 ; samples //= 2          *)
Definition view_sample_value (d : vdir) (x : Qc) : Qc :=
  fold_left apply_step (gen_energies_steps d) x.

(*  return self.data.energies((samples, labels), dtype=dtype) *)
Definition view_energy (d : vdir) (base : poly) (y : sample) : Qc :=
  energy base (fun v => view_sample_value d (y v)).

(* ---------- __copy__ ---------- *)

(*  new = copy.copy(self.data) ; new.change_vartype(self._vartype) ; return new
    change_vartype of a whole model = the affine substitution of every variable (vars = all labels) *)
Definition view_copy (d : vdir) (vars : list label) (base : poly) : poly :=
  match d with
  | BinOverSpin => substitute_many vars two (- (1)) base      (* spin base -> binary copy: s = 2x - 1 *)
  | SpinOverBin => substitute_many vars half half base        (* binary base -> spin copy: x = (s+1)/2 *)
  end.

(* the way back (what change_vartype to the base's vartype would do) *)
Definition view_copy_back (d : vdir) (vars : list label) (p : poly) : poly :=
  match d with
  | BinOverSpin => substitute_many vars half half p
  | SpinOverBin => substitute_many vars two (- (1)) p
  end.
