(* C12 - token level: the file lp.dump writes, as a sequence of tokens, and a reference
   parser for exactly that grammar (sections Minimize / Subject To / Bounds / Binary /
   General / End, the `obj:` and `label:` prefixes, signed coefficients, the quadratic blocks
   `+ [ ... ]/2` (objective) and `+ [ ... ]` (constraints), `lb <= x <= ub` bound lines).
   Labels are abstract (nat); numerals are rationals: the character-level lexing of names and
   decimal numerals is NOT modelled (the worker classifies the whitespace-separated words of
   the real text into these tokens).  No proofs in this file. *)
From Coq Require Import List ZArith NArith QArith Qcanon Bool Arith.
From Dimod Require Import Base.Util Model.Poly Model.LP.
Import ListNotations.
Open Scope Qc_scope.

Inductive token :=
| TMinimize | TObj                 (* "Minimize"  "obj:" *)
| TSubjectTo                       (* "Subject" "To" *)
| TBounds | TBinary | TGeneral | TEnd
| TLabel (l : nat)                 (* "label:" of a constraint *)
| TSign (neg : bool)               (* "+" / "-" in front of a term *)
| TNum (q : Qc)                    (* a numeral (signed for right-hand sides and bounds) *)
| TName (v : nat)                  (* a variable *)
| TStar                            (* "*" *)
| TLBr | TRBr | TRBrHalf           (* "["  "]"  "]/2" *)
| TSense (s : sense)               (* "<=" ">=" "=" after a constraint body *)
| TLe.                             (* "<=" inside a bound line *)

(* the content of the file *)
Record lpmodel := mkLpModel {
  m_obj : lp_obj;
  m_cons : list (nat * lp_con);
  m_bounds : list (nat * Qc * Qc);          (* v, lower, upper : " lb <= v <= ub" *)
  m_binary : list nat;
  m_general : list nat
}.

Definition Qc_neg (b : Qc) : bool := negb (Qle_bool 0 b).
Definition Qc_abs (b : Qc) : Qc := if Qc_neg b then - b else b.
Definition signed (neg : bool) (a : Qc) : Qc := if neg then - a else a.

(* ---------- printer (dump) ---------- *)

Definition print_lterm (t : lterm) : list token :=
  [TSign (Qc_neg (snd t)); TNum (Qc_abs (snd t)); TName (fst t)].

Definition print_qterm (t : qterm) : list token :=
  [TSign (Qc_neg (snd t)); TNum (Qc_abs (snd t)); TName (fst (fst t)); TStar; TName (snd (fst t))].

Definition print_block (close : token) (q : list qterm) : list token :=
  match q with
  | [] => []
  | _ => [TSign false; TLBr] ++ flat_map print_qterm q ++ [close]
  end.

Definition print_const (c : Qc) : list token :=
  if Qc_eqb c 0 then [] else [TSign (Qc_neg c); TNum (Qc_abs c)].

Definition obj_empty (o : lp_obj) : bool :=
  match lo_lin o, lo_quad2 o with
  | [], [] => Qc_eqb (lo_const o) 0
  | _, _ => false
  end.

Definition print_objective (o : lp_obj) : list token :=
  if obj_empty o then []
  else [TMinimize; TObj] ++ flat_map print_lterm (lo_lin o)
       ++ print_block TRBrHalf (lo_quad2 o) ++ print_const (lo_const o).

Definition print_constraint (lc : nat * lp_con) : list token :=
  let c := snd lc in
  [TLabel (fst lc)] ++ flat_map print_lterm (lc_lin c) ++ print_block TRBr (lc_quad c)
  ++ [TSense (lc_sense c); TNum (lc_rhs c)].

Definition print_bound (b : nat * Qc * Qc) : list token :=
  let '(v, lo, hi) := b in [TNum lo; TLe; TName v; TLe; TNum hi].

Definition print_cqm (m : lpmodel) : list token :=
  print_objective (m_obj m)
  ++ [TSubjectTo] ++ flat_map print_constraint (m_cons m)
  ++ [TBounds] ++ flat_map print_bound (m_bounds m)
  ++ [TBinary] ++ map TName (m_binary m)
  ++ [TGeneral] ++ map TName (m_general m)
  ++ [TEnd].

(* ---------- reference parser ---------- *)

(* [ sign num name ]* ; stops at the first position that is not such a triple *)
Fixpoint parse_lterms (ts : list token) : list lterm * list token :=
  match ts with
  | TSign s :: TNum a :: TName v :: rest =>
      let (l, r) := parse_lterms rest in ((v, signed s a) :: l, r)
  | _ => ([], ts)
  end.

(* [ sign num name * name ]* *)
Fixpoint parse_qterms (ts : list token) : list qterm * list token :=
  match ts with
  | TSign s :: TNum a :: TName u :: TStar :: TName v :: rest =>
      let (l, r) := parse_qterms rest in ((u, v, signed s a) :: l, r)
  | _ => ([], ts)
  end.

(* an optional block "+ [ qterms close" ; a present block must be non-empty and closed *)
Definition parse_block (close : token -> bool) (ts : list token) : option (list qterm * list token) :=
  match ts with
  | TSign false :: TLBr :: rest =>
      match parse_qterms rest with
      | (t :: q, c :: r) => if close c then Some (t :: q, r) else None
      | _ => None
      end
  | _ => Some ([], ts)
  end.

Definition is_rbr (t : token) : bool := match t with TRBr => true | _ => false end.
Definition is_rbrhalf (t : token) : bool := match t with TRBrHalf => true | _ => false end.

Definition parse_const (ts : list token) : Qc * list token :=
  match ts with
  | TSign s :: TNum a :: rest => (signed s a, rest)
  | _ => (0, ts)
  end.

Definition parse_objective (ts : list token) : option (lp_obj * list token) :=
  match ts with
  | TMinimize :: TObj :: rest =>
      let (lin, r1) := parse_lterms rest in
      match parse_block is_rbrhalf r1 with
      | Some (q, r2) => let (c, r3) := parse_const r2 in Some (mkLpObj lin q c, r3)
      | None => None
      end
  | _ => Some (mkLpObj [] [] 0, ts)
  end.

(* "label: lterms [block] sense rhs" ; fuel = an upper bound on the number of constraints *)
Fixpoint parse_constraints (fuel : nat) (ts : list token) : option (list (nat * lp_con) * list token) :=
  match fuel with
  | O => None
  | S f =>
      match ts with
      | TLabel l :: rest =>
          let (lin, r1) := parse_lterms rest in
          match parse_block is_rbr r1 with
          | Some (q, TSense s :: TNum rhs :: r2) =>
              match parse_constraints f r2 with
              | Some (cs, r3) => Some ((l, mkLpCon lin q s rhs) :: cs, r3)
              | None => None
              end
          | _ => None
          end
      | _ => Some ([], ts)
      end
  end.

Fixpoint parse_bounds (ts : list token) : list (nat * Qc * Qc) * list token :=
  match ts with
  | TNum lo :: TLe :: TName v :: TLe :: TNum hi :: rest =>
      let (l, r) := parse_bounds rest in ((v, lo, hi) :: l, r)
  | _ => ([], ts)
  end.

Fixpoint parse_names (ts : list token) : list nat * list token :=
  match ts with
  | TName v :: rest => let (l, r) := parse_names rest in (v :: l, r)
  | _ => ([], ts)
  end.

Definition parse_tokens (ts : list token) : option lpmodel :=
  match parse_objective ts with
  | Some (o, TSubjectTo :: r1) =>
      match parse_constraints (S (length r1)) r1 with
      | Some (cs, TBounds :: r2) =>
          let (bs, r3) := parse_bounds r2 in
          match r3 with
          | TBinary :: r4 =>
              let (bin, r5) := parse_names r4 in
              match r5 with
              | TGeneral :: r6 =>
                  let (gen, r7) := parse_names r6 in
                  match r7 with
                  | [TEnd] => Some (mkLpModel o cs bs bin gen)
                  | _ => None
                  end
              | _ => None
              end
          | _ => None
          end
      | _ => None
      end
  | _ => None
  end.

(* ---------- the CQM behind the file ---------- *)

(* a constrained model as dump sees it: expressions over labels, variables with vartype/bounds *)
Record varinfo := mkVar { vi_label : nat; vi_type : vartype; vi_lb : Qc; vi_ub : Qc }.
Record cqm := mkCqm { q_obj : poly; q_cons : list (nat * constr); q_vars : list varinfo }.

Definition is_vt (t : vartype) (v : varinfo) : bool := vartype_eqb (vi_type v) t.

(* dump: bounds lines for INTEGER and REAL variables, names in Binary / General *)
Definition lpmodel_of_cqm (c : cqm) : lpmodel :=
  mkLpModel (write_objective (q_obj c))
            (map (fun lc => (fst lc, write_constraint (snd lc))) (q_cons c))
            (map (fun v => (vi_label v, vi_lb v, vi_ub v))
                 (filter (fun v => is_vt INTEGER v || is_vt REAL v) (q_vars c)))
            (map vi_label (filter (is_vt BINARY) (q_vars c)))
            (map vi_label (filter (is_vt INTEGER) (q_vars c))).

(* reader side (cylp.pyx model_to_cqm): type from the sections, bounds from the bound lines
   clamped into the vartype's range; LP default bounds are [0, +inf) *)
(* the double nearest to 1e30, the limit of REAL bounds (vartypes.h) *)
Definition big_real : Qc := Q2Qc (inject_Z 1000000000000000019884624838656).
Definition big_int : Qc := Q2Qc (inject_Z (2 ^ 53 - 1)).

Definition mem_nat (v : nat) (l : list nat) : bool := existsb (Nat.eqb v) l.

Definition type_of (m : lpmodel) (v : nat) : vartype :=
  if mem_nat v (m_binary m) then BINARY else if mem_nat v (m_general m) then INTEGER else REAL.

Definition find_bound (m : lpmodel) (v : nat) : option (Qc * Qc) :=
  match find (fun b => Nat.eqb (fst (fst b)) v) (m_bounds m) with
  | Some (_, lo, hi) => Some (lo, hi)
  | None => None
  end.

Definition clampq (lo hi x : Qc) : Qc :=
  if Qle_bool x lo then lo else if Qle_bool hi x then hi else x.

Definition bounds_of (m : lpmodel) (v : nat) : Qc * Qc :=
  match type_of m v with
  | BINARY => (0, 1)
  | SPIN => (- (1), 1)
  | INTEGER =>
      match find_bound m v with
      | Some (lo, hi) => (clampq (- big_int) big_int lo, clampq (- big_int) big_int hi)
      | None => (0, big_int)
      end
  | REAL =>
      match find_bound m v with
      | Some (lo, hi) => (clampq (- big_real) big_real lo, clampq (- big_real) big_real hi)
      | None => (0, big_real)
      end
  end.

Definition read_varinfo (m : lpmodel) (v : nat) : varinfo :=
  mkVar v (type_of m v) (fst (bounds_of m v)) (snd (bounds_of m v)).

(* the variables in the order the reader meets them is not modelled: the caller supplies the labels *)
Definition cqm_of_lpmodel (labels : list nat) (m : lpmodel) : cqm :=
  mkCqm (read_objective (m_obj m))
        (map (fun lc => (fst lc, read_constraint (snd lc))) (m_cons m))
        (map (read_varinfo m) labels).

(* names mentioned anywhere in the file *)
Definition lterm_names (l : list lterm) : list nat := map fst l.
Definition qterm_names (q : list qterm) : list nat := flat_map (fun t => [fst (fst t); snd (fst t)]) q.
Definition model_names (m : lpmodel) : list nat :=
  lterm_names (lo_lin (m_obj m)) ++ qterm_names (lo_quad2 (m_obj m))
  ++ flat_map (fun lc => lterm_names (lc_lin (snd lc)) ++ qterm_names (lc_quad (snd lc))) (m_cons m)
  ++ map (fun b => fst (fst b)) (m_bounds m) ++ m_binary m ++ m_general m.

(* in-range bounds, as the CQM guarantees them *)
Definition var_wf (v : varinfo) : Prop :=
  match vi_type v with
  | BINARY => vi_lb v = 0 /\ vi_ub v = 1
  | SPIN => False
  | INTEGER => - big_int <= vi_lb v /\ vi_lb v <= big_int /\ - big_int <= vi_ub v /\ vi_ub v <= big_int
  | REAL => - big_real <= vi_lb v /\ vi_lb v <= big_real /\ - big_real <= vi_ub v /\ vi_ub v <= big_real
  end.

(* ---------- text ---------- *)

(* each token written as its word followed by a blank *)
Definition writes_of (render : token -> text) (ts : list token) : list text :=
  map (fun t => render t ++ [SP]) ts.

Fixpoint lex_all (lex : text -> option token) (ws : list text) : option (list token) :=
  match ws with
  | [] => Some []
  | w :: r => match lex w, lex_all lex r with
              | Some t, Some ts => Some (t :: ts)
              | _, _ => None
              end
  end.

Definition parse_text (lex : text -> option token) (s : text) : option lpmodel :=
  match lex_all lex (tokens s) with
  | Some ts => parse_tokens ts
  | None => None
  end.

Definition no_blank (s : text) : Prop := s <> [] /\ Forall (fun c => is_blank c = false) s.
