(* C12 - the LP writer/reader conventions of dimod/lp.py and dimod/cylp.pyx, executable,
   no proofs here.
   - term transformation: objective quadratic terms are written doubled inside `[ ... ]/2`
     and read back with factor 1/2 (copy_expression); zero linear terms are not written;
     a constraint's offset moves to the right-hand side; the objective's stays a constant
   - _WidthLimitedFile.write as a function from the sequence of writes to the text
   - _validate_label and the refusal conditions of dump
   Characters are Unicode code points (N): Python's len() counts code points.
   The C++ tokenizer/parser (extern/filereaderlp) is not modelled. *)
From Coq Require Import List ZArith NArith QArith Qcanon Bool Arith.
From Dimod Require Import Base.Util Model.Poly Gen.Gen_LP.
Import ListNotations.
Open Scope Qc_scope.

(* ------------------------------------------------------------------ *)
(* terms *)

Inductive sense := Le | Ge | Eq.

Definition sense_eqb (a b : sense) : bool :=
  match a, b with Le, Le | Ge, Ge | Eq, Eq => true | _, _ => false end.

Definition nonzero_term (t : lterm) : bool := negb (Qc_eqb (snd t) 0).

(* what is written for the objective: linear terms, the content of `[ ]/2`, the constant *)
Record lp_obj := mkLpObj { lo_lin : list lterm; lo_quad2 : list qterm; lo_const : Qc }.

Definition write_objective (p : poly) : lp_obj :=
  mkLpObj (filter nonzero_term (p_lin p))
          (map (fun t => (fst t, two * snd t)) (p_quad p))
          (p_off p).

(* copy_expression(is_objective = true): quadratic coefficients times 0.5 *)
Definition read_objective (o : lp_obj) : poly :=
  mkPoly (lo_const o) (lo_lin o) (map (fun t => (fst t, half * snd t)) (lo_quad2 o)).

Record constr := mkConstr { c_lhs : poly; c_sense : sense; c_rhs : Qc }.

(* what is written for a constraint: linear terms, the content of `[ ]`, sense, rhs - offset *)
Record lp_con := mkLpCon { lc_lin : list lterm; lc_quad : list qterm; lc_sense : sense; lc_rhs : Qc }.

Definition write_constraint (c : constr) : lp_con :=
  mkLpCon (filter nonzero_term (p_lin (c_lhs c))) (p_quad (c_lhs c)) (c_sense c)
          (c_rhs c - p_off (c_lhs c)).

Definition read_constraint (l : lp_con) : constr :=
  mkConstr (mkPoly 0 (lc_lin l) (lc_quad l)) (lc_sense l) (lc_rhs l).

Definition holds (c : constr) (s : sample) : Prop :=
  match c_sense c with
  | Le => energy (c_lhs c) s <= c_rhs c
  | Ge => c_rhs c <= energy (c_lhs c) s
  | Eq => energy (c_lhs c) s = c_rhs c
  end.

(* MAX objectives are negated by the reader (never produced by the writer) *)
Definition read_objective_max (o : lp_obj) : poly := scale (- (1)) (read_objective o).

(* bounds: the reader clamps into the vartype's representable range *)
Definition clamp (lo hi x : Qc) : Qc := if Qle_bool x lo then lo else if Qle_bool hi x then hi else x.

(* ------------------------------------------------------------------ *)
(* text: _WidthLimitedFile *)

Definition char := N.
Definition text := list char.
Definition NL : char := 10%N.
Definition SP : char := 32%N.
Definition is_blank (c : char) : bool := N.eqb c NL || N.eqb c SP.
(* _WidthLimitedFile.TARGET_LINE_LEN, generated from lp.py *)
Definition TARGET : nat := TARGET_LINE_LEN.

(* index of the first newline of s, or len(s) when there is none *)
Fixpoint first_line_len (s : text) : nat :=
  match s with
  | [] => O
  | c :: r => if N.eqb c NL then O else S (first_line_len r)
  end.

(* len(s) - 1 - index of the last newline, when there is a newline *)
Fixpoint after_last_nl (s : text) : option nat :=
  match s with
  | [] => None
  | c :: r => match after_last_nl r with
              | Some k => Some k
              | None => if N.eqb c NL then Some (length r) else None
              end
  end.

(* the pieces handed to the underlying file: (was a break NL SP emitted first?, s) *)
Fixpoint wrap_pieces (line_len : nat) (ws : list text) : list (bool * text) :=
  match ws with
  | [] => []
  | s :: r =>
      let brk := Nat.ltb (TARGET - 1) (line_len + first_line_len s) in
      let ll := if brk then 1%nat else line_len in
      let ll' := match after_last_nl s with
                 | Some k => k
                 | None => (ll + length s)%nat
                 end in
      (brk, s) :: wrap_pieces ll' r
  end.

Definition piece_text (p : bool * text) : text := (if fst p then [NL; SP] else []) ++ snd p.

Definition wrap_from (line_len : nat) (ws : list text) : text := flat_map piece_text (wrap_pieces line_len ws).
Definition wrap (ws : list text) : text := wrap_from 0 ws.

(* whitespace-separated tokens *)
Fixpoint tok (cur : text) (s : text) : list text :=
  match s with
  | [] => match cur with [] => [] | _ => [rev cur] end
  | c :: r =>
      if is_blank c then
        match cur with [] => tok [] r | _ => rev cur :: tok [] r end
      else tok (c :: cur) r
  end.
Definition tokens (s : text) : list text := tok [] s.

Definition starts_blank (s : text) : Prop := exists c r, s = c :: r /\ is_blank c = true.
Definition ends_blank (s : text) : Prop := exists r c, s = r ++ [c] /\ is_blank c = true.

(* the discipline of dump's write calls: no write is empty and, of two consecutive writes, the
   first ends with a blank or the second starts with one *)
Fixpoint sealed (ws : list text) : Prop :=
  match ws with
  | [] => True
  | a :: r => a <> [] /\
              match r with [] => True | b :: _ => ends_blank a \/ starts_blank b end /\
              sealed r
  end.

Definition starts_blankb (s : text) : bool := match s with c :: _ => is_blank c | [] => false end.
Definition ends_blankb (s : text) : bool := starts_blankb (rev s).
Fixpoint sealedb (ws : list text) : bool :=
  match ws with
  | [] => true
  | a :: r => negb (match a with [] => true | _ => false end)
              && match r with [] => true | b :: _ => ends_blankb a || starts_blankb b end
              && sealedb r
  end.

(* lines of a text *)
Fixpoint lines_from (cur : text) (s : text) : list text :=
  match s with
  | [] => [rev cur]
  | c :: r => if N.eqb c NL then rev cur :: lines_from [] r else lines_from (c :: cur) r
  end.
Definition lines (s : text) : list text := lines_from [] s.

(* ------------------------------------------------------------------ *)
(* labels *)

(* LABEL_VALID_CHARS and LABEL_INVALID_FIRST_CHARS are generated from lp.py (Gen/Gen_LP.v) *)
Definition valid_char (c : char) : bool := existsb (N.eqb c) LABEL_VALID_CHARS.
Definition invalid_first (c : char) : bool := existsb (N.eqb c) LABEL_INVALID_FIRST_CHARS.

(* a label as dump sees it: None for a non-string label *)
Definition validate_label (l : option text) : bool :=
  match l with
  | None => false
  | Some s =>
      match s with
      | [] => false
      | c :: _ => Nat.leb (length s) LABEL_MAX_LEN && forallb valid_char s && negb (invalid_first c)
      end
  end.

(* the grammar as a specification *)
Definition lp_name (l : option text) : Prop :=
  exists c r, l = Some (c :: r) /\ (length (c :: r) <= LABEL_MAX_LEN)%nat /\
              Forall (fun x => valid_char x = true) (c :: r) /\ invalid_first c = false.

Record cqm_shape := mkShape {
  sh_soft : nat;                                   (* number of soft constraints *)
  sh_cons : list (option text);                    (* constraint labels *)
  sh_vars : list (option text * vartype)           (* variable labels and vartypes *)
}.

Definition dump_ok (m : cqm_shape) : bool :=
  Nat.eqb (sh_soft m) 0
  && forallb validate_label (sh_cons m)
  && forallb (fun v => validate_label (fst v) && negb (vartype_eqb (snd v) SPIN)) (sh_vars m).

Definition expressible (m : cqm_shape) : Prop :=
  sh_soft m = 0%nat /\ Forall lp_name (sh_cons m) /\
  Forall (fun v => lp_name (fst v) /\ snd v <> SPIN) (sh_vars m).
