(* C19 correspondence: states are interned bit-for-bit snapshots (equal id <=> equal snapshot).
   The harness reports a history; after every step it dumps ALL live handles.  The expected
   result of a copy-producing call and the expected new state of an edited owner are obtained
   from a detached clone; what every view must show for a given parent state is tabulated from
   detached clones as well.  The check replays the history in the store model and demands that
   every dump equals what the store shows. *)
From Coq Require Import List Arith Bool.
From Dimod Require Import Base.Util Model.Store.
Import ListNotations.

Definition viewtab := list (nat * nat * nat).     (* (kind, parent state, view state) *)
Fixpoint view_lookup (t : viewtab) (w st : nat) : nat :=
  match t with
  | [] => 0
  | (w', p, v) :: r => if (w' =? w) && (p =? st) then v else view_lookup r w st
  end.

Inductive obsop :=
| ONew (st : nat)
| OCopy (src expected : nat)
| OView (parent w : nat)
| OEdit (i expected : nat).

Definition to_op (o : obsop) : op nat :=
  match o with
  | ONew st => New st
  | OCopy src ex => CopyOf src (fun _ => ex)
  | OView p w => MkView p w
  | OEdit i ex => Edit i (fun _ => ex)
  end.

Record case := mkCase { vtab : viewtab; hist : list (obsop * list nat) }.

Definition dump_of (t : viewtab) (s : store nat) : list (option nat) :=
  map (read nat (view_lookup t) s) (seq 0 (length s)).

Fixpoint replay (t : viewtab) (s : store nat) (h : list (obsop * list nat)) : bool :=
  match h with
  | [] => true
  | (o, d) :: r =>
      let s' := step nat (view_lookup t) s (to_op o) in
      list_eqb (option_eqb Nat.eqb) (dump_of t s') (map Some d) && replay t s' r
  end.

Definition check (c : case) : bool := replay (vtab c) [] (hist c).
