(* C19 correspondence: states are interned bit-for-bit snapshots (equal id <=> equal snapshot).
   The harness reports a history; after every step it dumps ALL live handles.  The expected
   result of a copy-producing call and the expected new state of an edited owner are obtained
   from a detached clone; what every view must show for a given parent state is tabulated from
   detached clones as well.  The check replays the history in the store model and demands that
   every dump equals what the store shows. *)
From Coq Require Import List ZArith QArith Qcanon Arith Bool.
From Dimod Require Import Base.Util Model.Poly Model.Samples Model.SSet Model.Store Model.Heap.
Import ListNotations.

Definition viewtab := list (nat * nat * nat).     (* (kind, parent state, view state) *)
Fixpoint view_lookup (t : viewtab) (w st : nat) : nat :=
  match t with
  | [] => 0
  | (w', p, v) :: r => if (w' =? w) && (p =? st) then v else view_lookup r w st
  end.

Inductive obsop :=
| ONew (st : nat)
| OCopy (src expected : nat)
| OView (parent w : nat)
| OEdit (i expected : nat).

Definition to_op (o : obsop) : op nat :=
  match o with
  | ONew st => New st
  | OCopy src ex => CopyOf src (fun _ => ex)
  | OView p w => MkView p w
  | OEdit i ex => Edit i (fun _ => ex)
  end.

(* ---- second reading of the same history: the object-level heap of Model/Heap.v ----
   every step is rendered as a Heap operation with its real parameters (copy-producing calls and
   in-place calls that Heap.v models as functions) or, for calls Heap.v does not model as a function,
   with the result / new state obtained from a detached clone (CGiven / IAny); `hstep` is run and every
   owning handle's observed content is compared with the heap cell it predicts *)
Definition assoc_fn (m : list (nat * nat)) (v : nat) : nat :=
  match find (fun p => (fst p =? v)%nat) m with Some p => snd p | None => v end.

Definition cons_eqb (n : nat) (a b : list (nat * poly)) : bool :=
  list_eqb (fun x y => (fst x =? fst y)%nat && poly_coeff_eqb n (snd x) (snd y)) a b.
Definition obj_eqb (n : nat) (a b : obj) : bool :=
  match a, b with
  | OModel p, OModel q => poly_coeff_eqb n p q
  | OSet s, OSet t => sset_eqb s t
  | OCqm o1 c1, OCqm o2 c2 => poly_coeff_eqb n o1 o2 && cons_eqb n c1 c2
  | OVars l1, OVars l2 => list_eqb Nat.eqb l1 l2
  | OOpaque a, OOpaque b => (a =? b)%nat
  | _, _ => false
  end.

Definition cells_ok (n : nat) (h : heap) (obs : list (nat * obj)) : bool :=
  forallb (fun io => match nth_error h (fst io) with Some x => obj_eqb n (snd io) x | None => false end) obs.

Fixpoint hreplay (K : lkeys) (n : nat) (h : heap) (l : list (list hop * list (nat * obj))) : bool :=
  match l with
  | [] => true
  | (ops, obs) :: r => let h' := hrun K h ops in cells_ok n h' obs && hreplay K n h' r
  end.

Record case := mkCase { vtab : viewtab; hist : list (obsop * list nat);
                        hK : lkeys; hn : nat; hhist : list (list hop * list (nat * obj)) }.

Definition dump_of (t : viewtab) (s : store nat) : list (option nat) :=
  map (read nat (view_lookup t) s) (seq 0 (length s)).

Fixpoint replay (t : viewtab) (s : store nat) (h : list (obsop * list nat)) : bool :=
  match h with
  | [] => true
  | (o, d) :: r =>
      let s' := step nat (view_lookup t) s (to_op o) in
      list_eqb (option_eqb Nat.eqb) (dump_of t s') (map Some d) && replay t s' r
  end.

Definition check (c : case) : bool := replay (vtab c) [] (hist c) && hreplay (hK c) (hn c) [] (hhist c).
