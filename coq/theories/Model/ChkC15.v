(* C15 correspondence: the implementation's own (reduced terms, constraints) are
   replayed through the model; the BQM / CQM built by make_quadratic(_cqm) is
   compared coefficient-wise with the model assembly; rows returned by
   HigherOrderComposite are re-evaluated on the polynomial. *)
From Coq Require Import List ZArith QArith Qcanon Bool Arith.
From Dimod Require Import Base.Util Model.Poly Model.HPoly Model.HPolyPy Model.PolyCtor Model.Reduce.
Import ListNotations.
Open Scope Qc_scope.

Inductive case :=
| CReduce (vt : vartype) (raw items reduced : hpoly) (cons : list cons3)
          (assigns : list (list (label * Qc)))
(* base: the model passed as bqm= (its vartype, its coefficients before the call) *)
| CMq (vt : vartype) (raw items : hpoly) (s : Qc) (cons : list cons4) (n : nat)
      (base : option (vartype * obs)) (bqm : obs)
(* base_obj: objective of the model passed as cqm= *)
| CCqm (vt : vartype) (raw items : hpoly) (cons : list cons3) (n : nat) (base_obj : option obs) (obj : obs)
       (constraints : list (obs * bool * Qc))
| CHoc (raw : hpoly) (cons : list cons3) (check_flags : bool) (vars : list label)
       (rows : list (list Qc * Qc * bool))
(* the rows the child sampler returned and the rows HigherOrderComposite returned, in order *)
| CHocFull (raw : hpoly) (cons : list cons3) (discard : bool) (vars_child vars_out : list label)
           (child_rows : list (list Qc)) (out_rows : list (list Qc * Qc * bool))
(* a BinaryPolynomial constructor (Model/PolyCtor.v): the items of the polynomial it built, what the exporter of its
   own vartype returned (to_hubo / to_hising, h as singleton terms), what the exporter of the other vartype returned *)
| CCtor (k : ctor) (items : hpoly) (back cross : hpoly * Qc) (assigns : list (list (label * Qc)))
(* the polynomial handed to a pipeline (its items) is the normalised form of the terms it was built from *)
| CInput (vt : vartype) (raw items : hpoly)
(* only the function is documented (to_spin().to_binary() and back): same value at the given assignments *)
| CFun (vt : vartype) (raw items : hpoly) (assigns : list (list (label * Qc)))
(* HigherOrderComposite.sample_poly(initial_state=...): expand_initial_state gives every product variable its product
   (in constraint order) and every auxiliary spin its minimiser; `expanded` is the state the child sampler received,
   `child_energy` the energy of the QUADRATIC model at that state *)
| CInit (vt : vartype) (raw : hpoly) (cons : list cons4) (init expanded : list (label * Qc)) (child_energy : Qc).

Definition input_ok (vt : vartype) (raw items : hpoly) : bool :=
  hpoly_eqb (normalise vt raw) items && terms_nodup items.

Fixpoint forallb2 {A B} (f : A -> B -> bool) (l1 : list A) (l2 : list B) : bool :=
  match l1, l2 with
  | [], [] => true
  | x :: xs, y :: ys => f x y && forallb2 f xs ys
  | _, _ => false
  end.

Definition check (c : case) : bool :=
  match c with
  | CReduce vt raw items reduced cs assigns =>
      input_ok vt raw items && valid_cons (hvars items) cs
      && admissible items cs && (length cs <=? excess items)%nat
      && hpoly_eqb (reduce_with cs items) reduced
      && all_degree_le2 reduced && terms_nodup reduced
      && forallb (fun asg => let a := sample_of_list asg in
                    Qc_eqb (henergy reduced (extend cs a)) (henergy raw a)) assigns
  | CMq vt raw items s cs n base bqm =>
      let bp := match base with Some (bvt, o) => Some (bvt, obs_poly o) | None => None end in
      let cons3s := map drop_aux cs in
      let red := reduce_with cons3s items in
      input_ok vt raw items && all_degree_le2 red
      && admissible items cons3s && (length cons3s <=? excess items)%nat
      && match vt with
         | SPIN => valid_cons4 items cs && poly_coeff_eqb n (with_base vt bp (mq_spin s cs red)) (obs_poly bqm)
         | _ => valid_cons (hvars items) cons3s && poly_coeff_eqb n (with_base vt bp (mq_binary s cons3s red)) (obs_poly bqm)
         end
  | CCqm vt raw items cs n base_obj obj constraints =>
      let bp := match base_obj with Some o => Some (vt, obs_poly o) | None => None end in
      let red := reduce_with cs items in
      input_ok vt raw items && valid_cons (hvars items) cs && all_degree_le2 red
      && admissible items cs && (length cs <=? excess items)%nat
      && poly_coeff_eqb n (with_base vt bp (poly_of_hpoly red)) (obs_poly obj)
      && forallb2 (fun c o => let '(ob, is_eq, rhs) := o in
                     is_eq && Qc_eqb rhs 0 && poly_coeff_eqb n (product_constraint_poly c) (obs_poly ob))
           cs constraints
  | CHoc raw cs check_flags vars rows =>
      forallb (fun r => let '(vals, en, flag) := r in
                 let a := sample_of_list (combine vars vals) in
                 (length vals =? length vars)%nat && Qc_eqb (henergy raw a) en
                 && (negb check_flags || Bool.eqb flag (consistentb cs a))) rows
  | CHocFull raw cs discard vc vo child_rows out_rows =>
      list_eqb (fun x y => list_eqb Qc_eqb (fst (fst x)) (fst (fst y)) && Qc_eqb (snd (fst x)) (snd (fst y))
                           && Bool.eqb (snd x) (snd y))
        (polymorph_rows raw cs discard vc vo child_rows) out_rows
  | CCtor k items back cross assigns =>
      let m := ctor_model k in
      let vt := ctor_vt k in
      let spec := ctor_spec k in
      hdict_items_eqb m items && terms_nodup items
      && (let '(bt, bo) := export_model vt m in hdict_items_eqb bt (fst back) && Qc_eqb bo (snd back))
      && (let '(ct, co) := cross_model vt m in hpoly_eqb ct (fst cross) && Qc_eqb co (snd cross))
      && forallb (fun asg => let a := sample_of_list asg in
                    Qc_eqb (henergy items a) (henergy spec a)
                    && Qc_eqb (henergy (fst back) a + snd back) (henergy spec a)
                    && Qc_eqb (henergy (fst cross) (cross_sample vt a) + snd cross) (henergy spec a)) assigns
  | CInput vt raw items => input_ok vt raw items
  | CFun vt raw items assigns =>
      terms_nodup items
      && forallb (fun asg => let a := sample_of_list asg in Qc_eqb (henergy items a) (henergy raw a)) assigns
  | CInit vt raw cs init expanded child_energy =>
      let a := sample_of_list init in
      let e := extend (map drop_aux cs) a in
      let m := match vt with SPIN => set_aux cs e | _ => e end in
      forallb (fun lv => Qc_eqb (m (fst lv)) (snd lv)) expanded
      && (length expanded =? length init + length cs + match vt with SPIN => length cs | _ => 0 end)%nat
      && Qc_eqb child_energy (henergy raw a)
  end.
