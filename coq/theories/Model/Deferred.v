(* Future-backed (deferred) sample sets: SampleSet.from_future / resolve / done, the deferred
   branch of SampleSet.change_vartype, and the Sampler.sample mixins over a child that returns a
   sample set which is not resolved yet.  NO proofs here.

   Which arguments the deferred hook (and the copy branch) forward to the recursive call is
   GENERATED from the source (Gen/Gen_Deferred.v, translators/sampleset_deferred.py). *)
From Coq Require Import List ZArith QArith Qcanon Bool Arith.
From Dimod Require Import Base.Util Model.Poly Model.Samples Model.Solve Gen.Gen_Deferred.
Import ListNotations.
Open Scope Qc_scope.

(* a sample set is resolved, or holds (future, result_hook).  The future is a foreign object
   (does it have a .done attribute, what .done() says now, the value the hook will see) or
   another sample set (change_vartype's `self.from_future(self, hook)`).  A hook is modelled by
   what it makes of the RESOLVED value of its future. *)
Inductive sset :=
| Ready (r : result)
| OnObject (has_done is_done : bool) (value : result) (hook : result -> result)
| OnSet (inner : sset) (hook : result -> result).

(* SampleSet.resolve (reached through .record / .variables / .vartype / .info) *)
Fixpoint ss_resolve (s : sset) : result :=
  match s with
  | Ready r => r
  | OnObject _ _ v hook => hook v
  | OnSet inner hook => hook (ss_resolve inner)
  end.

(* SampleSet.done: no future, or a future without .done, or future.done() *)
Fixpoint ss_done (s : sset) : bool :=
  match s with
  | Ready _ => true
  | OnObject has_done is_done _ _ => (negb has_done && gen_done_without_done_attr) || (has_done && is_done)
  | OnSet inner _ => ss_done inner
  end.

(* SampleSet.from_future(future) with the default hook `future.result()` *)
Definition default_hook (r : result) : result := r.

(* the arguments a recursive call receives when only some are forwarded: the others take the
   defaults of the signature (energy_offset = 0.0; vartype has no default - the call would not
   convert, modelled as the identity on rows) *)
Definition fwd_conv (forwards : bool) (conv : list Qc -> list Qc) : list Qc -> list Qc :=
  if forwards then conv else (fun r => r).
Definition fwd_off (forwards : bool) (off : Qc) : Qc := if forwards then off else 0.

(* SampleSet.change_vartype(vartype, energy_offset, inplace=True) on a possibly pending set *)
Definition change_vartype_ss (conv : list Qc -> list Qc) (off : Qc) (s : sset) : sset :=
  if negb (ss_done s) then
    (* def hook(sampleset): sampleset.resolve(); return sampleset.change_vartype(<forwarded>) *)
    OnSet s (fun r => change_vartype (fwd_conv gen_cv_hook_forwards_vartype conv)
                                     (fwd_off gen_cv_hook_forwards_offset off) r)
  else Ready (change_vartype conv off (ss_resolve s)).

(* inplace=False: new = self.copy(); return new.change_vartype(<forwarded>, inplace=True)
   (copy() reads the record: the copy is resolved) *)
Definition change_vartype_copy_ss (conv : list Qc -> list Qc) (off : Qc) (s : sset) : sset :=
  change_vartype_ss (fwd_conv gen_cv_copy_forwards_vartype conv) (fwd_off gen_cv_copy_forwards_offset off)
                    (Ready (ss_resolve s)).

(* Sampler.sample over an implemented method that may return a pending sample set *)
Definition sample_spin_via_qubo_ss (child : poly -> sset) (vars : list label) (p : poly) : sset :=
  let q := to_binary_all vars p in
  change_vartype_ss row_to_spin (fwd_off gen_mixin_forwards_offset (p_off q)) (child (drop_offset q)).

Definition sample_binary_via_ising_ss (child : poly -> sset) (vars : list label) (p : poly) : sset :=
  let q := to_spin_all vars p in
  change_vartype_ss row_to_binary (fwd_off gen_mixin_forwards_offset (p_off q)) (child (drop_offset q)).

Definition sample_same_vartype_ss (child : poly -> sset) (p : poly) : sset :=
  change_vartype_ss (fun r => r) (fwd_off gen_mixin_forwards_offset (p_off p)) (child (drop_offset p)).

(* a stack of samplers that each implement ONE of sample_ising / sample_qubo by handing the
   problem to their child's .sample: every level adds one (possibly deferred) change_vartype *)
Inductive level := LSpinViaQubo | LBinaryViaIsing | LSame.

Definition level_conv (l : level) : list Qc -> list Qc :=
  match l with LSpinViaQubo => row_to_spin | LBinaryViaIsing => row_to_binary | LSame => fun r => r end.

(* the sample set the outermost level returns, given the base's sample set and each level's
   conversion and constant (innermost level first) *)
Fixpoint stack_ss (levels : list (level * Qc)) (base : sset) : sset :=
  match levels with
  | [] => base
  | (l, off) :: rest => stack_ss rest (change_vartype_ss (level_conv l) off base)
  end.

Fixpoint stack_result (levels : list (level * Qc)) (base : result) : result :=
  match levels with
  | [] => base
  | (l, off) :: rest => stack_result rest (change_vartype (level_conv l) off base)
  end.

(* the kinds of future the harness puts under a stack *)
Inductive fkind :=
| FNone                      (* a resolved sample set *)
| FObject (has_done is_done : bool).   (* from_future(object) with the default hook *)

Definition base_ss (k : fkind) (r : result) : sset :=
  match k with
  | FNone => Ready r
  | FObject hd d => OnObject hd d r default_hook
  end.
