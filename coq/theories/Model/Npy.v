(* Member-level model of the data section of a DQM file: the section holds a NumPy .npz archive (a zip: container not
   modelled), whose members are .npy files (format version 1.0):
       b'\x93NUMPY' 1 0 | uint16 header length | "{'descr': '<u2', 'fortran_order': False, 'shape': (3,), }" spaces '\n' | raw data
   (one-dimensional little-endian arrays, or a scalar with shape ()).  Only the DECODER is modelled (the amount of header
   padding depends on the NumPy version); DiscreteQuadraticModel._from_file_numpy / from_numpy_vectors then read
   case_starts, linear_biases, quadratic_row_indices, quadratic_col_indices, quadratic_biases[, offset].  No proofs here. *)
From Coq Require Import List NArith ZArith Arith Bool Ascii String.
From Dimod Require Import Base.Util Gen.Gen_Codec Model.Codec Model.CodecEq Model.CqmFile.
Import ListNotations.
Open Scope nat_scope.
Notation length := List.length (only parsing).

Definition NPY_MAGIC : bytes := [147; 78; 85; 77; 80; 89]%N.

Record npy := mkNpy {
  np_descr : bytes;                 (* e.g. "<u2", "<f8" *)
  np_shape : option N;              (* None: scalar, shape () *)
  np_items : list bytes }.          (* the items, each `width` bytes *)

(* item width: the digit that ends the descr ("<u2" -> 2, "<f8" -> 8) *)
Definition descr_width (d : bytes) : option nat :=
  match List.rev d with
  | c :: _ => if (N.leb 49 c && N.leb c 56)%bool then Some (N.to_nat (c - 48)) else None
  | [] => None
  end.

(* characters up to the closing single quote *)
Fixpoint p_squote (bs acc : bytes) : res (bytes * bytes) :=
  match bs with
  | [] => Err
  | c :: r => if N.eqb c 39 then Ok (List.rev acc, r) else p_squote r (c :: acc)
  end.

Definition p_shape : parser (option N) :=
  fun bs => match bs with
            | [] => Err
            | b :: r =>
                if N.eqb b 41 then Ok (None, r)                              (* "()" *)
                else match p_N_until 44 bs with                              (* "(n,)" *)
                     | Ok (n, c :: r') => if N.eqb c 41 then Ok (Some n, r') else Err
                     | _ => Err
                     end
            end.

Definition p_npy_dict : parser (bytes * option N) :=
  bind (lit (L "{'descr': '")) (fun _ =>
  bind (fun bs => p_squote bs []) (fun d =>
  bind (lit (L ", 'fortran_order': False, 'shape': (")) (fun _ =>
  bind p_shape (fun sh =>
  bind (lit (L ", }")) (fun _ => ret (d, sh)))))).

(* the dictionary text, then spaces, then one newline *)
Definition npy_header_ok (r : bytes) : bool :=
  match List.rev r with
  | 10%N :: sp => forallb (N.eqb 32) sp
  | _ => false
  end.

Definition npy_decode (bs : bytes) : res npy :=
  if negb (starts_with NPY_MAGIC bs) then Err else
  match skipn 6 bs with
  | 1%N :: 0%N :: l0 :: l1 :: r =>
      let hlen := N.to_nat (le_dec [l0; l1]) in
      if length r <? hlen then Err else
      match p_npy_dict (firstn hlen r) with
      | Ok ((d, sh), rest) =>
          if negb (npy_header_ok rest) then Err else
          match descr_width d with
          | None => Err
          | Some w =>
              let data := skipn hlen r in
              let n := match sh with Some n => N.to_nat n | None => 1 end in
              if negb (length data =? n * w) then Err else
              match pd_chunks n w data with
              | Some items => Ok (mkNpy d sh items)
              | None => Err
              end
          end
      | Err => Err
      end
  | _ => Err
  end.

(* ---------------------------------------------------------------- the DQM vectors *)

Record dqmvec := mkDqmvec {
  dv_starts : list N;
  dv_lin : list bytes;
  dv_quad : list (N * (N * bytes));           (* (row, col, bias) *)
  dv_off : option bytes }.

Definition npy_ints (a : npy) : option (list N) :=
  match a with mkNpy d (Some _) items =>
    match d with
    | 60%N :: c :: _ => if (N.eqb c 117 || N.eqb c 105)%bool then Some (map le_dec items) else None    (* '<u' / '<i' *)
    | _ => None
    end
  | _ => None end.

Definition npy_f64 (a : npy) : option (list bytes) :=
  if bytes_eqb (np_descr a) (L "<f8") then Some (np_items a) else None.

Definition zget (name : string) (z : archive) : option npy :=
  match zfind (s2b name) z with
  | Some b => match npy_decode b with Ok a => Some a | Err => None end
  | None => None
  end.

Fixpoint zip3 (a b : list N) (c : list bytes) : option (list (N * (N * bytes))) :=
  match a, b, c with
  | [], [], [] => Some []
  | x :: a', y :: b', z :: c' => match zip3 a' b' c' with Some r => Some ((x, (y, z)) :: r) | None => None end
  | _, _, _ => None
  end.

Definition dqm_read (z : archive) : res dqmvec :=
  match zget "case_starts.npy" z, zget "linear_biases.npy" z, zget "quadratic_row_indices.npy" z,
        zget "quadratic_col_indices.npy" z, zget "quadratic_biases.npy" z with
  | Some cs, Some lb, Some qr, Some qc, Some qb =>
      match npy_ints cs, npy_f64 lb, npy_ints qr, npy_ints qc, npy_f64 qb with
      | Some s, Some l, Some r, Some c, Some b =>
          match np_shape lb, zip3 r c b with
          | Some _, Some q =>
              match zfind (s2b "offset.npy") z with
              | None => Ok (mkDqmvec s l q None)                          (* format version 1.0: no offset entry *)
              | Some ob => match npy_decode ob with
                           | Ok (mkNpy d None [o]) => if bytes_eqb d (L "<f8") then Ok (mkDqmvec s l q (Some o)) else Err
                           | _ => Err
                           end
              end
          | _, _ => Err
          end
      | _, _, _, _, _ => Err
      end
  | _, _, _, _, _ => Err
  end.

Definition q3_eqb (a b : N * (N * bytes)) : bool :=
  N.eqb (fst a) (fst b) && N.eqb (fst (snd a)) (fst (snd b)) && bytes_eqb (snd (snd a)) (snd (snd b)).

(* interactions compared as a set keyed by the unordered pair of case indices *)
Definition q3_equiv (a b : N * (N * bytes)) : bool :=
  ((N.eqb (fst a) (fst b) && N.eqb (fst (snd a)) (fst (snd b))) || (N.eqb (fst a) (fst (snd b)) && N.eqb (fst (snd a)) (fst b)))
  && bytes_eqb (snd (snd a)) (snd (snd b)).

Definition dqmvec_eqb (file obs : dqmvec) : bool :=
  list_eqb N.eqb (dv_starts file) (dv_starts obs) && list_eqb bytes_eqb (dv_lin file) (dv_lin obs)
  && Nat.eqb (length (dv_quad file)) (length (dv_quad obs))
  && forallb (fun q => existsb (q3_equiv q) (dv_quad obs)) (dv_quad file)
  && option_eqb bytes_eqb (dv_off file) (dv_off obs).

(* ---------------------------------------------------------------- the writer, for any amount k of header padding *)

Definition pr_shape (sh : option N) : bytes :=
  match sh with None => [41%N] | Some n => dec_N n ++ [44%N; 41%N] end.

Definition npy_dict (a : npy) : bytes :=
  L "{'descr': '" ++ np_descr a ++ [39%N] ++ L ", 'fortran_order': False, 'shape': (" ++ pr_shape (np_shape a) ++ L ", }".

Definition npy_encode (k : nat) (a : npy) : bytes :=
  let h := npy_dict a ++ spaces k ++ [10%N] in
  NPY_MAGIC ++ [1%N; 0%N] ++ le_enc 2 (N.of_nat (length h)) ++ h ++ List.concat (np_items a).
