(* C06: the small statement language into which translators/ops_dispatch.py translates the bodies of
   the operator methods (__add__, __iadd__, __radd__, __sub__, ..., __pow__) of BinaryQuadraticModel,
   QuadraticModel and the CQM expression views.  Types only; the generated tables are in
   Gen/Gen_Ops.v, the interpreter in Model/Ops.v. *)
From Coq Require Import List ZArith.
From Dimod Require Import Model.Poly.
Import ListNotations.

Inductive bop := OAdd | OSub | OMul | ODiv.

(* the conditions that occur in the methods *)
Inductive guard :=
| GIsBqm | GIsQm | GIsNum | GIsInt        (* isinstance(other, BinaryQuadraticModel / QuadraticModel / Number / int) *)
| GIsMixinOrNum                           (* isinstance(other, (QuadraticViewsMixin, numbers.Number)) *)
| GVtMismatch                             (* other.num_variables and other.vartype != self.vartype *)
| GNotBothLinear                          (* not (self.is_linear() and other.is_linear()) *)
| GSelfNotLinear                          (* not self.is_linear() *)
| GOtherNe2                               (* other != 2 *)
| GOtherIsSelf.                           (* other is self *)

Inductive exnk := XType | XValue.

Inductive expr :=
| ESelf | EOther | EVar (x : nat)
| ECopy (e : expr)                        (* e.copy() *)
| EFromBqm (e : expr)                     (* QuadraticModel.from_bqm(e) *)
| ENewQM                                  (* dimod.QuadraticModel() *)
| ENeg (e : expr)                         (* -e *)
| EBin (o : bop) (a b : expr)             (* a o b, through the full operator protocol *)
| EConst (z : Z).

(* what the double loop of __mul__ does with a pair of equal labels *)
Inductive same_action := ToLinear | ToOffset | ToQuadratic | Unexpected.

Inductive stmt :=
| SAssign (x : expr) (e : expr)           (* x = e          (x: a local, or `other`) *)
| SAug (x : expr) (o : bop) (e : expr)    (* x o= e         (in-place operator protocol) *)
| SOffset (x : expr) (o : bop) (e : expr) (* x.offset += e / -= e *)
| SUpdate (x : expr) (e : expr)           (* x.update(e) *)
| SScale (x : expr) (e : expr)            (* x.scale(e) *)
| SReturn (e : expr)
| SReturnNotImplemented
| SRaise (k : exnk)
| SIf (g : guard) (th el : list stmt)
| STryFinally (body fin : list stmt)
| SProductBqm (tbl : vartype -> same_action)   (* rest of BQM.__mul__ for two linear BQMs of one vartype *)
| SProductQm (tbl : vartype -> same_action).   (* rest of QM.__mul__ for two linear QMs *)

Inductive kcls := KNum | KBqm | KQm | KView.
Inductive mname := MOp (o : bop) | MIOp (o : bop) | MROp (o : bop) | MNeg | MPos | MPow.

(* the existing-label branch of cyqm add_variable (translators/qm_addvar.py -> Gen/Gen_AddVar.v):
   which bound a comparison concerns and the guard it stands under *)
Inductive av_bound := AvLower | AvUpper.
Inductive av_cond :=
| AvGiven                                 (* `if X is not None:` *)
| AvTruthy.                               (* `if X:`  - given and non-zero *)

(* what QuadraticModel.from_bqm -> cyqm from_cybqm() copies from the BQM (translators/ops_dispatch.py) *)
Inductive fb_step :=
| FbOffset                                (* qm.offset = bqm.offset *)
| FbVartypeOfBqm                          (* vartype = bqm.cppbqm.vartype() *)
| FbAddVariable                           (* qm.cppqm.add_variable(vartype), once per variable of the BQM *)
| FbLinear                                (* qm.cppqm.set_linear(vi, bqm.cppbqm.linear(vi)) *)
| FbLabels                                (* qm.variables._extend(bqm.variables) *)
| FbQuadratic.                            (* qm.cppqm.set_quadratic(u, v, bias) for every interaction *)
