(* C17 - multiplication_circuit(n, m) as the generator wires it (generators/gates.py):
   a list of gate instances over named wires, in the order product(range(n), range(m)).
   Gate energies come from the GENERATED tables (Gen/Gen_Gates.v).  Executable; no proofs here. *)
From Coq Require Import List ZArith QArith Qcanon Bool Arith.
From Dimod Require Import Base.Util Model.Poly Model.Comb Gen.Gen_Gates Model.Gates.
Import ListNotations.

Inductive wire := WA (i : nat) | WB (j : nat) | WP (k : nat)
                | WAnd (i j : nat) | WSum (i j : nat) | WCarry (i j : nat).

Definition wire_eqb (u v : wire) : bool :=
  match u, v with
  | WA i, WA i' => (i =? i')%nat
  | WB i, WB i' => (i =? i')%nat
  | WP i, WP i' => (i =? i')%nat
  | WAnd i j, WAnd i' j' => (i =? i')%nat && (j =? j')%nat
  | WSum i j, WSum i' j' => (i =? i')%nat && (j =? j')%nat
  | WCarry i j, WCarry i' j' => (i =? i')%nat && (j =? j')%nat
  | _, _ => false
  end.

(* the naming functions of the generator *)
Definition AND_ (i j : nat) : wire :=
  match i, j with O, O => WP 0 | _, _ => WAnd i j end.
Definition SUM_ (n : nat) (i j : nat) : wire :=
  if (j =? 0)%nat then WP i else if (i =? n - 1)%nat then WP (i + j) else WSum i j.
Definition CARRY_ (n m : nat) (i j : nat) : wire :=
  if (i + j =? n + m - 2)%nat then WP (n + m - 1) else WCarry i j.

Inductive ginst :=
| IAnd (a b o : wire)
| IHalf (a b s c : wire)
| IFull (a b c s k : wire).

(* gate(i, j): the AND of a_i, b_j and, when there is something to add, a half or full adder *)
Definition gate_ij (n m i j : nat) : list ginst :=
  let and_ij := AND_ i j in
  let extra1 :=
    if (0 <? i)%nat then
      (if (j <? m - 1)%nat then [if (1 <? i)%nat then SUM_ n (i - 1) (j + 1) else AND_ 0 (j + 1)]
       else if (1 <? i)%nat then [CARRY_ n m (i - 1) j] else [])
      ++ (if (0 <? j)%nat then [CARRY_ n m i (j - 1)] else [])
    else [] in
  IAnd (WA i) (WB j) and_ij ::
  match extra1 with
  | [x] => [IHalf and_ij x (SUM_ n i j) (CARRY_ n m i j)]
  | [x; y] => [IFull and_ij x y (SUM_ n i j) (CARRY_ n m i j)]
  | _ => []
  end.

Definition circuit (n m : nat) : list ginst :=
  flat_map (fun i => flat_map (fun j => gate_ij n m i j) (seq 0 m)) (seq 0 n).

(* ---------- energy and satisfaction of an assignment of the wires ---------- *)
Definition wassign := wire -> bool.

Definition inst_energy (a : wassign) (g : ginst) : Z :=
  match g with
  | IAnd x y o => and_energy [a x; a y; a o]
  | IHalf x y s c => halfadder_energy [a x; a y; a s; a c]
  | IFull x y z s k => fulladder_energy [a x; a y; a z; a s; a k]
  end.

Definition inst_sat (a : wassign) (g : ginst) : bool :=
  match g with
  | IAnd x y o => and_ok [a x; a y; a o]
  | IHalf x y s c => halfadder_ok [a x; a y; a s; a c]
  | IFull x y z s k => fulladder_ok [a x; a y; a z; a s; a k]
  end.

Definition circuit_energy (gs : list ginst) (a : wassign) : Z :=
  fold_right (fun g acc => (inst_energy a g + acc)%Z) 0%Z gs.
Definition all_sat (gs : list ginst) (a : wassign) : bool := forallb (inst_sat a) gs.

(* ---------- forward simulation: outputs computed from inputs, gate after gate ---------- *)
Definition wupd (a : wassign) (w : wire) (b : bool) : wassign := fun v => if wire_eqb v w then b else a v.

Definition sim_step (env : wassign) (g : ginst) : wassign :=
  match g with
  | IAnd x y o => wupd env o (env x && env y)
  | IHalf x y s c => wupd (wupd env s (xorb (env x) (env y))) c (env x && env y)
  | IFull x y z s k =>
      let t := (b2n (env x) + b2n (env y) + b2n (env z))%nat in
      wupd (wupd env s (Nat.odd t)) k (2 <=? t)%nat
  end.
Definition sim (gs : list ginst) (env : wassign) : wassign := fold_left sim_step gs env.

Definition inst_inputs (g : ginst) : list wire :=
  match g with IAnd x y _ => [x; y] | IHalf x y _ _ => [x; y] | IFull x y z _ _ => [x; y; z] end.
Definition inst_outputs (g : ginst) : list wire :=
  match g with IAnd _ _ o => [o] | IHalf _ _ s c => [s; c] | IFull _ _ _ s k => [s; k] end.
Definition wmem (w : wire) (l : list wire) : bool := existsb (wire_eqb w) l.

(* every gate reads only wires that are known (primary inputs or outputs of earlier gates) *)
Fixpoint topo_ok (known : list wire) (gs : list ginst) : bool :=
  match gs with
  | [] => true
  | g :: r => forallb (fun w => wmem w known) (inst_inputs g) && topo_ok (inst_outputs g ++ known) r
  end.

Definition inputs_of (n m : nat) : list wire := map WA (seq 0 n) ++ map WB (seq 0 m).
Definition env_of (abits bbits : list bool) : wassign :=
  fun w => match w with WA i => nth i abits false | WB j => nth j bbits false | _ => false end.
Definition prod_bits (n m : nat) (a : wassign) : list bool := map (fun k => a (WP k)) (seq 0 (n + m)).

(* the arithmetic check for one size, all inputs: by computation *)
Definition mult_ok_size (n m : nat) : bool :=
  topo_ok (inputs_of n m) (circuit n m)
  && forallb (fun k => wmem (WP k) (flat_map inst_outputs (circuit n m))) (seq 0 (n + m))
  && forallb (fun ab => let abits := firstn n ab in let bbits := skipn n ab in
                        (bits_val (prod_bits n m (sim (circuit n m) (env_of abits bbits)))
                         =? bits_val abits * bits_val bbits)%Z)
       (all_bitvectors (n + m)).

Definition a_bits (n : nat) (a : wassign) : list bool := map (fun i => a (WA i)) (seq 0 n).
Definition b_bits (m : nat) (a : wassign) : list bool := map (fun j => a (WB j)) (seq 0 m).
Definition bits_eqb := list_eqb Bool.eqb.

(* every input combination has an assignment of the internal wires satisfying every gate *)
Definition mult_attained_size (n m : nat) : bool :=
  forallb (fun ab => let a0 := sim (circuit n m) (env_of (firstn n ab) (skipn n ab)) in
                     all_sat (circuit n m) a0
                     && bits_eqb (a_bits n a0) (firstn n ab) && bits_eqb (b_bits m a0) (skipn n ab))
    (all_bitvectors (n + m)).

(* ---------- the BQM: sum of the gate polynomials over numbered wires ---------- *)
Definition inst_poly (idx : wire -> nat) (g : ginst) : poly :=
  match g with
  | IAnd x y o => relabel (fun p => nth p [idx x; idx y; idx o] 0%nat) (gate_poly and_gate_lin and_gate_quad 1%Qc)
  | IHalf x y s c =>
      relabel (fun p => nth p [idx x; idx y; idx s; idx c] 0%nat) (gate_poly halfadder_gate_lin halfadder_gate_quad 1%Qc)
  | IFull x y z s k =>
      relabel (fun p => nth p [idx x; idx y; idx z; idx s; idx k] 0%nat) (gate_poly fulladder_gate_lin fulladder_gate_quad 1%Qc)
  end.
Definition circuit_poly (idx : wire -> nat) (gs : list ginst) : poly := psum (map (inst_poly idx) gs).

Fixpoint index_of (names : list wire) (w : wire) : nat :=
  match names with
  | [] => 0%nat
  | v :: r => if wire_eqb v w then 0%nat else S (index_of r w)
  end.
