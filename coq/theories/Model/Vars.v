(* M level model of dimod.cyvariables.cyVariables: two sparse dicts that store
   only the labels differing from their own index, plus the length.
   Mirrors _append/_pop/_relabel/_remove/at/index/count/_relabel_as_integers/
   _clear/copy and utilities.iter_safe_relabels/resolve_label_conflict.
   Executable; no proofs in this file. *)
From Coq Require Import List ZArith Bool Arith.
Import ListNotations.

(* labels after Python's numeric normalisation (1, 1.0, np.int64(1) are LI 1);
   every other hashable label is an atom *)
Inductive lab := LI (z : Z) | LA (a : nat).

Definition lab_eqb (x y : lab) : bool :=
  match x, y with
  | LI a, LI b => Z.eqb a b
  | LA a, LA b => Nat.eqb a b
  | _, _ => false
  end.

(* association lists with unique keys: python dicts *)
Fixpoint nget {V} (k : nat) (m : list (nat * V)) : option V :=
  match m with [] => None | (k', v) :: r => if Nat.eqb k k' then Some v else nget k r end.
Fixpoint ndel {V} (k : nat) (m : list (nat * V)) : list (nat * V) :=
  match m with [] => [] | (k', v) :: r => if Nat.eqb k k' then ndel k r else (k', v) :: ndel k r end.
Definition nset {V} (k : nat) (v : V) (m : list (nat * V)) := (k, v) :: ndel k m.

Fixpoint lget {V} (k : lab) (m : list (lab * V)) : option V :=
  match m with [] => None | (k', v) :: r => if lab_eqb k k' then Some v else lget k r end.
Fixpoint ldel {V} (k : lab) (m : list (lab * V)) : list (lab * V) :=
  match m with [] => [] | (k', v) :: r => if lab_eqb k k' then ldel k r else (k', v) :: ldel k r end.
Definition lset {V} (k : lab) (v : V) (m : list (lab * V)) := (k, v) :: ldel k m.

Record vars := mkVars { i2l : list (nat * lab); l2i : list (lab * nat); stop : nat }.

Definition empty : vars := mkVars [] [] 0.

Definition is_range (v : vars) : bool := match l2i v with [] => true | _ => false end.

(* cyVariables.at for 0 <= i < stop *)
Definition at_ (v : vars) (i : nat) : lab :=
  match nget i (i2l v) with Some l => l | None => LI (Z.of_nat i) end.

(* the list a Variables object stands for *)
Definition to_list (v : vars) : list lab := map (at_ v) (seq 0 (stop v)).

Definition in_range (v : vars) (z : Z) : bool := (0 <=? z)%Z && (z <? Z.of_nat (stop v))%Z.

Definition has_key {V} (k : nat) (m : list (nat * V)) : bool :=
  match nget k m with Some _ => true | None => false end.
Definition has_lkey {V} (k : lab) (m : list (lab * V)) : bool :=
  match lget k m with Some _ => true | None => false end.

(* _count_int *)
Definition count_int (v : vars) (z : Z) : bool :=
  if is_range v then in_range v z
  else (if in_range v z then negb (has_key (Z.to_nat z) (i2l v)) else false) || has_lkey (LI z) (l2i v).

Definition count (v : vars) (l : lab) : bool :=
  match l with LI z => count_int v z | LA _ => has_lkey l (l2i v) end.

(* index(v): defined when count is true *)
Definition index (v : vars) (l : lab) : option nat :=
  if negb (count v l) then None
  else match lget l (l2i v) with
       | Some i => Some i
       | None => match l with LI z => Some (Z.to_nat z) | LA _ => None end
       end.

Inductive res (A : Type) := Ok (a : A) | Err.
Arguments Ok {A} a.
Arguments Err {A}.

Definition store (v : vars) (l : lab) : vars :=
  let idx := stop v in
  if lab_eqb l (LI (Z.of_nat idx)) then mkVars (i2l v) (l2i v) (S idx)
  else mkVars (nset idx l (i2l v)) (lset l idx (l2i v)) (S idx).

(* least free non-negative integer: among 0..stop at least one is free *)
Definition first_free (v : vars) : Z :=
  match find (fun k => negb (count v (LI (Z.of_nat k)))) (seq 0 (S (stop v))) with
  | Some k => Z.of_nat k
  | None => Z.of_nat (S (stop v))
  end.

Definition auto_label (v : vars) : lab :=
  let c := LI (Z.of_nat (stop v)) in
  if negb (is_range v) && count v c then LI (first_free v) else c.

(* _append(v=None) / _append(v) / _append(v, permissive=True); returns the label *)
Definition append (v : vars) (l : option lab) (permissive : bool) : res (vars * lab) :=
  match l with
  | None => let a := auto_label v in Ok (store v a, a)
  | Some l =>
      if count v l then (if permissive then Ok (v, l) else Err)
      else Ok (store v l, l)
  end.

Fixpoint extend (v : vars) (ls : list lab) (permissive : bool) : res vars :=
  match ls with
  | [] => Ok v
  | l :: r => match append v (Some l) permissive with
              | Ok (v', _) => extend v' r permissive
              | Err => Err          (* the labels before the offending one stay appended *)
              end
  end.

(* state left behind by a failing _extend: the prefix that was appended *)
Fixpoint extend_partial (v : vars) (ls : list lab) (permissive : bool) : vars :=
  match ls with
  | [] => v
  | l :: r => match append v (Some l) permissive with
              | Ok (v', _) => extend_partial v' r permissive
              | Err => v
              end
  end.

Definition pop (v : vars) : res (vars * lab) :=
  match stop v with
  | O => Err
  | S idx =>
      let label := match nget idx (i2l v) with Some l => l | None => LI (Z.of_nat idx) end in
      Ok (mkVars (ndel idx (i2l v)) (ldel label (l2i v)) idx, label)
  end.

(* one pair of a safe sub-mapping inside _relabel *)
Definition relabel1 (v : vars) (old new : lab) : vars :=
  if lab_eqb old new then v
  else if negb (count v old) then v
  else
    let idx := match lget old (l2i v) with
               | Some i => i
               | None => match old with LI z => Z.to_nat z | LA _ => 0 end
               end in
    let l2i' := ldel old (l2i v) in
    if negb (lab_eqb new (LI (Z.of_nat idx)))
    then mkVars (nset idx new (i2l v)) (lset new idx l2i') (stop v)
    else mkVars (ndel idx (i2l v)) l2i' (stop v).

Definition relabel_sub (v : vars) (m : list (lab * lab)) : vars :=
  fold_left (fun acc p => relabel1 acc (fst p) (snd p)) m v.

Definition mem_lab (l : lab) (ls : list lab) : bool := existsb (lab_eqb l) ls.

Fixpoint nodup_labs (ls : list lab) : bool :=
  match ls with [] => true | l :: r => negb (mem_lab l r) && nodup_labs r end.

(* utilities.resolve_label_conflict: fresh integer labels from 2*len(mapping) *)
Fixpoint fresh_from (fuel : nat) (c : Z) (avoid : lab -> bool) : Z :=
  match fuel with
  | O => c
  | S f => if avoid (LI c) then fresh_from f (c + 1)%Z avoid else c
  end.

Fixpoint resolve (v : vars) (olds news : list lab) (counter : Z) (m : list (lab * lab))
  : list (lab * lab) * list (lab * lab) :=
  match m with
  | [] => ([], [])
  | (old, new) :: r =>
      if lab_eqb old new then resolve v olds news counter r
      else if mem_lab old news || mem_lab new olds then
        let avoid := fun l => mem_lab l news || mem_lab l olds || count v l in
        let lbl := fresh_from (length olds + length news + stop v + 1) counter avoid in
        let '(o2i, i2n) := resolve v olds news (lbl + 1)%Z r in
        ((old, LI lbl) :: o2i, (LI lbl, new) :: i2n)
      else
        let '(o2i, i2n) := resolve v olds news counter r in
        ((old, new) :: o2i, i2n)
  end.

(* _relabel(mapping): mapping given as an association list with distinct keys.
   Err = ValueError raised by iter_safe_relabels before anything is changed. *)
Definition relabel (v : vars) (m : list (lab * lab)) : res vars :=
  let olds := map fst m in
  let news := map snd m in
  if negb (nodup_labs news) then Err
  else if existsb (fun n => count v n && negb (mem_lab n olds)) news then Err
  else if existsb (fun o => mem_lab o news) olds then
    let '(o2i, i2n) := resolve v olds news (2 * Z.of_nat (length m))%Z m in
    Ok (relabel_sub (relabel_sub v o2i) i2n)
  else Ok (relabel_sub v m).

(* _relabel_as_integers: returns the mapping that restores the labels *)
Definition relabel_as_integers (v : vars) : vars * list (nat * lab) :=
  (mkVars [] [] (stop v), i2l v).

(* _remove(l) *)
Definition remove (v : vars) (l : lab) : res vars :=
  match index v l with
  | None => Err
  | Some vi =>
      let mapping := map (fun i => (at_ v i, at_ v (S i))) (seq vi (stop v - 1 - vi)) in
      match pop v with
      | Err => Err
      | Ok (v', _) =>
          match relabel v' mapping with
          | Ok v'' => Ok v''
          | Err => Err
          end
      end
  end.

(* ---------- the list specification ---------- *)
Fixpoint list_index (l : lab) (ls : list lab) : option nat :=
  match ls with
  | [] => None
  | x :: r => if lab_eqb l x then Some 0 else option_map S (list_index l r)
  end.

Fixpoint list_remove (l : lab) (ls : list lab) : list lab :=
  match ls with
  | [] => []
  | x :: r => if lab_eqb l x then r else x :: list_remove l r
  end.

Definition subst_lab (m : list (lab * lab)) (l : lab) : lab :=
  match lget l m with Some n => n | None => l end.

(* well-formedness: the invariant every reachable state satisfies *)
Definition wf (v : vars) : Prop :=
  (forall i l, nget i (i2l v) = Some l -> i < stop v /\ l <> LI (Z.of_nat i) /\ lget l (l2i v) = Some i) /\
  (forall l i, lget l (l2i v) = Some i -> nget i (i2l v) = Some l) /\
  (forall z i, lget (LI z) (l2i v) = Some i -> in_range v z = true ->
               has_key (Z.to_nat z) (i2l v) = true).

(* ---------- __getitem__(slice) ----------
   cyvariables.pyx: start, stop, step = idx.indices(self.size()); a new container
   receives self.at(i) for i in range(start, stop, step), appended strictly.
   [adjust] is CPython's PySlice_Unpack + PySlice_AdjustIndices for one bound (both
   bounds are clipped by the same rule); a missing bound is the end the walk starts
   from / runs to. *)
Definition adjust (x : option Z) (n step : Z) (is_stop : bool) : Z :=
  match x with
  | None => if (step <? 0)%Z then (if is_stop then (-1)%Z else (n - 1)%Z)
            else (if is_stop then n else 0%Z)
  | Some a =>
      if (a <? 0)%Z then
        (if (a + n <? 0)%Z then (if (step <? 0)%Z then (-1)%Z else 0%Z) else (a + n)%Z)
      else if (n <=? a)%Z then (if (step <? 0)%Z then (n - 1)%Z else n)
      else a
  end.

(* len(range(a, b, s)) and its elements, s <> 0 *)
Definition zrange_len (a b s : Z) : Z :=
  if (0 <? s)%Z then (if (a <? b)%Z then ((b - a - 1) / s + 1)%Z else 0%Z)
  else (if (b <? a)%Z then ((a - b - 1) / (- s) + 1)%Z else 0%Z).
Definition zrange (a b s : Z) : list Z :=
  map (fun k => (a + Z.of_nat k * s)%Z) (seq 0 (Z.to_nat (zrange_len a b s))).

(* at(idx): negative indices count from the end; IndexError outside [0, n) *)
Definition at_checked (v : vars) (z : Z) : res lab :=
  let z' := if (z <? 0)%Z then (z + Z.of_nat (stop v))%Z else z in
  if in_range v z' then Ok (at_ v (Z.to_nat z')) else Err.

Fixpoint ats (v : vars) (zs : list Z) : res (list lab) :=
  match zs with
  | [] => Ok []
  | z :: r => match at_checked v z, ats v r with
              | Ok l, Ok ls => Ok (l :: ls)
              | _, _ => Err
              end
  end.

Definition slice_bounds (v : vars) (a b s : option Z) : Z * Z * Z :=
  let st := match s with None => 1%Z | Some x => x end in
  let n := Z.of_nat (stop v) in
  (adjust a n st false, adjust b n st true, st).

(* the labels a slice selects, or Err when the call raises (step 0) *)
Definition getitem_slice (v : vars) (a b s : option Z) : res vars :=
  let '(lo, hi, st) := slice_bounds v a b s in
  if (st =? 0)%Z then Err
  else match ats v (zrange lo hi st) with
       | Ok ls => extend empty ls false
       | Err => Err
       end.

(* the step a slice walks with, and the labels it is expected to select *)
Definition slice_step (s : option Z) : Z := match s with None => 1%Z | Some x => x end.
Definition slice_labels (v : vars) (a b s : option Z) : list lab :=
  let '(lo, hi, st) := slice_bounds v a b s in
  map (fun z => at_ v (Z.to_nat z)) (zrange lo hi st).
