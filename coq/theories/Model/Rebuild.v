(* Rebuilding the adjacency structure of a loaded model from the lower triangles stored in a file.

   Mirrors  QuadraticModel.from_file:   for vi in range(n): _ilower_triangle_load(vi, ...)  ->
            for each (ui, bias) of the NEIG record: cppqm.add_quadratic_back(ui, vi, bias)
            (abc.h add_quadratic_back: emplace_back (v,bias) on adj[u] and, when u != v, (u,bias) on adj[v]);
            cyexpression._iquadratic_load uses the same call for the (u, v, bias) records of QUAD;
            BinaryQuadraticModel.from_file: per variable v the stored FULL neighbourhood is cut at
            searchsorted(outvar, v, side='right') (= the entries with index <= v) and handed to
            add_quadratic(u, v, bias) (abc.h: lower_bound + insert-if-absent + `+=`), see `upsert`.
   Biases are opaque (type B); indices are nat.  No proofs here. *)
From Coq Require Import List Arith Bool.
Import ListNotations.

Section Rebuild.
  Context {B : Type}.
  Definition nbhd := list (nat * B).

  Fixpoint upd_nth {A : Type} (i : nat) (f : A -> A) (l : list A) : list A :=
    match l, i with
    | [], _ => []
    | x :: r, 0 => f x :: r
    | x :: r, S i' => x :: upd_nth i' f r
    end.

  (* add_quadratic_back(u, v, bias) for a variable type that admits self loops *)
  Definition push (a : list nbhd) (t : nat * nat * B) : list nbhd :=
    match t with
    | (u, v, b) =>
        if u =? v then upd_nth u (fun l => l ++ [(v, b)]) a
        else upd_nth v (fun l => l ++ [(u, b)]) (upd_nth u (fun l => l ++ [(v, b)]) a)
    end.

  (* what to_file stores for variable v: the entries of its neighbourhood with index <= v
     (_ineighborhood(vi, lower_triangle=True): lower_bound(v) plus the self loop) *)
  Definition lower (v : nat) (nb : nbhd) : nbhd := filter (fun e => fst e <=? v) nb.

  Definition lowers (a : list nbhd) : list nbhd :=
    map (fun v => lower v (nth v a [])) (seq 0 (length a)).

  (* the add_quadratic_back calls of a load, in order *)
  Definition triples (ls : list nbhd) : list (nat * nat * B) :=
    flat_map (fun v => map (fun e => (fst e, v, snd e)) (nth v ls [])) (seq 0 (length ls)).

  Definition rebuild (ls : list nbhd) : list nbhd :=
    fold_left push (triples ls) (repeat [] (length ls)).

  (* BQM path: add_quadratic = asymmetric_quadratic_ref(u,v) += bias on both sides; `add0 b` is 0 + b *)
  Variable add : B -> B -> B.
  Variable add0 : B -> B.

  Fixpoint upsert (k : nat) (b : B) (l : nbhd) : nbhd :=
    match l with
    | [] => [(k, add0 b)]
    | (k', b') :: r =>
        if k' <? k then (k', b') :: upsert k b r
        else if k' =? k then (k', add b' b) :: r
        else (k, add0 b) :: l
    end.

  Definition push_upsert (a : list nbhd) (t : nat * nat * B) : list nbhd :=
    match t with
    | (u, v, b) =>
        if u =? v then a          (* BINARY / SPIN: folded into linear / offset; never stored in a BQM file *)
        else upd_nth v (upsert u b) (upd_nth u (upsert v b) a)
    end.

  Definition rebuild_upsert (ls : list nbhd) : list nbhd :=
    fold_left push_upsert (triples ls) (repeat [] (length ls)).
End Rebuild.
