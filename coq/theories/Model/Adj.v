(* M level model of dimod/include/dimod/abc.h (QuadraticModelBase) together with
   the vartype bookkeeping of binary_quadratic_model.h / quadratic_model.h:
   a vector of linear biases and a vector of neighbourhoods, each neighbourhood
   a vector of (index, bias) kept strictly sorted by index, every off-diagonal
   bias stored twice.  Index level (the C++ API), executable, no proofs here. *)
From Coq Require Import List ZArith QArith Qcanon Bool Arith.
From Dimod Require Import Base.Util Model.Poly.
Import ListNotations.
Open Scope Qc_scope.

Definition nbh := list (nat * Qc).
Record qm := mkQM { lin : list Qc; adj : list nbh; off : Qc; vts : list vartype }.

Definition nvars (m : qm) : nat := length (lin m).
Definition vt_at (m : qm) (v : nat) : vartype := nth v (vts m) BINARY.
Definition nb (m : qm) (u : nat) : nbh := nth u (adj m) [].

Definition empty_qm : qm := mkQM [] [] 0 [].

(* std::lower_bound over a neighbourhood sorted by index + the two uses made of it *)
Fixpoint nb_get (v : nat) (n : nbh) : option Qc :=
  match n with
  | [] => None
  | (w, b) :: r => if (w <? v)%nat then nb_get v r else if (w =? v)%nat then Some b else None
  end.

(* asymmetric_quadratic_ref(u, v) followed by `= f(old)`: insert 0 at the lower
   bound when absent *)
Fixpoint nb_upsert (f : Qc -> Qc) (v : nat) (n : nbh) : nbh :=
  match n with
  | [] => [(v, f 0)]
  | (w, b) :: r =>
      if (w <? v)%nat then (w, b) :: nb_upsert f v r
      else if (w =? v)%nat then (w, f b) :: r
      else (v, f 0) :: n
  end.

Fixpoint nb_erase (v : nat) (n : nbh) : nbh :=
  match n with
  | [] => []
  | (w, b) :: r =>
      if (w <? v)%nat then (w, b) :: nb_erase v r
      else if (w =? v)%nat then r
      else n
  end.

Fixpoint upd_nth {A} (i : nat) (f : A -> A) (l : list A) : list A :=
  match l, i with
  | [], _ => []
  | x :: r, O => f x :: r
  | x :: r, S j => x :: upd_nth j f r
  end.

Fixpoint del_nth {A} (i : nat) (l : list A) : list A :=
  match l, i with
  | [], _ => []
  | _ :: r, O => r
  | x :: r, S j => x :: del_nth j r
  end.

Definition is_binspin (t : vartype) : bool :=
  match t with BINARY | SPIN => true | _ => false end.

(* ---------- construction ---------- *)
Definition add_variable (t : vartype) (m : qm) : qm :=
  mkQM (lin m ++ [0]) (adj m ++ [[]]) (off m) (vts m ++ [t]).

Definition add_linear (v : nat) (b : Qc) (m : qm) : qm :=
  mkQM (upd_nth v (fun x => x + b) (lin m)) (adj m) (off m) (vts m).
Definition set_linear (v : nat) (b : Qc) (m : qm) : qm :=
  mkQM (upd_nth v (fun _ => b) (lin m)) (adj m) (off m) (vts m).
Definition add_offset (b : Qc) (m : qm) : qm := mkQM (lin m) (adj m) (off m + b) (vts m).
Definition set_offset (b : Qc) (m : qm) : qm := mkQM (lin m) (adj m) b (vts m).

Definition upsert_both (f : Qc -> Qc) (u v : nat) (a : list nbh) : list nbh :=
  upd_nth v (nb_upsert f u) (upd_nth u (nb_upsert f v) a).

(* precondition u, v < nvars *)
Definition add_quadratic (u v : nat) (b : Qc) (m : qm) : qm :=
  if (u =? v)%nat then
    match vt_at m u with
    | BINARY => add_linear u b m
    | SPIN => add_offset b m
    | _ => mkQM (lin m) (upd_nth u (nb_upsert (fun x => x + b) u) (adj m)) (off m) (vts m)
    end
  else mkQM (lin m) (upsert_both (fun x => x + b) u v (adj m)) (off m) (vts m).

(* None = std::domain_error *)
Definition set_quadratic (u v : nat) (b : Qc) (m : qm) : option qm :=
  if (u =? v)%nat then
    if is_binspin (vt_at m u) then None
    else Some (mkQM (lin m) (upd_nth u (nb_upsert (fun _ => b) u) (adj m)) (off m) (vts m))
  else Some (mkQM (lin m) (upsert_both (fun _ => b) u v (adj m)) (off m) (vts m)).

(* add_quadratic_back: emplace at the end of both neighbourhoods; the caller
   promises the index order, otherwise the structure breaks *)
Definition add_quadratic_back (u v : nat) (b : Qc) (m : qm) : qm :=
  if (u =? v)%nat then
    match vt_at m u with
    | BINARY => add_linear u b m
    | SPIN => add_offset b m
    | _ => mkQM (lin m) (upd_nth u (fun n => n ++ [(v, b)]) (adj m)) (off m) (vts m)
    end
  else mkQM (lin m)
         (upd_nth v (fun n => n ++ [(u, b)]) (upd_nth u (fun n => n ++ [(v, b)]) (adj m)))
         (off m) (vts m).

Definition remove_interaction (u v : nat) (m : qm) : qm * bool :=
  match nb_get v (nb m u) with
  | None => (m, false)
  | Some _ =>
      let a1 := upd_nth u (nb_erase v) (adj m) in
      let a2 := if (u =? v)%nat then a1 else upd_nth v (nb_erase u) a1 in
      (mkQM (lin m) a2 (off m) (vts m), true)
  end.

(* remove_variable: erase v's row; in every other neighbourhood walk from the
   back: decrement indices above v, erase the entry equal to v, stop at the
   first entry below v *)
Fixpoint walk_back (v : nat) (r : nbh) : nbh :=
  match r with
  | [] => []
  | (w, b) :: r' =>
      if (v <? w)%nat then (w - 1, b)%nat :: walk_back v r'
      else if (w =? v)%nat then r'
      else r
  end.

Definition nb_remove_var (v : nat) (n : nbh) : nbh := rev (walk_back v (rev n)).

Definition remove_variable (v : nat) (m : qm) : qm :=
  mkQM (del_nth v (lin m)) (map (nb_remove_var v) (del_nth v (adj m))) (off m) (del_nth v (vts m)).

(* resize: when shrinking every neighbourhood is cut at lower_bound(n) *)
Fixpoint nb_below (k : nat) (n : nbh) : nbh :=
  match n with
  | [] => []
  | (w, b) :: r => if (w <? k)%nat then (w, b) :: nb_below k r else []
  end.

Definition resize (t : vartype) (k : nat) (m : qm) : qm :=
  if (k <? nvars m)%nat then
    mkQM (firstn k (lin m)) (firstn k (map (nb_below k) (adj m))) (off m) (firstn k (vts m))
  else
    let d := (k - nvars m)%nat in
    mkQM (lin m ++ repeat 0 d) (adj m ++ repeat [] d) (off m) (vts m ++ repeat t d).

Definition scale (k : Qc) (m : qm) : qm :=
  mkQM (map (Qcmult k) (lin m)) (map (map (fun e => (fst e, k * snd e))) (adj m)) (k * off m) (vts m).

(* fix_variable: neighbourhood (self loop included) -> linear, then
   offset += a * linear(v), then remove *)
Definition fix_variable (v : nat) (a : Qc) (m : qm) : qm :=
  let m1 := fold_left (fun acc e => add_linear (fst e) (snd e * a) acc) (nb m v) m in
  let m2 := add_offset (a * nth v (lin m1) 0) m1 in
  remove_variable v m2.

(* substitute_variable (as repaired): x_v := mult * x_v + c *)
Definition substitute_variable (v : nat) (mult c : Qc) (m : qm) : qm :=
  let lv := nth v (lin m) 0 in
  let m0 := mkQM (upd_nth v (fun x => x * mult) (lin m)) (adj m) (off m + lv * c) (vts m) in
  fold_left
    (fun acc e =>
       let '(w, b) := e in
       if (w =? v)%nat then
         mkQM (upd_nth v (fun x => x + two * b * mult * c) (lin acc))
              (upd_nth v (nb_upsert (fun x => x * (mult * mult)) v) (adj acc))
              (off acc + b * c * c) (vts acc)
       else
         mkQM (upd_nth w (fun x => x + b * c) (lin acc))
              (upsert_both (fun x => x * mult) v w (adj acc))
              (off acc) (vts acc))
    (nb m v) m0.

(* ---------- reads ---------- *)
Definition linear (m : qm) (v : nat) : Qc := nth v (lin m) 0.
Definition quadratic (m : qm) (u v : nat) : Qc :=
  match nb_get v (nb m u) with Some b => b | None => 0 end.
Definition has_interaction (m : qm) (u v : nat) : bool :=
  match nb_get v (nb m u) with Some _ => true | None => false end.
Definition degree (m : qm) (v : nat) : nat := length (nb m v).
Definition self_loops (m : qm) : nat :=
  length (filter (fun u => has_interaction m u u) (seq 0 (nvars m))).
Definition num_interactions (m : qm) : nat :=
  ((fold_right Nat.add 0%nat (map (@length _) (adj m)) + self_loops m) / 2)%nat.
Definition is_linear (m : qm) : bool := forallb (fun n => match n with [] => true | _ => false end) (adj m).

(* energy: for u: lin[u]*s[u]; walk adj[u] while index <= u *)
Fixpoint walk_energy (s : nat -> Qc) (u : nat) (n : nbh) : Qc :=
  match n with
  | [] => 0
  | (w, b) :: r => if (u <? w)%nat then 0 else b * s u * s w + walk_energy s u r
  end.

Definition energy_adj (m : qm) (s : nat -> Qc) : Qc :=
  off m + qsum (map (fun u => nth u (lin m) 0 * s u + walk_energy s u (nb m u)) (seq 0 (nvars m))).

(* ---------- abstraction to the plain polynomial over indices ---------- *)
Definition lower_terms (u : nat) (n : nbh) : list qterm :=
  map (fun e => (u, fst e, snd e)) (filter (fun e => (fst e <=? u)%nat) n).

Definition abs (m : qm) : poly :=
  mkPoly (off m) (combine (seq 0 (nvars m)) (lin m))
         (flat_map (fun u => lower_terms u (nb m u)) (seq 0 (nvars m))).

(* ---------- the structural invariant (C04 / C20), executable ---------- *)
Fixpoint strictly_sorted (n : nbh) : bool :=
  match n with
  | [] => true
  | (w, _) :: r => match r with
                   | [] => true
                   | (w', _) :: _ => (w <? w')%nat && strictly_sorted r
                   end
  end.

Definition inv_b (m : qm) : bool :=
  Nat.eqb (length (adj m)) (nvars m) && Nat.eqb (length (vts m)) (nvars m)
  && forallb strictly_sorted (adj m)
  && forallb (fun n => forallb (fun e => (fst e <? nvars m)%nat) n) (adj m)
  && forallb (fun u => forallb (fun e => option_eqb Qc_eqb (nb_get u (nb m (fst e))) (Some (snd e))) (nb m u))
       (seq 0 (nvars m))
  && forallb (fun u => negb (is_binspin (vt_at m u) && has_interaction m u u)) (seq 0 (nvars m)).

Definition Inv (m : qm) : Prop := inv_b m = true.
