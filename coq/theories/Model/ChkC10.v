(* C10 correspondence: for a file the implementation wrote, every proper prefix is decoded by the
   model; the model must say "error" or "the same content as the full file" (never something else),
   and it must say "same content" for exactly the prefix lengths at which the implementation
   returned a model equal to the original. *)
From Coq Require Import List NArith ZArith Arith Bool.
From Dimod Require Import Base.Util Gen.Gen_Codec Model.Codec Model.ChkC09.
Import ListNotations.

Inductive fmt := FBqm | FQm
  | FExpr                 (* an expression member (objective / lhs) of a CQM zip *)
  | FVinfo (n : nat).     (* the varinfo member of a CQM zip with n variables *)

Record case := mkCase {
  c_fmt : fmt;
  c_bytes : bytes;                (* the complete file as written by the implementation *)
  c_ks : list nat;                (* the prefix lengths that were tried *)
  c_ok : list nat                 (* those at which the implementation returned an equal model *)
}.

(* 0 = error, 1 = equal to the full decode, 2 = a different model *)
Definition bucket {A : Type} (eqb : A -> A -> bool) (d : parser A) (full : res A) (p : bytes) : nat :=
  match run d p, full with
  | Err, _ => 0
  | Ok g, Ok f => if eqb g f then 1 else 2
  | Ok _, Err => 2
  end.

Definition mem (k : nat) (l : list nat) : bool := existsb (Nat.eqb k) l.

Definition check_with {A : Type} (eqb : A -> A -> bool) (d : parser A) (c : case) : bool :=
  let full := run d (c_bytes c) in
  match full with
  | Err => false
  | Ok _ =>
    forallb (fun k => Nat.eqb (bucket eqb d full (firstn k (c_bytes c))) (if mem k (c_ok c) then 1 else 0))
            (c_ks c)
  end.

Definition check (c : case) : bool :=
  match c_fmt c with
  | FBqm => check_with bqmfile_eqb bqm_decode c
  | FQm => check_with qmfile_eqb qm_decode c
  | FExpr => check_with exprfile_eqb expr_decode c
  | FVinfo n => check_with (list_eqb bytes_eqb) (dec_tsection MAGIC_VTYP NLEN_VTYP (pd_chunks n 17)) c
  end.
