(* C17 - magic_square, the construction GENERATED from the source (Gen/Gen_Magic.v by
   translators/magic_construction.py): the lines (cells, exponent) in the order the source adds them become
   sum(cell ** exponent) - sum == 0 (exponent 1: linear terms, exponent 2: squares), the uniqueness constraint is the
   generated list of degree-2 terms with the generated sense and right-hand side.
   Executable; no proofs here (Proofs/MagicGenFacts.v). *)
From Coq Require Import List ZArith QArith Qcanon Bool Arith.
From Dimod Require Import Base.Util Model.Poly Model.Knap Model.Gates Model.Magic Gen.Gen_Magic.
Import ListNotations.
Open Scope Qc_scope.

Definition lineg_poly (n : nat) (ln : list label * nat) : poly :=
  match snd ln with
  | 1%nat => mkPoly 0 (map (fun c => (c, 1)) (fst ln) ++ [(gm_sum n, - (1))]) []
  | 2%nat => mkPoly 0 [(gm_sum n, - (1))] (map (fun c => (c, c, 1)) (fst ln))
  | _ => mkPoly 0 [] []
  end.

Definition magicg_uniq_rhs (n : nat) : Qc := z2q (gm_uniq_rhs_num (Z.of_nat n)) / z2q gm_uniq_rhs_den.

Definition magicg_constraints (n power : nat) : list qcon :=
  flat_map (fun i => map (fun ln => (lineg_poly n ln, SEq, 0)) (gm_loop_lines n power i)) (seq 0 n)
  ++ map (fun ln => (lineg_poly n ln, SEq, 0)) (gm_tail_lines n power)
  ++ [(mkPoly 0 [] (gm_uniq_quad n), gm_uniq_sense, magicg_uniq_rhs n)].
