(* C17 - multiplication_circuit, the wiring GENERATED from the source (Gen/Gen_MultWiring.v by translators/mult_wiring.py):
   gate(i, j) places and_gate on gw_and_args and, when gw_adder_kind (len(inputs)) says so, a half / full adder on
   ( *inputs, *outputs ); a half adder takes 2 inputs, a full adder 3 (any other arity would be a TypeError in Python and
   places nothing here).  The circuit visits gw_positions in order.  Executable; no proofs here (Proofs/MultWiringFacts.v). *)
From Coq Require Import List Bool Arith.
From Dimod Require Import Model.MultCircuit Gen.Gen_MultWiring.
Import ListNotations.

Definition mw_adder (k : option gw_kind) (ins : list wire) (s c : wire) : list ginst :=
  match k, ins with
  | Some GHalf, [p; q] => [IHalf p q s c]
  | Some GFull, [p; q; r] => [IFull p q r s c]
  | _, _ => []
  end.

Definition mw_gate (n m i j : nat) : list ginst :=
  let '(x, y, o) := gw_and_args n m i j in
  let ins := gw_inputs n m i j in
  let '(s, c) := gw_outputs n m i j in
  IAnd x y o :: mw_adder (gw_adder_kind (length ins)) ins s c.

Definition mw_circuit (n m : nat) : list ginst :=
  flat_map (fun p => mw_gate n m (fst p) (snd p)) (gw_positions n m).
