(* C11 - the COO text format (serialization/coo.py) at the level of its lines: an optional
   `# vartype=...` header and `u v bias` triples over non-negative integer labels.
   dumps: labels sorted; for u, then v >= u: the line `u u linear[u]` when that bias is non-zero,
   the line `u v quadratic[u,v]` when the interaction exists (a zero bias is written).
   loads: a line with u = v adds to the linear bias of u, any other line adds an interaction;
   the offset is not part of the format.  Numerals (printed with %f) are abstract rationals.
   No proofs in this file. *)
From Coq Require Import List ZArith QArith Qcanon Bool Arith.
From Dimod Require Import Base.Util Model.Poly.
Import ListNotations.
Open Scope Qc_scope.

Definition coo_line := (nat * nat * Qc)%type.
Record coo_text := mkCoo { coo_header : option vartype; coo_lines : list coo_line }.

Definition coo_entry (p : poly) (u v : nat) : list coo_line :=
  if (u =? v)%nat then
    (if Qc_eqb (lin_coeff (p_lin p) u) 0 then [] else [(u, u, lin_coeff (p_lin p) u)])
  else if has_pair (p_quad p) u v then [(u, v, quad_coeff (p_quad p) u v)] else [].

(* labels are 0..n-1 (absent labels have no bias and no interaction, hence no line) *)
Definition coo_dumps (header : bool) (vt : vartype) (n : nat) (p : poly) : coo_text :=
  mkCoo (if header then Some vt else None)
        (flat_map (fun u => flat_map (coo_entry p u) (seq u (n - u))) (seq 0 n)).

Fixpoint coo_build (ls : list coo_line) : poly :=
  match ls with
  | [] => mkPoly 0 [] []
  | (u, v, b) :: r =>
      let q := coo_build r in
      if (u =? v)%nat then mkPoly 0 ((u, b) :: p_lin q) (p_quad q)
      else mkPoly 0 (p_lin q) ((u, v, b) :: p_quad q)
  end.

(* loads: the vartype comes from the header, else from the argument; both absent: ValueError;
   both present and different: ValueError *)
Definition coo_loads (arg : option vartype) (t : coo_text) : option (vartype * poly) :=
  match coo_header t, arg with
  | Some h, Some a => if vartype_eqb h a then Some (h, coo_build (coo_lines t)) else None
  | Some h, None => Some (h, coo_build (coo_lines t))
  | None, Some a => Some (a, coo_build (coo_lines t))
  | None, None => None
  end.
