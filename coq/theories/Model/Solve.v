(* C07: exact enumerations, the Sampler mixins and the reference composites as
   pure functions on (labels, rows, energies).  Executable; no proofs here.

   - exact_solver.py: _all_cases_dqm / _all_cases_cqm (np.meshgrid order, one-hot
     blocks for constraints marked discrete), lowest row of an enumeration
   - core/sampler.py: sample / sample_ising / sample_qubo mixins with
     SampleSet.change_vartype(energy_offset=)
   - higherordercomposites.py: polymorph_response, PolyScaleComposite,
     PolyFixedVariableComposite ; truncatecomposite.py ; tracking.py ; structure.py *)
From Coq Require Import List ZArith QArith Qcanon Bool Arith.
From Dimod Require Import Base.Util Model.Poly Model.HPoly Model.Samples Model.Comb Gen.Gen_PolyScale Gen.Gen_ExactHoc.
Import ListNotations.
Open Scope Qc_scope.

(* ------------------------------------------------------------------ *)
(* enumerations *)

Definition swap2 {A} (l : list A) : list A :=
  match l with a :: b :: r => b :: a :: r | _ => l end.

(* np.array(np.meshgrid( *cases )).T.reshape(-1, n): default 'xy' indexing makes
   the LAST axis the slowest one, then axes n-2 .. 2, then axis 0, and axis 1 the
   fastest.  Rows keep the coordinate order of `doms`. *)
Definition mesh {A} (doms : list (list A)) : list (list A) :=
  map (fun r => swap2 (rev r)) (product (rev (swap2 doms))).

Definition zrange (lb ub : Z) : list Z :=
  map (fun k => (lb + Z.of_nat k)%Z) (seq 0 (Z.to_nat (ub - lb + 1))).

(* DInt: integral bounds; DIntQ: bounds as the model reports them when they are not integral *)
Inductive vdom := DBin | DSpin | DInt (lb ub : Z) | DIntQ (lb ub : Qc).

(* math.floor / math.ceil of a rational *)
Definition qfloor (q : Qc) : Z := gfloor q.
Definition qceil (q : Qc) : Z := gceil q.

(* _iterator_by_vartype: the three domain constructions are GENERATED from the source
   (Gen/Gen_ExactHoc.v): range(2), [-1, 1], range(math.ceil(lower_bound), math.floor(upper_bound) + 1);
   DInt is the specification-level domain lb..ub for integral bounds *)
Definition dom_values (d : vdom) : list Z :=
  match d with
  | DBin => gen_binary_values
  | DSpin => gen_spin_values
  | DInt lb ub => zrange lb ub
  | DIntQ lb ub => gen_integer_values lb ub
  end.

(* _all_cases_dqm: meshgrid of range(num_cases(v)) *)
Definition all_cases_dqm (ncases : list nat) : list (list Z) :=
  mesh (map gen_dqm_values ncases).

(* _all_cases_cqm: `sizes` = number of variables of each constraint marked discrete
   (in the iteration order of cqm.discrete), `doms` = domains of the remaining
   variables in cqm.variables order.  Columns: the discrete groups' variables
   first, then the remaining variables. *)
Definition onehot_blocks (sizes : list nat) : list (list Z) :=
  map (@concat Z) (product (map onehots sizes)).

Definition all_cases_cqm (sizes : list nat) (doms : list vdom) : list (list Z) :=
  let c1 := mesh (map dom_values doms) in
  flat_map (fun oh => map (fun row => oh ++ row) c1) (onehot_blocks sizes).

Definition mem_nat (v : nat) (l : list nat) : bool := existsb (Nat.eqb v) l.

(* column labels of _all_cases_cqm *)
Definition cqm_var_order (vars : list label) (groups : list (list label)) : list label :=
  let d_vars := concat groups in
  d_vars ++ filter (fun v => negb (mem_nat v d_vars)) vars.

(* specification of a one-hot block *)
Definition zsum (l : list Z) : Z := fold_right Z.add 0%Z l.
Definition is_onehot (d : nat) (l : list Z) : Prop :=
  length l = d /\ Forall (fun x => x = 0%Z \/ x = 1%Z) l /\ zsum l = 1%Z.

(* a row of the CQM search space: one-hot on every discrete group, then in domain *)
Fixpoint cqm_row_ok (sizes : list nat) (doms : list vdom) (row : list Z) : Prop :=
  match sizes with
  | [] => Forall2 (fun x d => In x (dom_values d)) row doms
  | d :: r => is_onehot d (firstn d row) /\ cqm_row_ok r doms (skipn d row)
  end.

(* ------------------------------------------------------------------ *)
(* lowest row *)

Definition Qc_leb (a b : Qc) : bool := Qle_bool a b.

(* first minimal element, as SampleSet.first / lowest() pick it *)
Fixpoint argmin {A} (f : A -> Qc) (l : list A) : option A :=
  match l with
  | [] => None
  | x :: r => match argmin f r with
              | None => Some x
              | Some y => if Qc_leb (f x) (f y) then Some x else Some y
              end
  end.

(* ------------------------------------------------------------------ *)
(* sample sets as (labels, rows, energies) *)

Record result := mkRes { r_labels : list label; r_rows : list (list Qc); r_energies : list Qc }.

Definition honest (e : sample -> Qc) (r : result) : Prop :=
  r_energies r = map (fun row => e (row_sample (r_labels r) row)) (r_rows r).

(* SampleSet.change_vartype(vartype, energy_offset) *)
Definition row_to_spin (row : list Qc) : list Qc := map (fun x => two * x - 1) row.
Definition row_to_binary (row : list Qc) : list Qc := map (fun s => (s + 1) * half) row.

Definition change_vartype (conv : list Qc -> list Qc) (off : Qc) (r : result) : result :=
  mkRes (r_labels r) (map conv (r_rows r)) (map (fun e => e + off) (r_energies r)).

(* bqm.to_qubo() / bqm.to_ising(): the converted biases without the offset, and the offset *)
Definition to_binary_all (vars : list label) (p : poly) : poly := substitute_many vars two (- (1)) p.
Definition to_spin_all (vars : list label) (p : poly) : poly := substitute_many vars half half p.
Definition drop_offset (p : poly) : poly := mkPoly 0 (p_lin p) (p_quad p).

(* Sampler.sample(bqm) for a SPIN bqm when only sample_qubo is implemented, and
   for a BINARY bqm when only sample_ising is implemented.  `child` is the
   implemented method: it receives biases without offset. *)
Definition sample_spin_via_qubo (child : poly -> result) (vars : list label) (p : poly) : result :=
  let q := to_binary_all vars p in
  change_vartype row_to_spin (p_off q) (child (drop_offset q)).

Definition sample_binary_via_ising (child : poly -> result) (vars : list label) (p : poly) : result :=
  let q := to_spin_all vars p in
  change_vartype row_to_binary (p_off q) (child (drop_offset q)).

(* same vartype: to_ising / to_qubo only split off the offset *)
Definition sample_same_vartype (child : poly -> result) (p : poly) : result :=
  change_vartype (fun r => r) (p_off p) (child (drop_offset p)).

(* sample_ising(h, J) / sample_qubo(Q): build the BQM, call sample *)
Definition ising_poly (h : list lterm) (J : list qterm) : poly := mkPoly 0 h J.
Definition qubo_poly (Q : list qterm) : poly := mkPoly 0 [] Q.

(* ------------------------------------------------------------------ *)
(* composites *)

(* Tracking / Structure: the child's result, untouched *)
Definition passthrough (r : result) : result := r.

(* Truncate / PolyTruncate with sorted_by = None: the first n rows *)
Definition truncate_unsorted (n : nat) (r : result) : result :=
  mkRes (r_labels r) (firstn n (r_rows r)) (firstn n (r_energies r)).

(* sorted_by = 'energy': np.argsort then the first n.  Stable insertion sort on
   (energy, row) pairs; the order among equal energies is NOT pinned by the
   implementation (np.argsort default kind), the correspondence compares the
   energy column exactly and the rows as a sub-multiset. *)
Fixpoint insert_by (x : Qc * list Qc) (l : list (Qc * list Qc)) : list (Qc * list Qc) :=
  match l with
  | [] => [x]
  | y :: r => if Qc_leb (fst y) (fst x) then y :: insert_by x r else x :: l
  end.
Definition sort_by_energy (l : list (Qc * list Qc)) : list (Qc * list Qc) :=
  fold_right insert_by [] l.

Definition truncate_sorted (n : nat) (r : result) : result :=
  let s := firstn n (sort_by_energy (combine (r_energies r) (r_rows r))) in
  mkRes (r_labels r) (map snd s) (map fst s).

(* SampleSet.aggregate(): the first occurrence of every distinct row, in order of first
   occurrence, with the energy of that first occurrence *)
Definition row_eqb (a b : list Qc) : bool := list_eqb Qc_eqb a b.
Fixpoint aggregate_pairs (seen : list (list Qc)) (l : list (Qc * list Qc)) : list (Qc * list Qc) :=
  match l with
  | [] => []
  | x :: r => if existsb (row_eqb (snd x)) seen then aggregate_pairs seen r
              else x :: aggregate_pairs (snd x :: seen) r
  end.
Definition aggregate (r : result) : result :=
  let s := aggregate_pairs [] (combine (r_energies r) (r_rows r)) in
  mkRes (r_labels r) (map snd s) (map fst s).

(* polymorph_response: penalty filter, energies of the polynomial, column selection.
   `red` lists (u, v, product) of bqm.info['reduction']. *)
Definition penalty_ok (ls : list label) (red : list (label * label * label)) (row : list Qc) : bool :=
  forallb (fun t => let '(u, v, p) := t in
                    Qc_eqb (row_value ls row u * row_value ls row v) (row_value ls row p)) red.

Definition polymorph (poly : hpoly) (poly_vars : list label) (red : list (label * label * label))
           (keep discard : bool) (r : result) : result :=
  let ls := r_labels r in
  let rows := if discard then filter (penalty_ok ls red) (r_rows r) else r_rows r in
  let es := map (fun row => henergy poly (row_sample ls row)) rows in
  if keep then mkRes ls rows es
  else mkRes poly_vars (map (reindex_row poly_vars ls) rows) es.

(* PolyScaleComposite *)
Definition term_eqb (a b : list label) : bool := nats_eqb (sort_nats a) (sort_nats b).
Definition ignored (ign : list (list label)) (t : mono) : bool := existsb (term_eqb (fst t)) ign.

Definition hscale (k : Qc) (ign : list (list label)) (p : hpoly) : hpoly :=
  map (fun t => if ignored ign t then t else (fst t, k * snd t)) p.

Definition qmax (a b : Qc) : Qc := if Qc_leb a b then b else a.
Definition qmin (a b : Qc) : Qc := if Qc_leb a b then a else b.

(* BinaryPolynomial.normalize, as written: one pass over the terms with four running extrema;
   initial values, length tests, update expressions, the inv_scalar formula and the factor given
   to scale() are GENERATED from the source (Gen/Gen_PolyScale.v) *)
Record ext := mkExt { e_lmin : Qc; e_lmax : Qc; e_pmin : Qc; e_pmax : Qc }.

Definition norm_step (ign : list (list label)) (a : ext) (t : mono) : ext :=
  if ignored ign t then a
  else if gen_is_linear (length (fst t)) then
    mkExt (gen_upd_lmin (snd t) (e_lmin a)) (gen_upd_lmax (snd t) (e_lmax a)) (e_pmin a) (e_pmax a)
  else if gen_is_higher (length (fst t)) then
    mkExt (e_lmin a) (e_lmax a) (gen_upd_pmin (snd t) (e_pmin a)) (gen_upd_pmax (snd t) (e_pmax a))
  else a.

Definition norm_loop (ign : list (list label)) (p : hpoly) : ext :=
  fold_left (norm_step ign) p (mkExt gen_init_linear gen_init_linear gen_init_higher gen_init_higher).

(* the factor handed to scale(), or None when inv_scalar = 0 (nothing is scaled) *)
Definition normalize_scalar (lr pr : Qc * Qc) (ign : list (list label)) (p : hpoly) : option Qc :=
  let a := norm_loop ign p in
  let inv := gen_inv_scalar (e_lmin a) (e_lmax a) (e_pmin a) (e_pmax a) lr pr in
  if Qc_eqb inv 0 then None else Some (gen_scale_factor inv).

(* bias_range / poly_range arguments: a number r means (-|r|, |r|); without poly_range the
   bias_range is used for every term *)
Inductive prange := RNum (r : Qc) | RPair (lo hi : Qc).
Definition parse_range (r : prange) : Qc * Qc :=
  match r with RNum q => gen_parse_range q | RPair lo hi => (lo, hi) end.
Definition polyscale_ranges (bias_range : prange) (poly_range : option prange) : (Qc * Qc) * (Qc * Qc) :=
  match poly_range with
  | None => (parse_range bias_range, parse_range bias_range)
  | Some pr => (parse_range bias_range, parse_range pr)
  end.

(* poly[v]: a BinaryPolynomial is a dict keyed by the term as a set *)
Definition hlookup (p : hpoly) (key : list label) : Qc :=
  match find (fun t => term_eqb (fst t) key) p with Some t => snd t | None => 0 end.

(* scalar = poly[v] / original[v] on the first term with a non-zero bias that is not ignored *)
Definition ratio_scalar (ign : list (list label)) (original scaled : hpoly) : Qc :=
  match find (fun t => negb (Qc_eqb (snd t) 0) && negb (ignored ign t)) original with
  | Some t => gen_ratio_scalar (hlookup scaled (fst t)) (snd t)
  | None => gen_no_term_scalar
  end.

(* the polynomial sent to the child and the scalar used to un-scale *)
Definition polyscale_problem (scalar : option Qc) (lr pr : Qc * Qc) (ign : list (list label))
           (p : hpoly) : hpoly * Qc :=
  match scalar with
  | Some k => (hscale k ign p, k)
  | None => let q := match normalize_scalar lr pr ign p with
                     | Some k => hscale k ign p
                     | None => p
                     end in
            (q, ratio_scalar ign p q)
  end.

(* BinaryPolynomial.normalize divides the four extrema by the four bounds unconditionally: a zero
   bound is a ZeroDivisionError (None); an explicit scalar never reaches normalize *)
Definition zero_bound (lr pr : Qc * Qc) : bool :=
  Qc_eqb (fst lr) 0 || Qc_eqb (snd lr) 0 || Qc_eqb (fst pr) 0 || Qc_eqb (snd pr) 0.

Definition polyscale_call (scalar : option Qc) (lr pr : Qc * Qc) (ign : list (list label))
           (p : hpoly) : option (hpoly * Qc) :=
  match scalar with
  | Some _ => Some (polyscale_problem scalar lr pr ign p)
  | None => if zero_bound lr pr then None else Some (polyscale_problem scalar lr pr ign p)
  end.

(* post-processing: recompute when there are ignored terms, else `energy /= scalar` *)
Definition polyscale_result (orig : hpoly) (k : Qc) (ign : list (list label)) (r : result) : result :=
  match ign with
  | [] => mkRes (r_labels r) (r_rows r) (map (fun e => gen_unscale e k) (r_energies r))
  | _ => mkRes (r_labels r) (r_rows r)
           (map (fun row => henergy orig (row_sample (r_labels r) row)) (r_rows r))
  end.

(* dict keys are distinct *)
Fixpoint dictlike_b (p : hpoly) : bool :=
  match p with
  | [] => true
  | t :: r => negb (existsb (fun u => term_eqb (fst t) (fst u)) r) && dictlike_b r
  end.

(* PolyFixedVariableComposite: child samples hfix fs poly; the fixed columns are
   appended (append_variables), energies kept *)
Definition append_fixed (fs : list (label * Qc)) (r : result) : result :=
  mkRes (r_labels r ++ map fst fs) (map (fun row => row ++ map snd fs) (r_rows r)) (r_energies r).

(* an empty child result is replaced by the single row of the fixed values
   (from_samples_bqm(fixed_variables, bqm=poly)) *)
Definition polyfixed_result (orig : hpoly) (fs : list (label * Qc)) (r : result) : result :=
  match r_rows r, fs with
  | _ :: _, _ => append_fixed fs r
  | [], _ :: _ => mkRes (map fst fs) [map snd fs] [henergy orig (row_sample (map fst fs) (map snd fs))]
  | [], [] => r
  end.

(* a (labels, rows) table says: column j carries the values of variable labels[j];
   `assignment_of` is what a row means *)
Definition assignment_of (ls : list label) (row : list Qc) : list (label * Qc) := combine ls row.

(* ------------------------------------------------------------------ *)
(* the deterministic remainder of the stochastic samplers *)

(* SampleSet.from_samples_bqm((rows, ls), bqm): energies computed from the bqm by label;
   no rows -> the empty sample set over the bqm's variables *)
Definition from_samples_bqm (e : sample -> Qc) (vars ls : list label) (rows : list (list Qc)) : result :=
  match rows with
  | [] => mkRes vars [] []
  | _ => mkRes ls rows (map (fun row => e (row_sample ls row)) rows)
  end.

(* sort_labels=True: the columns are re-ordered to the sorted labels ls' *)
Definition reorder_columns (ls' : list label) (r : result) : result :=
  mkRes ls' (map (reindex_row ls' (r_labels r)) (r_rows r)) (r_energies r).

(* SimulatedAnnealingSampler.sample: spins found for (h, J, offset) = bqm.to_ising(),
   SampleSet.from_samples(spins, SPIN, ising energies), change_vartype(bqm.vartype, offset).
   `rows` are whatever spin rows the annealer ended in. *)
Definition honest_table (ls : list label) (rows : list (list Qc)) (q : poly) : result :=
  mkRes ls rows (map (fun row => energy q (row_sample ls row)) rows).

Definition sa_sample (binary : bool) (vars : list label) (p : poly) (ls : list label)
           (rows : list (list Qc)) : result :=
  if binary then sample_binary_via_ising (honest_table ls rows) vars p
  else sample_same_vartype (honest_table ls rows) p.

(* NullSampler *)
Definition null_sample (vars : list label) : result := mkRes vars [] [].

(* IdentitySampler / RandomSampler: Initialized.parse_initial_states.  None = ValueError. *)
Inductive isg := GNone | GTile | GRandom.

Definition tile_rows (n : nat) (rows : list (list Qc)) : list (list Qc) :=
  let len := length rows in
  concat (repeat rows (n / len)) ++ firstn (n mod len) rows.

(* `extra`: the rows drawn by the 'random' generator (max(0, num_reads - len) of them) *)
Definition identity_rows (g : isg) (n : nat) (init extra : list (list Qc)) : option (list (list Qc)) :=
  match g with
  | GNone => if (length init <? n)%nat then None else Some init
  | GTile => if (length init <? 1)%nat then None
             else if (n <=? length init)%nat then Some init else Some (tile_rows n init)
  | GRandom => Some (init ++ extra)
  end.

Definition identity_sample (g : isg) (num_reads : option nat) (e : sample -> Qc) (vars ls : list label)
           (conv : list Qc -> list Qc) (init extra : list (list Qc)) : option result :=
  if negb (same_label_set vars ls) then None          (* mismatch between variables *)
  else
    let init' := map conv init in
    let n := match num_reads with
             | Some n => n
             | None => match length init' with O => 1%nat | k => k end
             end in
    if (n <? 1)%nat then None
    else match identity_rows g n init' extra with
         | None => None
         | Some rows => Some (from_samples_bqm e vars ls (firstn n rows))
         end.

(* ------------------------------------------------------------------ *)
(* StructureComposite (decorators.bqm_structured) and TrackingComposite *)

Definition adjacent (edges : list (label * label)) (u v : label) : bool :=
  existsb (fun e => same_pair u v (fst e) (snd e)) edges.

Definition structured (nodes : list label) (edges : list (label * label))
           (vars : list label) (quad : list (label * label)) : bool :=
  forallb (fun v => mem_nat v nodes) vars && forallb (fun uv => adjacent edges (fst uv) (snd uv)) quad.

(* None = BinaryQuadraticModelStructureError, raised before the child is called *)
Definition structure_sample {I} (nodes : list label) (edges : list (label * label))
           (vars : list label) (quad : list (label * label)) (child : I -> result) (bqm : I) : option result :=
  if structured nodes edges vars quad then Some (child bqm) else None.

Record tracker (I : Type) := mkTracker { t_inputs : list I; t_outputs : list result }.
Arguments mkTracker {I}. Arguments t_inputs {I}. Arguments t_outputs {I}.

Definition tracking_sample {I} (t : tracker I) (child : I -> result) (inp : I) : tracker I * result :=
  let out := child inp in
  (mkTracker (t_inputs t ++ [inp]) (t_outputs t ++ [out]), out).

(* ------------------------------------------------------------------ *)
(* ExactCQMSolver: the enumerated rows as samples of the CQM (labels = column order) *)
Definition cqm_case_samples (order : list label) (sizes : list nat) (doms : list vdom) : list sample :=
  map (fun row => row_sample order (map (fun z => Q2Qc (inject_Z z)) row)) (all_cases_cqm sizes doms).

(* ------------------------------------------------------------------ *)
(* BinaryQuadraticModel.from_qubo(Q) as built by the sample_qubo mixin: a self-loop (v, v) is a
   linear bias (x*x = x); from_ising(h, J) is ising_poly h J (self-loops in J are rejected) *)
Definition from_qubo (Q : list qterm) : poly :=
  fold_left (fun p t => add_quadratic (fun _ => BINARY) (fst (fst t)) (snd (fst t)) (snd t) p) Q pzero.

(* ------------------------------------------------------------------ *)
(* _all_cases_cqm as written: for indexes in product(range(d) ...): build l by concatenating
   zeros-with-a-one, then one row per row of c1 (or l alone when c1 is empty); the loop is left
   at once when there is no discrete constraint; no combination at all -> c1 *)
Definition onehot_concat (sizes indexes : list nat) : list Z :=
  fold_left (fun l di => l ++ onehot (fst di) (snd di)) (combine sizes indexes) [].

Definition cqm_combinations (sizes : list nat) (c1 : list (list Z)) : list (list Z) :=
  match sizes with
  | [] => []                                              (* if not len(indexes): break *)
  | _ => flat_map (fun indexes =>
                     let l := onehot_concat sizes indexes in
                     match c1 with
                     | [] => [l]
                     | _ => map (fun row => l ++ row) c1
                     end) (product (map (fun d => seq 0 d) sizes))
  end.

Definition all_cases_cqm_code (sizes : list nat) (doms : list vdom) : list (list Z) :=
  let c1 := match doms with [] => [] | _ => mesh (map dom_values doms) end in
  match cqm_combinations sizes c1 with
  | [] => c1
  | combos => combos
  end.
