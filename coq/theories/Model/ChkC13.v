(* C13 correspondence: run the model on the same operation history as the
   implementation and compare, after every operation, the outcome, the three
   internal fields exposed by Variables.__reduce__, the label sequence and the
   answers of count/index for a probe alphabet and of v[a:b:s] for the case's slice probes. *)
From Coq Require Import List ZArith Bool Arith.
From Dimod Require Import Base.Util Model.Vars.
From Dimod Require Export Gen.Gen_VarsCtor.
Import ListNotations.

Inductive op :=
| OAppend (l : option lab) (permissive : bool)
| OExtend (ls : list lab) (permissive : bool)
| OPop
| ORelabel (m : list (lab * lab))
| ORelabelInts
| ORemove (l : lab)
| OClear
(* the history continues on another object built from the current one *)
| OCopy                              (* copy() / copy.copy / deepcopy / pickle round trip / Variables(v): same three fields *)
| OCtor (ls : list lab)              (* Variables(iterable) / v[:]: the labels appended one by one (permissive) to an empty object *)
| ORangeCtor (a b s : Z).            (* Variables(range(a, b, s)), s <> 0: fast path or generic extension, as cyVariables.__init__ dispatches *)

(* what the implementation showed after the call *)
Record seen := mkSeen {
  s_ok : bool;                       (* false: the call raised *)
  s_ret : option lab;                (* label returned by _append/_pop *)
  s_i2l : list (nat * lab);
  s_l2i : list (lab * nat);
  s_stop : nat;
  s_list : list lab;
  s_count : list bool;               (* count(p) for p in probes *)
  s_index : list (option nat);       (* index(p) or None when it raises *)
  s_slices : list (option (list lab)) (* list(v[a:b:s]) for the case's slice probes, None when it raises *)
}.

Definition sliceq := (option Z * option Z * option Z)%type.
Record case := mkCase { c_init : list lab; c_probes : list lab; c_slices : list sliceq; c_steps : list (op * seen) }.

Definition slice_of (v : vars) (q : sliceq) : option (list lab) :=
  let '(a, b, s) := q in
  match getitem_slice v a b s with Ok w => Some (to_list w) | Err => None end.

Definition init_vars (ls : list lab) : vars :=
  match extend empty ls true with Ok v => v | Err => empty end.
Definition ctor_range (z : Z) : vars := mkVars [] [] (Z.to_nat z).
(* cyVariables.__init__ on a range object; the fast path's condition and value are generated from the source
   (Gen/Gen_VarsCtor.v, translators/vars_ctor.py) *)
Definition ctor_of_range (a b s : Z) : vars :=
  if gen_ctor_fast a b s then ctor_range (gen_ctor_stop b) else init_vars (map LI (zrange a b s)).

Definition step (v : vars) (o : op) : vars * bool * option lab :=
  match o with
  | OAppend l p => match append v l p with Ok (v', r) => (v', true, Some r) | Err => (v, false, None) end
  | OExtend ls p => match extend v ls p with Ok v' => (v', true, None) | Err => (extend_partial v ls p, false, None) end
  | OPop => match pop v with Ok (v', r) => (v', true, Some r) | Err => (v, false, None) end
  | ORelabel m => match relabel v m with Ok v' => (v', true, None) | Err => (v, false, None) end
  | ORelabelInts => (fst (relabel_as_integers v), true, None)
  | ORemove l => match remove v l with Ok v' => (v', true, None) | Err => (v, false, None) end
  | OClear => (empty, true, None)
  | OCopy => (v, true, None)
  | OCtor ls => (init_vars ls, true, None)
  | ORangeCtor a b s => (ctor_of_range a b s, true, None)
  end.

Definition opt_lab_eqb := option_eqb lab_eqb.

Definition nmap_eqb (a b : list (nat * lab)) : bool :=
  Nat.eqb (length a) (length b) && forallb (fun kv => opt_lab_eqb (nget (fst kv) a) (Some (snd kv))) b.
Definition lmap_eqb (a b : list (lab * nat)) : bool :=
  Nat.eqb (length a) (length b) && forallb (fun kv => option_eqb Nat.eqb (lget (fst kv) a) (Some (snd kv))) b.

Definition agrees (probes : list lab) (slices : list sliceq) (v : vars) (ok : bool) (ret : option lab) (s : seen) : bool :=
  Bool.eqb ok (s_ok s)
  && (if ok then opt_lab_eqb ret (s_ret s) else true)
  && Nat.eqb (stop v) (s_stop s)
  && nmap_eqb (i2l v) (s_i2l s) && lmap_eqb (l2i v) (s_l2i s)
  && list_eqb lab_eqb (to_list v) (s_list s)
  && list_eqb Bool.eqb (map (count v) probes) (s_count s)
  && list_eqb (option_eqb Nat.eqb) (map (index v) probes) (s_index s)
  (* property oracle on the implementation's own answers: it behaves like the list it shows *)
  && list_eqb Bool.eqb (map (fun p => mem_lab p (s_list s)) probes) (s_count s)
  && list_eqb (option_eqb Nat.eqb) (map (fun p => list_index p (s_list s)) probes) (s_index s)
  && nodup_labs (s_list s)
  && list_eqb (option_eqb (list_eqb lab_eqb)) (map (slice_of v) slices) (s_slices s).

Fixpoint run (probes : list lab) (slices : list sliceq) (v : vars) (steps : list (op * seen)) : bool :=
  match steps with
  | [] => true
  | (o, s) :: r =>
      let '(v', ok, ret) := step v o in
      agrees probes slices v' ok ret s && run probes slices v' r
  end.

Definition check (c : case) : bool := run (c_probes c) (c_slices c) (init_vars (c_init c)) (c_steps c).
