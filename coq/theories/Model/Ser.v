(* C11 - serialisation cores, executable, no proofs here.
   - the packing decision of SampleSet.to_serializable (sampleset.py) and its
     inverse in from_serializable, on top of Comb.pack_row/unpack_row
   - label (de)serialisation (variables.py serialize_variable / deserialize_variable,
     with the tuple -> list step of a JSON text in between)
   - serialize_ndarray's _replace_float_with_int and deserialize_ndarray
     (serialization/utils.py) on nested lists of floats
   - the vector form of a BQM (to_numpy_vectors / from_numpy_vectors) on index labels *)
From Coq Require Import List ZArith NArith QArith Qcanon Bool Arith String.
From Dimod Require Import Base.Util Model.Poly Model.Comb.
Import ListNotations.
Open Scope Qc_scope.

(* ------------------------------------------------------------------ *)
(* samples *)

Definition gt0 (x : Qc) : bool := negb (Qle_bool x 0).
Definition nonzero (x : Qc) : bool := negb (Qc_eqb x 0).

(* to_serializable (as repaired): only SPIN and BINARY sample sets are packed *)
Definition packs (vt : vartype) (pack : bool) : bool :=
  pack && match vt with SPIN | BINARY => true | _ => false end.

(* the previous rule: everything but DISCRETE (the same enum member as INTEGER) *)
Definition packs_unguarded (vt : vartype) (pack : bool) : bool :=
  pack && match vt with INTEGER => false | _ => true end.

(* BINARY samples of integer/bool dtype go to np.packbits as they are (non-zero = 1);
   everything else is packed as `samples > 0` *)
Definition to_bit (vt : vartype) (int_dtype : bool) (x : Qc) : bool :=
  match vt with
  | BINARY => if int_dtype then nonzero x else gt0 x
  | _ => gt0 x
  end.

(* from_serializable: unpacked bits as 0/1, then `*2 - 1` when the vartype is SPIN *)
Definition of_bit (vt : vartype) (b : bool) : Qc :=
  match vt with
  | SPIN => if b then 1 else - (1)
  | _ => if b then 1 else 0
  end.

Inductive sdata :=
| Packed (words : list (list N))
| Raw (rows : list (list Qc)).

Definition ser_with (rule : vartype -> bool -> bool)
  (vt : vartype) (int_dtype pack : bool) (rows : list (list Qc)) : sdata :=
  if rule vt pack then Packed (map (fun r => pack_row (map (to_bit vt int_dtype) r)) rows)
  else Raw rows.

Definition ser_samples := ser_with packs.
Definition ser_samples_unguarded := ser_with packs_unguarded.

Definition deser_samples (vt : vartype) (n : nat) (d : sdata) : list (list Qc) :=
  match d with
  | Raw rows => rows
  | Packed ws => map (fun w => map (of_bit vt) (unpack_row w n)) ws
  end.

Definition valid_value (vt : vartype) (x : Qc) : Prop :=
  match vt with
  | BINARY => x = 0 \/ x = 1
  | SPIN => x = 1 \/ x = - (1)
  | _ => True
  end.

Definition valid_for (vt : vartype) (n : nat) (rows : list (list Qc)) : Prop :=
  Forall (fun r => List.length r = n /\ Forall (valid_value vt) r) rows.

Definition valid_valueb (vt : vartype) (x : Qc) : bool :=
  match vt with
  | BINARY => Qc_eqb x 0 || Qc_eqb x 1
  | SPIN => Qc_eqb x 1 || Qc_eqb x (- (1))
  | _ => true
  end.

Definition rows_eqb (a b : list (list Qc)) : bool := list_eqb (list_eqb Qc_eqb) a b.
Definition words_eqb (a b : list (list N)) : bool := list_eqb (list_eqb N.eqb) a b.

Definition sdata_eqb (a b : sdata) : bool :=
  match a, b with
  | Packed x, Packed y => words_eqb x y
  | Raw x, Raw y => rows_eqb x y
  | _, _ => false
  end.

(* ------------------------------------------------------------------ *)
(* labels: ints, floats, strings and (nested) tuples  <->  JSON values *)

Inductive lbl :=
| LInt (z : Z)
| LFlt (num : Z) (den : positive)      (* a float label, kept as an atom *)
| LStr (s : string)
| LTup (l : list lbl).

Inductive jv :=
| JInt (z : Z)
| JFlt (num : Z) (den : positive)
| JStr (s : string)
| JList (l : list jv).

(* serialize_variable followed by the JSON text (tuples are written as lists) *)
Fixpoint serialize_variable (v : lbl) : jv :=
  match v with
  | LInt z => JInt z
  | LFlt n d => JFlt n d
  | LStr s => JStr s
  | LTup l => JList (map serialize_variable l)
  end.

(* deserialize_variable: every non-string collection becomes a tuple, recursively *)
Fixpoint deserialize_variable (j : jv) : lbl :=
  match j with
  | JInt z => LInt z
  | JFlt n d => LFlt n d
  | JStr s => LStr s
  | JList l => LTup (map deserialize_variable l)
  end.

(* the former BQM.from_serializable: only the top level was turned into a tuple,
   inner lists stayed lists (unhashable -> the call raised) *)
Fixpoint jv_depth (j : jv) : nat :=
  match j with
  | JList l => S (fold_right Nat.max 0%nat (map jv_depth l))
  | _ => 0%nat
  end.

Fixpoint lbl_eqb (a b : lbl) : bool :=
  match a, b with
  | LInt x, LInt y => Z.eqb x y
  | LFlt n d, LFlt m e => Z.eqb n m && Pos.eqb d e
  | LStr s, LStr t => String.eqb s t
  | LTup l, LTup m =>
      (fix go (l m : list lbl) : bool :=
         match l, m with
         | [], [] => true
         | x :: xs, y :: ys => lbl_eqb x y && go xs ys
         | _, _ => false
         end) l m
  | _, _ => false
  end.

Fixpoint jv_eqb (a b : jv) : bool :=
  match a, b with
  | JInt x, JInt y => Z.eqb x y
  | JFlt n d, JFlt m e => Z.eqb n m && Pos.eqb d e
  | JStr s, JStr t => String.eqb s t
  | JList l, JList m =>
      (fix go (l m : list jv) : bool :=
         match l, m with
         | [], [] => true
         | x :: xs, y :: ys => jv_eqb x y && go xs ys
         | _, _ => false
         end) l m
  | _, _ => false
  end.

(* ------------------------------------------------------------------ *)
(* _replace_float_with_int on the nested list of a float array *)

Inductive jnum := JI (z : Z) | JF (q : Qc).

Inductive farr := FRow (xs : list Qc) | FNest (subs : list farr).
Inductive jarr := JRow (xs : list jnum) | JNest (subs : list jarr).

(* float.is_integer() / int(a) on a canonical rational *)
Definition is_integer (q : Qc) : bool := Pos.eqb (Qden (this q)) 1.
Definition to_int (q : Qc) : Z := Qnum (this q).

Definition replace_num (q : Qc) : jnum := if is_integer q then JI (to_int q) else JF q.

Fixpoint replace_float_with_int (a : farr) : jarr :=
  match a with
  | FRow xs => JRow (map replace_num xs)
  | FNest subs => JNest (map replace_float_with_int subs)
  end.

(* deserialize_ndarray: np.asarray(data, dtype=<float type>) turns ints back into floats *)
Definition jnum_val (j : jnum) : Qc :=
  match j with JI z => Q2Qc (inject_Z z) | JF q => q end.

Fixpoint jarr_val (j : jarr) : farr :=
  match j with
  | JRow xs => FRow (map jnum_val xs)
  | JNest subs => FNest (map jarr_val subs)
  end.

Definition jnum_eqb (a b : jnum) : bool :=
  match a, b with
  | JI x, JI y => Z.eqb x y
  | JF x, JF y => Qc_eqb x y
  | _, _ => false
  end.

Fixpoint jarr_eqb (a b : jarr) : bool :=
  match a, b with
  | JRow x, JRow y => list_eqb jnum_eqb x y
  | JNest l, JNest m =>
      (fix go (l m : list jarr) : bool :=
         match l, m with
         | [], [] => true
         | x :: xs, y :: ys => jarr_eqb x y && go xs ys
         | _, _ => false
         end) l m
  | _, _ => false
  end.

Fixpoint farr_eqb (a b : farr) : bool :=
  match a, b with
  | FRow x, FRow y => list_eqb Qc_eqb x y
  | FNest l, FNest m =>
      (fix go (l m : list farr) : bool :=
         match l, m with
         | [], [] => true
         | x :: xs, y :: ys => farr_eqb x y && go xs ys
         | _, _ => false
         end) l m
  | _, _ => false
  end.

(* ------------------------------------------------------------------ *)
(* the vector form of a BQM over index labels 0..n-1:
   ldata[i] = linear bias of variable i; (irow, icol, qdata) one entry per interaction *)

Record bvec := mkBvec { v_lin : list Qc; v_quad : list (nat * nat * Qc); v_off : Qc }.

Definition to_vectors (n : nat) (p : poly) : bvec :=
  mkBvec (map (lin_coeff (p_lin p)) (seq 0 n))
         (flat_map (fun u => flat_map (fun v =>
              if (u <? v)%nat && has_pair (p_quad p) u v then [(u, v, quad_coeff (p_quad p) u v)] else [])
              (seq 0 n)) (seq 0 n))
         (p_off p).

Definition from_vectors (b : bvec) : poly :=
  mkPoly (v_off b) (combine (seq 0 (List.length (v_lin b))) (v_lin b)) (v_quad b).
