(* C17 - quadratic_assignment, the construction GENERATED from the source (Gen/Gen_Qap.v by
   translators/qap_construction.py): the calls obj.set_quadratic(u, v, bias) are replayed, in loop order, with
   Model/Poly.v's set_quadratic (remove the interaction, then store the new bias: the last write of an unordered
   pair survives) on an empty objective; add_discrete(cells) is the constraint sum(cells) == 1.
   Executable; no proofs here (Proofs/QapGenFacts.v). *)
From Coq Require Import List ZArith QArith Qcanon Bool Arith.
From Dimod Require Import Base.Util Model.Poly Model.Knap Model.Qap Gen.Gen_Qap.
Import ListNotations.
Open Scope Qc_scope.

Definition qapg_step (p : poly) (w : qterm) : poly := set_quadratic (fst (fst w)) (snd (fst w)) (snd w) p.
Definition qapg_replay (ws : list qterm) : poly := fold_left qapg_step ws (mkPoly 0 [] []).

Definition qapg_objective (n : nat) (F D : matrix) : poly := qapg_replay (gq_writes n (mget F) (mget D)).

Definition qapg_constraints (n : nat) : list lincon :=
  map (fun i => mkLC (map (fun c => (c, 1)) (gq_row_cells n i)) (- (1)) SEq) (seq 0 n)
  ++ map (fun j => mkLC (gq_col_terms n j) gq_col_const gq_col_sense) (seq 0 n).

Definition qapg_model (n : nat) (F D : matrix) : lcqm := mkLCQM (qapg_objective n F D) (qapg_constraints n).

(* the same loop over cells p = i*n+j, q = k*n+l (used by the proofs; proved equal to gq_writes) *)
Definition writes2 (N : nat) (c : nat -> nat -> Qc) : list qterm :=
  flat_map (fun p => flat_map (fun q => if (p =? q)%nat then [] else [(p, q, c p q)]) (seq 0 N)) (seq 0 N).
Definition cell_coef (n : nat) (F D : nat -> nat -> Qc) (p q : nat) : Qc :=
  gq_coef F D (p / n) (p mod n) (q / n) (q mod n).
