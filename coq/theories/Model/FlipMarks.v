(* C02 / C03, the Python / Cython level code around the C++ kernels:

   (A) dimod/quadratic/quadratic_model.py  QuadraticModel.flip_variable  and
       dimod/binary/binary_quadratic_model.py  BinaryQuadraticModel.flip_variable
       (the same two loops; they differ only in where the vartype comes from and in the
       exception of the last branch) on the plain polynomial (bag of terms) of Model/Poly.v;

   (B) the discrete-marker bookkeeping of the in-place CQM fixing path
       dimod/constrained/cyconstrained.pyx  fix_variable / fix_variables(inplace=True)
       on the index-level constrained model of Model/Expr.v, and what
       dimod/constrained/cyexpression.pyx is_discrete reports per constraint.

   Executable definitions only; the proofs are in Proofs/FlipMarksFacts.v. *)
From Coq Require Import List ZArith QArith Qcanon Bool Arith.
From Dimod Require Import Base.Util Model.Poly Model.FixPy Model.Expr Model.FixCopy Model.VartypeOps.
Import ListNotations.
Open Scope Qc_scope.

(* ================================================================== *)
(* (A) flip_variable of QM / BQM                                        *)
(* ================================================================== *)

(* self.iter_neighborhood(v)   (cyqmbase_template.pyx.pxi)
       it = self.base.cbegin_neighborhood(vi)
       while it != self.base.cend_neighborhood(vi):
           yield self.variables.at(deref(it).v), as_numpy_float(deref(it).bias)
           inc(it)
   walks the neighbourhood vector of v: every neighbour ONCE, with the bias stored for the
   pair.  On the bag representation the stored bias of the pair {u,v} is the SUM of the bag's
   terms on that pair (Poly.quad_coeff); the neighbours are the distinct other ends of the
   terms that mention v (FixPy.nbhd gives one entry per TERM; here the entries are merged).
   The order (ascending index in the code) is irrelevant for the resulting coefficients.
   The bias is read when the generator is resumed, i.e. from the LIVE model: see the steps. *)
Definition nbr_labels (v : label) (q : list qterm) : list label :=
  nodup Nat.eq_dec (map fst (nbhd v q)).

(*  SPIN branch, loop body:
        for u, bias in self.iter_neighborhood(v):
            self.set_quadratic(u, v, -1*bias)
    set_quadratic REPLACES the bias of the pair (abc.h set_quadratic, u != v:
    asymmetric_quadratic_ref(u, v) = bias; asymmetric_quadratic_ref(v, u) = bias), which is
    Poly.set_quadratic (all terms of the pair dropped, one term added).  It neither inserts nor
    removes an entry of v's neighbourhood (the pair exists), so the iteration is undisturbed. *)
Definition flip_spin_step (v : label) (acc : poly) (u : label) : poly :=
  let bias := quad_coeff (p_quad acc) u v in
  set_quadratic u v (- (1) * bias) acc.

(*  BINARY branch, loop body:
        for u, bias in self.iter_neighborhood(v):
            self.set_quadratic(u, v, -1*bias)
            self.add_linear(u, bias)
    u may be a variable of ANY vartype (INTEGER/REAL neighbours of a QM included). *)
Definition flip_binary_step (v : label) (acc : poly) (u : label) : poly :=
  let bias := quad_coeff (p_quad acc) u v in
  add_linear u bias (set_quadratic u v (- (1) * bias) acc).

(*  quadratic_model.py QuadraticModel.flip_variable:
        vartype = self.vartype(v)
        if vartype is Vartype.SPIN:
            for u, bias in self.iter_neighborhood(v):
                self.set_quadratic(u, v, -1*bias)
            self.set_linear(v, -1*self.get_linear(v))
        elif vartype is Vartype.BINARY:
            for u, bias in self.iter_neighborhood(v):
                self.set_quadratic(u, v, -1*bias)
                self.add_linear(u, bias)
            self.offset += self.get_linear(v)
            self.set_linear(v, -1*self.get_linear(v))
        else:
            raise ValueError(f"can only flip SPIN and BINARY variables, ...")      (None)
    vt is self.vartype(v).  A SPIN/BINARY variable of the real model never has a self-loop
    (abc.h add_quadratic folds it into the offset / the linear bias), so v is not among its own
    neighbours; on a bag WITH a term (v,v,b) the real set_quadratic(v,v,.) would throw
    domain_error - the theorems carry the hypothesis that no term is a self-loop of v. *)
Definition py_flip_variable (vt : vartype) (v : label) (p : poly) : option poly :=
  match vt with
  | SPIN =>
      let p1 := fold_left (flip_spin_step v) (nbr_labels v (p_quad p)) p in
      Some (set_linear v (- (1) * lin_coeff (p_lin p1) v) p1)
  | BINARY =>
      let p1 := fold_left (flip_binary_step v) (nbr_labels v (p_quad p)) p in
      let p2 := add_offset (lin_coeff (p_lin p1) v) p1 in
      Some (set_linear v (- (1) * lin_coeff (p_lin p2) v) p2)
  | _ => None
  end.

(*  binary_quadratic_model.py BinaryQuadraticModel.flip_variable: the same two branches with
    `self.vartype` (the model-wide vartype) in place of `self.vartype(v)`; the last branch is
    `raise RuntimeError("unexpected vartype")` and is unreachable (a BQM is SPIN or BINARY). *)
Definition py_bqm_flip_variable (model_vt : vartype) (v : label) (p : poly) : option poly :=
  py_flip_variable model_vt v p.

(* the per-TERM variant (what the loop would do if iter_neighborhood yielded one entry per bag
   term): NOT the code; kept executable to show why the merged form matters (set_quadratic
   replaces, so a second entry for the same neighbour would overwrite the first) *)
Definition py_flip_spin_per_term (v : label) (p : poly) : poly :=
  let p1 := fold_left (fun acc ub => set_quadratic (fst ub) v (- (1) * snd ub) acc) (nbhd v (p_quad p)) p in
  set_linear v (- (1) * lin_coeff (p_lin p1) v) p1.

(* ================================================================== *)
(* (B) the marker loop of the in-place CQM fix                          *)
(* ================================================================== *)

Definition mc_set_mark (k : mcon) (b : bool) : mcon :=
  mkMC (mc_e k) (mc_sense k) (mc_rhs k) (mc_weight k) (mc_pen k) b.

(* expression.h  has_variable(v): return indices_.count(v); *)
Definition mc_has_variable (v : nat) (k : mcon) : bool :=
  match idx_find v (e_idx (mc_e k)) with Some _ => true | None => false end.

(*      for i in range(self.cppcqm.num_constraints()):
            if (self.cppcqm.constraint_ref(i).marked_discrete()
                    and self.cppcqm.constraint_ref(i).has_variable(vi)):
                self.cppcqm.constraint_ref(i).mark_discrete(False) *)
Definition cy_clear_marks (v : nat) (q : mcqm) : mcqm :=
  mkM (m_info q) (m_obj q)
      (map (fun k => if mc_mark k && mc_has_variable v k then mc_set_mark k false else k) (m_cons q)).

Definition is_binary (t : vartype) : bool := match t with BINARY => true | _ => false end.

(* the guard of the marker loop:  self.cppcqm.vartype(vi) == cppVartype.BINARY and assignment
   (`assignment` is a C double: true iff non-zero) *)
Definition cy_marks_guard (v : nat) (a : Qc) (q : mcqm) : bool :=
  is_binary (cq_vartype q v) && negb (Qc_eqb a 0).

(*  cyconstrained.pyx fix_variable(self, v, bias_type assignment):
        cdef Py_ssize_t vi = self.variables.index(v)
        if self.cppcqm.vartype(vi) == cppVartype.BINARY and assignment:
            # we may be affecting discrete constraints, so let's update the markers
            <the loop above>
        self.cppcqm.fix_variable(vi, assignment)           (Expr.cqm_fix_variable)
        self.variables._remove(v)                          (labels: not part of this model) *)
Definition cy_cqm_fix_variable (v : nat) (a : Qc) (q : mcqm) : mcqm :=
  cqm_fix_variable v a (if cy_marks_guard v a q then cy_clear_marks v q else q).

(*  cyconstrained.pyx fix_variables(self, fixed, *, bint inplace = True):
        if inplace:
            for v, assignment in fixed:
                self.fix_variable(v, assignment)
            return self
    every label is looked up in the CURRENT model: FixCopy.shift_fixings turns the list of
    ORIGINAL model indices into the indices the successive calls use. *)
Definition cy_cqm_fix_variables_inplace (fixed : list (nat * Qc)) (q : mcqm) : mcqm :=
  fold_left (fun q f => cy_cqm_fix_variable (fst f) (snd f) q) (shift_fixings fixed) q.

(*  cyexpression.pyx  is_discrete(self):
        constraint = self.constraint()
        return constraint.marked_discrete() and constraint.is_onehot()
    per constraint, in constraint order (is_onehot reads the vartypes of the CURRENT model):
    what  [cqm.constraints[l].lhs.is_discrete() for l in cqm.constraint_labels]  shows and what
    constrained.py DiscreteView (`cqm.discrete`) iterates. *)
Definition discrete_view (q : mcqm) : list bool :=
  map (fun k => mc_mark k && vo_is_onehot (cq_vartype q) k) (m_cons q).

(* the raw markers, marked_discrete() per constraint *)
Definition marks_view (q : mcqm) : list bool := map mc_mark (m_cons q).
(* is_onehot() per constraint *)
Definition onehot_view (q : mcqm) : list bool := map (vo_is_onehot (cq_vartype q)) (m_cons q).

(* the list of ORIGINAL fixings that trigger the marker loop on constraint k of the ORIGINAL
   model q: a BINARY variable of the constraint fixed to a non-zero value *)
Definition mark_hit (q : mcqm) (fixed : list (nat * Qc)) (k : mcon) : bool :=
  existsb (fun f => is_binary (cq_vartype q (fst f)) && negb (Qc_eqb (snd f) 0) && mc_has_variable (fst f) k) fixed.
