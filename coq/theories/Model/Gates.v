(* C17 - gate generators (generators/gates.py), independent-set family (generators/graph.py).
   The coefficient tables come from Gen/Gen_Gates.v, which translators/gates_tables.py
   regenerates from the source before every build.  Executable; no proofs here. *)
From Coq Require Import List ZArith QArith Qcanon Bool Arith.
From Dimod Require Import Base.Util Model.Poly Model.Comb Gen.Gen_Gates.
Import ListNotations.

(* ---------- energy over Z of a 0/1 assignment given by argument position ---------- *)
Definition bit (x : list bool) (i : nat) : Z := if nth i x false then 1%Z else 0%Z.

Definition gate_energy (lin : list (nat * Z)) (quad : list (nat * nat * Z)) (x : list bool) : Z :=
  (fold_right (fun t acc => snd t * bit x (fst t) + acc) 0 lin
   + fold_right (fun t acc => snd t * bit x (fst (fst t)) * bit x (snd (fst t)) + acc) 0 quad)%Z.

Definition and_energy := gate_energy and_gate_lin and_gate_quad.
Definition or_energy := gate_energy or_gate_lin or_gate_quad.
Definition halfadder_energy := gate_energy halfadder_gate_lin halfadder_gate_quad.
Definition fulladder_energy := gate_energy fulladder_gate_lin fulladder_gate_quad.
Definition xor_energy := gate_energy xor_gate_lin xor_gate_quad.
(* minimised over the documented auxiliary (4th argument) *)
Definition xor_min_energy (x : list bool) : Z :=
  Z.min (xor_energy (x ++ [false])) (xor_energy (x ++ [true])).

(* ---------- documented truth tables ---------- *)
Definition and_ok (x : list bool) : bool :=
  match x with [a; b; o] => Bool.eqb o (a && b) | _ => false end.
Definition or_ok (x : list bool) : bool :=
  match x with [a; b; o] => Bool.eqb o (a || b) | _ => false end.
Definition xor_ok (x : list bool) : bool :=
  match x with [a; b; o] => Bool.eqb o (xorb a b) | _ => false end.
Definition halfadder_ok (x : list bool) : bool :=
  match x with [a; b; s; c] => Bool.eqb s (xorb a b) && Bool.eqb c (a && b) | _ => false end.
Definition b2n (b : bool) : nat := if b then 1 else 0.
Definition fulladder_ok (x : list bool) : bool :=
  match x with
  | [a; b; c; s; k] => (b2n a + b2n b + b2n c =? b2n s + 2 * b2n k)%nat
  | _ => false
  end.

(* the decision evaluated on every row *)
Definition row_ok (ok : list bool -> bool) (E : list bool -> Z) (x : list bool) : bool :=
  if ok x then (E x =? 0)%Z else (1 <=? E x)%Z.
Definition table_ok (n : nat) (ok : list bool -> bool) (E : list bool -> Z) : bool :=
  forallb (row_ok ok E) (all_bitvectors n).

(* ---------- the generated BQM as a polynomial over labels = argument positions ---------- *)
Definition z2q (n : Z) : Qc := Q2Qc (inject_Z n).
Definition gate_poly (lin : list (nat * Z)) (quad : list (nat * nat * Z)) (s : Qc) : poly :=
  mkPoly 0%Qc (map (fun t => (fst t, (s * z2q (snd t))%Qc)) lin)
    (map (fun t => (fst (fst t), snd (fst t), (s * z2q (snd t))%Qc)) quad).

Definition sample_of_bits (x : list bool) : sample := fun i => if nth i x false then 1%Qc else 0%Qc.

(* ---------- multiplication circuit: value encoded by little-endian bits ---------- *)
Fixpoint bits_val (x : list bool) : Z :=
  match x with [] => 0%Z | b :: r => ((if b then 1 else 0) + 2 * bits_val r)%Z end.

(* ---------- independent-set family ---------- *)
(* maximum_weight_independent_set: strength on every edge, minus the weight on every node *)
Definition mwis_poly (s : Qc) (edges : list (label * label)) (weights : list (label * Qc)) : poly :=
  mkPoly 0%Qc (map (fun t => (fst t, (- snd t)%Qc)) weights)
    (map (fun e => (fst e, snd e, s)) edges).

Definition b2qc (b : bool) : Qc := if b then 1%Qc else 0%Qc.
Definition sel_sample (sel : label -> bool) : sample := fun v => b2qc (sel v).
(* number of listed edges with both ends selected; total selected weight *)
Definition edges_inside (sel : label -> bool) (edges : list (label * label)) : Qc :=
  qsum (map (fun e => b2qc (sel (fst e) && sel (snd e))) edges).
Definition selected_weight (sel : label -> bool) (weights : list (label * Qc)) : Qc :=
  qsum (map (fun t => if sel (fst t) then snd t else 0%Qc) weights).

(* weights as the generator sees them: 1 for every end of an edge, overridden (last wins,
   new nodes appended) by the node list *)
Fixpoint set_weight (v : label) (w : Qc) (ws : list (label * Qc)) : list (label * Qc) :=
  match ws with
  | [] => [(v, w)]
  | t :: r => if (fst t =? v)%nat then (v, w) :: r else t :: set_weight v w r
  end.
Definition edge_nodes (edges : list (label * label)) : list label :=
  fold_left (fun acc e =>
               let acc1 := if existsb (Nat.eqb (fst e)) acc then acc else acc ++ [fst e] in
               if existsb (Nat.eqb (snd e)) acc1 then acc1 else acc1 ++ [snd e]) edges [].
Definition effective_weights (edges : list (label * label)) (nodes : list (label * Qc)) : list (label * Qc) :=
  fold_left (fun acc t => set_weight (fst t) (snd t) acc) nodes (map (fun v => (v, 1%Qc)) (edge_nodes edges)).
Definition qmax (a b : Qc) : Qc := if Qle_bool a b then b else a.
Definition max_weight (ws : list (label * Qc)) : Qc :=
  match ws with [] => 1%Qc | t :: r => fold_left (fun m u => qmax m (snd u)) r (snd t) end.
