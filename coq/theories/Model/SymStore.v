(* C06, second part: in-place operators over a store of objects, quicksum as a statement,
   and comparison objects (dimod/sym.py) as they reach ConstrainedQuadraticModel.add_constraint.
   No proofs in this file. *)
From Coq Require Import List ZArith QArith Qcanon Bool Arith.
From Dimod Require Import Base.Util Model.Poly Model.Sym.
Import ListNotations.
Open Scope Qc_scope.

(* ---------- a store of live objects ---------- *)
Definition store := list val.

Inductive iop := IAdd | ISub | IMul | IDiv.

Definition pure_op (o : iop) : val -> val -> res val :=
  match o with IAdd => v_add | ISub => v_sub | IMul => v_mul | IDiv => v_div end.

Fixpoint set_nth {A : Type} (i : nat) (x : A) (l : list A) : list A :=
  match l, i with
  | [], _ => []
  | _ :: t, O => x :: t
  | h :: t, S k => h :: set_nth k x t
  end.

(* `st[i] op= st[j]`: the name i afterwards refers to the value of the pure operator (either
   because the receiver was updated in place or because __iop__ returned NotImplemented and
   Python rebound the name to the result of __op__); a rejected operation changes nothing *)
Definition exec_inplace (o : iop) (i j : nat) (st : store) : res store :=
  match nth_error st i, nth_error st j with
  | Some a, Some b => match pure_op o a b with
                      | Ok v => Ok (set_nth i v st)
                      | Err e => Err e
                      end
  | _, _ => Err ETypeError
  end.

(* `st.append(quicksum([st[k] for k in args]))` *)
Definition exec_quicksum (args : list nat) (st : store) : res store :=
  match mapM (fun k => match nth_error st k with Some v => Ok v | None => Err ETypeError end) args with
  | Ok vs => match v_quicksum vs with Ok v => Ok (st ++ [v]) | Err e => Err e end
  | Err e => Err e
  end.

(* ---------- comparison objects ---------- *)
Inductive csense := CLe | CGe | CEq.

Definition csense_eqb (a b : csense) : bool :=
  match a, b with CLe, CLe | CGe, CGe | CEq, CEq => true | _, _ => false end.

(* `3 >= x` is answered by the reflected operator of the model: x <= 3 *)
Definition flip (s : csense) : csense := match s with CLe => CGe | CGe => CLe | CEq => CEq end.

Record cmp := mkCmp { cm_lhs : mdl; cm_sense : csense; cm_rhs : Qc }.

(* BQM / QM define __le__, __ge__, __eq__ for a NUMBER on the other side only; two models
   (or a view on either side) are a TypeError for <= and >=.  (`==` between two models is
   is_equal / identity and yields a bool, two numbers compare as numbers: neither is a
   Comparison and both are outside this function's domain - the harness does not generate them.) *)
Definition v_cmp (a : val) (s : csense) (b : val) : res cmp :=
  match a, b with
  | VMdl m, VNum q => Ok (mkCmp m s q)
  | VNum q, VMdl m => Ok (mkCmp m (flip s) q)
  | _, _ => Err ETypeError
  end.

Definition eval_cmp (a : sx) (s : csense) (b : sx) : res cmp :=
  bind (eval a) (fun x => bind (eval b) (fun y => v_cmp x s y)).

(* the set of samples a comparison accepts *)
Definition sat (s : csense) (x r : Qc) : Prop :=
  match s with CLe => x <= r | CGe => r <= x | CEq => x = r end.

Definition sat_b (s : csense) (x r : Qc) : bool :=
  match s with CLe => Qle_bool x r | CGe => Qle_bool r x | CEq => Qc_eqb x r end.

(* add_constraint(comparison): add_constraint_from_comparison insists on a numeric rhs and a
   BQM / QM lhs and stores lhs, sense and rhs unchanged (the constraint's lhs is a view with the
   variables, vartypes, bounds and biases of the model) *)
Definition stored_constraint (c : cmp) : mdl * csense * Qc := (to_qm (cm_lhs c), cm_sense c, cm_rhs c).
