(* C17 correspondence: generated BQMs against the translated gate tables, the
   combinations model and the independent-set model; truth-table / product
   decisions evaluated on the energies the implementation reported. *)
From Coq Require Import List ZArith QArith Qcanon Bool Arith.
From Dimod Require Import Base.Util Model.Poly Model.Comb Gen.Gen_Gates Gen.Gen_Combinations Gen.Gen_Graph Model.Gates Model.Knap Model.QKnap Gen.Gen_Knap Model.MultCircuit Gen.Gen_MultWiring Model.MultWiring Model.Qap Gen.Gen_Qap Model.QapGen Model.Magic Gen.Gen_Magic Model.MagicGen Model.Sat Gen.Gen_Sat.
From Dimod Require Model.RandStruct.
Import ListNotations.
Open Scope Qc_scope.

Inductive gate := GAnd | GOr | GXor | GHalf | GFull.

Definition gate_lin (g : gate) := match g with
  | GAnd => and_gate_lin | GOr => or_gate_lin | GXor => xor_gate_lin
  | GHalf => halfadder_gate_lin | GFull => fulladder_gate_lin end.
Definition gate_quad (g : gate) := match g with
  | GAnd => and_gate_quad | GOr => or_gate_quad | GXor => xor_gate_quad
  | GHalf => halfadder_gate_quad | GFull => fulladder_gate_quad end.
Definition gate_nargs (g : gate) := match g with
  | GAnd => and_gate_nargs | GOr => or_gate_nargs | GXor => xor_gate_nargs
  | GHalf => halfadder_gate_nargs | GFull => fulladder_gate_nargs end.
Definition gate_ok (g : gate) := match g with
  | GAnd => and_ok | GOr => or_ok | GXor => xor_ok | GHalf => halfadder_ok | GFull => fulladder_ok end.

Inductive case :=
| CGate (g : gate) (s : Qc) (bqm : obs) (rows : list (list bool * Qc))
| CMult (na nb np : nat) (rows : list (list bool * Qc))
(* the BQM of multiplication_circuit(na, nb); variable number k is the wire names[k] *)
| CMultWire (na nb : nat) (names : list wire) (bqm : obs)
(* binobs: the coefficients of the BINARY model (labels = positions), strength = sn / sd *)
| CComb (n : nat) (k : Z) (s : Qc) (sn : Z) (sd : positive) (binobs : option obs) (rows : list (list bool * Qc))
(* strength / strength_multiplier: None = not passed, the default TRANSLATED from the source applies *)
| CMwis (s : option Qc) (mult : option Qc) (edges : list (label * label)) (nodes : list (label * Qc))
        (n : nat) (bqm : obs)
| CMis (s : option Qc) (edges : list (label * label)) (nodes : list label) (n : nat) (bqm : obs)
| CIs (edges : list (label * label)) (n : nat) (bqm : obs)
(* CQM generators: the generator's data, the objective and constraints the CQM reports (lhs, sense, rhs),
   and per assignment (bits by variable number): check_feasible, objective energy *)
| CKnap (values weights : list Qc) (capacity : Qc) (obj : obs) (cons : list (obs * sense * Qc))
        (rows : list (list bool * bool * Qc))
| CMk (values weights capacities : list Qc) (obj : obs) (cons : list (obs * sense * Qc))
      (rows : list (list bool * bool * Qc))
| CBp (weights : list Qc) (capacity : Qc) (obj : obs) (cons : list (obs * sense * Qc))
      (rows : list (list bool * bool * Qc))
(* quadratic variants: the constructions TRANSLATED from the source (Gen/Gen_Knap.v) are the model *)
| CQKnap (values weights : list Qc) (profits : matrix) (capacity : Qc) (obj : obs) (cons : list (obs * sense * Qc))
         (rows : list (list bool * bool * Qc))
| CQMk (values weights : list Qc) (profits : matrix) (capacities : list Qc) (obj : obs) (cons : list (obs * sense * Qc))
       (rows : list (list bool * bool * Qc))
| CQap (n : nat) (F D : matrix) (obj : obs) (cons : list (obs * sense * Qc))
       (rows : list (list bool * bool * Qc))
(* magic_square(n, power): reported constraints; integer assignments (cells row by row, then "sum") with check_feasible *)
| CMagic (n power : nat) (cons : list (obs * sense * Qc)) (rows : list (list Z * bool))
(* random_kmcsat / nae3sat / 2in4sat: the clauses drawn (replayed from the seed), the BQM, energies of all spin assignments *)
(* wrapper: 0 = random_kmcsat, 1 = random_nae3sat, 2 = random_2in4sat (their k is the TRANSLATED one) *)
| CSat (wrapper : nat) (k : nat) (planted : bool) (n : nat) (clauses : list clause) (bqm : obs) (rows : list (list bool * Qc))
(* chimera_anticluster(m, n, t, multiplier) without subgraph: the interactions the implementation built (integer labels) *)
| CChimera (m n t : nat) (mult : Qc) (quad : list qterm).

Definition bits_eqb := list_eqb Bool.eqb.
Definition rows_complete (n : nat) (rows : list (list bool * Qc)) : bool :=
  list_eqb bits_eqb (map fst rows) (all_bitvectors n).

Definition lookup_row (rows : list (list bool * Qc)) (x : list bool) : Qc :=
  match find (fun r => bits_eqb (fst r) x) rows with Some r => snd r | None => - (1) end.
Definition qmin (a b : Qc) : Qc := if Qle_bool a b then a else b.
Definition qle (a b : Qc) : bool := Qle_bool a b.

Fixpoint forallb2 {A B} (f : A -> B -> bool) (l1 : list A) (l2 : list B) : bool :=
  match l1, l2 with
  | [], [] => true
  | x :: xs, y :: ys => f x y && forallb2 f xs ys
  | _, _ => false
  end.

(* the reported constraint  lhs (sense) rhs  is the model's  sum lin + const (sense) 0 *)
Definition con_matches (nvars : nat) (mc : lincon) (oc : obs * sense * Qc) : bool :=
  let '(o, sn, rhs) := oc in
  sense_eqb sn (lc_sense mc)
  && poly_coeff_eqb nvars (mkPoly (lc_const mc) (lc_lin mc) []) (mkPoly (o_off o - rhs) (o_lin o) (o_quad o)).

Definition check_lcqm (m : lcqm) (nvars : nat) (obj : obs) (cons : list (obs * sense * Qc))
    (rows : list (list bool * bool * Qc)) (okf : sample -> bool) (objf : sample -> Qc) : bool :=
  poly_coeff_eqb nvars (q_obj m) (obs_poly obj)
  && forallb2 (con_matches nvars) (q_cons m) cons
  && forallb (fun r => let '(bits, feas, en) := r in
                let x := sample_of_bits bits in
                (length bits =? nvars)%nat
                && Bool.eqb feas (feasibleb m x) && Bool.eqb feas (okf x)
                && Qc_eqb en (energy (q_obj m) x) && Qc_eqb en (objf x)) rows.

Definition shift_poly (p : poly) (rhs : Qc) : poly := mkPoly (p_off p - rhs) (p_lin p) (p_quad p).
Definition qcon_matches (nvars : nat) (mc : qcon) (oc : obs * sense * Qc) : bool :=
  let '(mp, msn, mrhs) := mc in
  let '(o, sn, rhs) := oc in
  sense_eqb sn msn && poly_coeff_eqb nvars (shift_poly mp mrhs) (shift_poly (obs_poly o) rhs).

Definition check (c : case) : bool :=
  match c with
  | CGate g s bqm rows =>
      let n := gate_nargs g in
      poly_coeff_eqb n (gate_poly (gate_lin g) (gate_quad g) s) (obs_poly bqm)
      && rows_complete n rows
      && forallb (fun r => Qc_eqb (snd r) (s * z2q (gate_energy (gate_lin g) (gate_quad g) (fst r)))) rows
      (* the documented relation, decided on the implementation's own energies *)
      && match g with
         | GXor => forallb (fun x => let e := qmin (lookup_row rows (x ++ [false])) (lookup_row rows (x ++ [true])) in
                              if xor_ok x then Qc_eqb e 0 else qle s e) (all_bitvectors 3)
                   && forallb (fun r => qle 0 (snd r)) rows
         | _ => forallb (fun r => if gate_ok g (fst r) then Qc_eqb (snd r) 0 else qle s (snd r)) rows
         end
  | CMult na nb np rows =>
      (* np low-order product bits are variables of the model; absent high bits read as 0 *)
      rows_complete (na + nb + np) rows
      && forallb (fun r => let a := firstn na (fst r) in
                           let b := firstn nb (skipn na (fst r)) in
                           let p := skipn (na + nb) (fst r) in
                           if (bits_val p =? bits_val a * bits_val b)%Z then Qc_eqb (snd r) 0 else qle 1 (snd r)) rows
  | CMultWire na nb names bqm =>
      let gs := circuit na nb in
      forallb (fun g => forallb (fun w => wmem w names) (inst_inputs g ++ inst_outputs g)) gs
      && poly_coeff_eqb (length names) (circuit_poly (index_of names) gs) (obs_poly bqm)
      (* the wiring GENERATED from the source (Gen_MultWiring.v, Model/MultWiring.v) *)
      && poly_coeff_eqb (length names) (circuit_poly (index_of names) (mw_circuit na nb)) (obs_poly bqm)
  | CComb n k s sn sd binobs rows =>
      let d := z2q (Zpos sd) in
      Qc_eqb (s * d) (z2q sn)
      (* the coefficient rule translated from the source (Gen_Combinations.v), cleared of the denominator *)
      && match binobs with
         | None => true
         | Some o =>
             Qc_eqb (o_off o * d) (z2q (comb_offset sn k))
             && forallb (fun v => Qc_eqb (lin_coeff (o_lin o) v * d) (z2q (comb_lbias sn k))) (seq 0 n)
             && forallb (fun u => forallb (fun v => Qc_eqb (quad_coeff (o_quad o) u v * d) (z2q (comb_qbias sn k)))
                                    (seq 0 u)) (seq 0 n)
         end
      && rows_complete n rows
      && forallb (fun r => Qc_eqb (snd r) (s * z2q (combinations_energy k (fst r)))) rows
  | CMwis s mult edges nodes n bqm =>
      let ws := effective_weights edges nodes in
      let m := match mult with Some m => m | None => mwis_default_multiplier end in
      let s_eff := match s with Some s => s | None => max_weight ws * m end in
      poly_coeff_eqb n (mwis_poly s_eff edges ws) (obs_poly bqm)
  | CMis s edges nodes n bqm =>
      let ws := effective_weights edges (map (fun v => (v, mis_node_weight)) nodes) in
      let s_eff := match s with Some s => s | None => mis_default_strength end in
      poly_coeff_eqb n (mwis_poly s_eff edges ws) (obs_poly bqm)
  | CIs edges n bqm => poly_coeff_eqb n (mwis_poly is_edge_bias edges []) (obs_poly bqm)
  | CKnap values weights capacity obj cs rows =>
      let n := length values in
      (length weights =? n)%nat
      && check_lcqm (knapsack_model values weights capacity) n obj cs rows
           (ks_ok weights capacity n) (fun x => - ks_value values n x)
  | CMk values weights capacities obj cs rows =>
      let n := length values in let b := length capacities in
      (length weights =? n)%nat
      && check_lcqm (mk_model values weights capacities) (n * b) obj cs rows
           (mk_ok weights capacities n b) (fun x => - mk_value values n b x)
  | CBp weights capacity obj cs rows =>
      let n := length weights in
      check_lcqm (bp_model weights capacity) (n + n * n) obj cs rows
           (bp_ok weights capacity n) (bp_open_bins n)
  | CQKnap values weights profits capacity obj cs rows =>
      let n := length values in
      (length weights =? n)%nat && (length profits =? n)%nat
      && check_lcqm (gen_quadratic_knapsack values weights profits capacity) n obj cs rows
           (ks_ok weights capacity n) (fun x => - ks_value values n x - pair_profit profits x)
  | CQMk values weights profits capacities obj cs rows =>
      let n := length values in let b := length capacities in
      (length weights =? n)%nat && (length profits =? n)%nat
      && check_lcqm (gen_quadratic_multi_knapsack values weights profits capacities) (n * b) obj cs rows
           (mk_ok weights capacities n b) (fun x => - mk_value values n b x - pair_profit_multi profits b x)
  | CQap n F D obj cs rows =>
      let m := qap_model n F D in
      check_lcqm m (n * n) obj cs rows (qap_ok n) (energy (q_obj m))
      (* the construction GENERATED from the source (Gen_Qap.v), replayed with set_quadratic (Model/QapGen.v) *)
      && poly_coeff_eqb (n * n) (qapg_objective n F D) (obs_poly obj)
      && forallb2 (con_matches (n * n)) (qapg_constraints n) cs
  | CMagic n power cs rows =>
      forallb2 (qcon_matches (n * n + 1)) (magic_constraints n power) cs
      (* the construction GENERATED from the source (Gen_Magic.v, Model/MagicGen.v) *)
      && forallb2 (qcon_matches (n * n + 1)) (magicg_constraints n power) cs
      && forallb (fun r => Bool.eqb (snd r) (magic_feasibleb n power (zsample (fst r)))) rows
  | CSat wrapper k planted n clauses bqm rows =>
      match wrapper with 1%nat => (k =? sat_nae3_k)%nat | 2%nat => (k =? sat_2in4_k)%nat | _ => true end
      && forallb (clause_ok k planted) clauses
      && forallb (fun c => negb planted || (Z.abs (zsum (map snd c)) <=? sat_plant_bound)%Z) clauses
      && poly_coeff_eqb n (sat_poly clauses) (obs_poly bqm)
      && rows_complete n rows
      && forallb (fun r => Qc_eqb (snd r) (z2q (sat_energy clauses (spin_of (fst r))))) rows
      (* a planted instance has the all +1 assignment among its ground states *)
      && (negb planted ||
          let e1 := lookup_row rows (repeat true n) in forallb (fun r => qle e1 (snd r)) rows)
  | CChimera m n t mult quad =>
      (* per-case tie of Model/RandStruct.v: tile_edges / intertile_edges (mirrors of _iter_chimera_tile_edges /
         _iter_chimera_intertile_edges) are exactly the interactions, intra-tile +-1, inter-tile +-multiplier *)
      let inner := RandStruct.tile_edges m n t in
      let outer := RandStruct.intertile_edges m n t in
      let mem := fun (l : list (nat * nat)) (u v : nat) => existsb (fun e => same_pair u v (fst e) (snd e)) l in
      (length quad =? length inner + length outer)%nat
      && forallb (fun q : qterm => let '(u, v, x) := q in
                    if mem inner u v then Qc_eqb x 1 || Qc_eqb x (- (1))
                    else mem outer u v && (Qc_eqb x mult || Qc_eqb x (- mult))) quad
      && forallb (fun e => has_pair quad (fst e) (snd e)) (inner ++ outer)
  end.
