(* binary/vartypeview.py: the per-call translation of a write made through a
   .spin/.binary view into writes on the base model (hand mirror of the formulas).
   vdir = what the VIEW shows relative to the base:
     BinOverSpin : view is BINARY, base is SPIN   ("binary -> spin" branches)
     SpinOverBin : view is SPIN,  base is BINARY  ("spin -> binary" branches) *)
From Coq Require Import List ZArith QArith Qcanon Bool Arith.
From Dimod Require Import Base.Util Model.Poly.
From Dimod Require Export Gen.Gen_View.
Import ListNotations.
Open Scope Qc_scope.

(* vdir, four, quarter and the factor tables gen_add_linear / gen_add_quadratic come from
   Gen/Gen_View.v, which translators/view_formulas.py regenerates from vartypeview.py on every run *)

Definition view_add_linear (d : vdir) (v : label) (b : Qc) (base : poly) : poly :=
  let '(kl, ko) := gen_add_linear d in
  add_offset (ko * b) (add_linear v (kl * b) base).

Definition view_add_quadratic (d : vdir) (u v : label) (b : Qc) (base : poly) : poly :=
  let '(kq, ku, kv, ko) := gen_add_quadratic d in
  let addq (k : Qc) (p : poly) := mkPoly (p_off p) (p_lin p) ((u, v, k) :: p_quad p) in
  add_offset (ko * b) (add_linear v (kv * b) (add_linear u (ku * b) (addq (kq * b) base))).

(* the value the view's variable takes when the base variable has value y *)
Definition view_value (d : vdir) (y : Qc) : Qc :=
  match d with BinOverSpin => (y + 1) * half | SpinOverBin => two * y - 1 end.

(* view.offset getter *)
Definition sum_lin (p : poly) : Qc := qsum (map snd (p_lin p)).
Definition sum_quad (p : poly) : Qc := qsum (map snd (p_quad p)).
Definition view_offset (d : vdir) (base : poly) : Qc :=
  match d with
  | BinOverSpin => p_off base - sum_lin base + sum_quad base
  | SpinOverBin => p_off base + sum_lin base * half + sum_quad base * quarter
  end.
