(* binary/vartypeview.py: the per-call translation of a write made through a
   .spin/.binary view into writes on the base model (hand mirror of the formulas).
   vdir = what the VIEW shows relative to the base:
     BinOverSpin : view is BINARY, base is SPIN   ("binary -> spin" branches)
     SpinOverBin : view is SPIN,  base is BINARY  ("spin -> binary" branches) *)
From Coq Require Import List ZArith QArith Qcanon Bool Arith.
From Dimod Require Import Base.Util Model.Poly.
Import ListNotations.
Open Scope Qc_scope.

Inductive vdir := BinOverSpin | SpinOverBin.

Definition four : Qc := two * two.
Definition quarter : Qc := half * half.

Definition view_add_linear (d : vdir) (v : label) (b : Qc) (base : poly) : poly :=
  match d with
  | BinOverSpin => add_offset (b * half) (add_linear v (b * half) base)
  | SpinOverBin => add_offset (- b) (add_linear v (two * b) base)
  end.

Definition view_add_quadratic (d : vdir) (u v : label) (b : Qc) (base : poly) : poly :=
  let addq (k : Qc) (p : poly) := mkPoly (p_off p) (p_lin p) ((u, v, k) :: p_quad p) in
  match d with
  | BinOverSpin =>
      add_offset (b * quarter) (add_linear v (b * quarter) (add_linear u (b * quarter) (addq (b * quarter) base)))
  | SpinOverBin =>
      add_offset b (add_linear v (- (two * b)) (add_linear u (- (two * b)) (addq (four * b) base)))
  end.

(* the value the view's variable takes when the base variable has value y *)
Definition view_value (d : vdir) (y : Qc) : Qc :=
  match d with BinOverSpin => (y + 1) * half | SpinOverBin => two * y - 1 end.

(* view.offset getter *)
Definition sum_lin (p : poly) : Qc := qsum (map snd (p_lin p)).
Definition sum_quad (p : poly) : Qc := qsum (map snd (p_quad p)).
Definition view_offset (d : vdir) (base : poly) : Qc :=
  match d with
  | BinOverSpin => p_off base - sum_lin base + sum_quad base
  | SpinOverBin => p_off base + sum_lin base * half + sum_quad base * quarter
  end.
