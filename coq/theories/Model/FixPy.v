(* C03: the generic Python path  dimod/views/quadratic.py : QuadraticViewsMixin.fix_variable(s)

       add_linear = self.add_linear
       for u, bias in self.iter_neighborhood(v):      # a self-loop (v, bias) of an INTEGER/REAL variable is included
           add_linear(u, value*bias)
       self.offset += value*self.get_linear(v)        # read AFTER the loop: a self-loop has already been folded in
       self.remove_variable(v)

       def fix_variables(self, fixed):  for v, val in fixed: fix_variable(v, val)

   on the plain polynomial (bag of terms): the neighbourhood of v is, per quadratic term that
   mentions v, the other end with the term's bias.  Executable; no proofs here. *)
From Coq Require Import List ZArith QArith Qcanon Bool Arith.
From Dimod Require Import Base.Util Model.Poly.
Import ListNotations.
Open Scope Qc_scope.

(* iter_neighborhood(v): (other end, bias); the term (v, v, b) yields (v, b) once *)
Definition nbhd_term (v : label) (t : qterm) : list lterm :=
  let '(x, y, b) := t in
  if (x =? v)%nat then [(y, b)] else if (y =? v)%nat then [(x, b)] else [].

Definition nbhd (v : label) (q : list qterm) : list lterm := flat_map (nbhd_term v) q.

Definition py_fix_variable (v : label) (value : Qc) (p : poly) : poly :=
  let p1 := fold_left (fun acc ub => add_linear (fst ub) (value * snd ub) acc) (nbhd v (p_quad p)) p in
  let p2 := add_offset (value * lin_coeff (p_lin p1) v) p1 in
  remove_variable v p2.

Definition py_fix_variables (fs : list (label * Qc)) (p : poly) : poly :=
  fold_left (fun acc f => py_fix_variable (fst f) (snd f) acc) fs p.
