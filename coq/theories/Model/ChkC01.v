(* C01 correspondence + oracle: every energy the implementation reports must be the
   value of the polynomial *it reports* at the sample; as_samples of a list of
   dicts must normalise as the model does; missing variables / bad cases are rejected. *)
From Coq Require Import List ZArith QArith Qcanon Bool Arith.
From Dimod Require Import Base.Util Model.Poly Model.HPoly Model.Samples.
Import ListNotations.

Inductive case :=
| QCase (o : obs) (vars : list label)                    (* reported coefficients, model variables *)
        (ls : list label) (rows : list (list Qc))         (* labelled sample matrix given *)
        (seen : option (list Qc))                         (* energies returned; None = raised *)
| DictsCase (ds : list (list label * list Qc))            (* list of dicts in their own key orders *)
            (seen : option (list label * list (list Qc))) (* as_samples output *)
| HCase (p : hpoly) (ls : list label) (rows : list (list Qc)) (seen : option (list Qc))
| DCase (o : obs) (stride : nat) (ncases : list (label * nat)) (row : list (label * Z)) (seen : option Qc).

Definition qlist_eqb := list_eqb Qc_eqb.

Definition check (c : case) : bool :=
  match c with
  | QCase o vars ls rows seen =>
      option_eqb qlist_eqb (energies (obs_poly o) vars ls rows) seen
  | DictsCase ds seen =>
      option_eqb (pair_eqb (list_eqb Nat.eqb) (list_eqb qlist_eqb)) (as_samples_dicts ds) seen
  | HCase p ls rows seen =>
      option_eqb qlist_eqb (Some (map (fun row => henergy p (row_sample ls row)) rows)) seen
  | DCase o stride ncases row seen =>
      option_eqb Qc_eqb (dqm_energy (obs_poly o) stride ncases row) seen
  end.
