(* C01 correspondence + oracle: every energy the implementation reports must be the
   value of the polynomial *it reports* at the sample; as_samples of a list of
   dicts must normalise as the model does; missing variables / bad cases are rejected. *)
From Coq Require Import List ZArith QArith Qcanon Bool Arith.
From Dimod Require Import Base.Util Model.Poly Model.HPoly Model.Samples Model.EnergyCy Model.HPolyLoop.
From Dimod Require Model.Adj Model.DqmLoop Model.PyBqm Model.ViewOps Gen.Gen_View.
Import ListNotations.

Inductive case :=
| QCase (o : obs) (vars : list label)                    (* reported coefficients, model variables *)
        (ls : list label) (rows : list (list Qc))         (* labelled sample matrix given *)
        (seen : option (list Qc))                         (* energies returned; None = raised *)
| DictsCase (ds : list (list label * list Qc))            (* list of dicts in their own key orders *)
            (seen : option (list label * list (list Qc))) (* as_samples output *)
| HCase (p : hpoly) (ls : list label) (rows : list (list Qc)) (seen : option (list Qc))
| DCase (o : obs) (stride : nat) (ncases : list (label * nat)) (row : list (label * Z)) (seen : option Qc)
(* the code-shaped loop of cyQMBase._energies run on the RAW adjacency structure the object holds
   (_ilinear / _ineighborhood), n = number of labels in use *)
| CyCase (n : nat) (o : obs) (m : Adj.qm) (vars ls : list label) (rows : list (list Qc)) (seen : option (list Qc))
(* cyexpression._energies on the raw expression (_iindices / _ilinear / _iquadratic), pvars = parent.variables *)
| XCase (n : nat) (o : obs) (e : xexpr) (pvars ls : list label) (rows : list (list Qc)) (seen : option (list Qc))
(* cyDiscreteQuadraticModel.energies + the python wrapper, run on the observed case_starts / case-level
   biases (to_numpy_vectors) and the observed variable adjacency (_cydqm.adj) *)
| DLoop (starts : list nat) (lin : list Qc) (quad : list (nat * nat * Qc)) (off : Qc) (adjv : list (list nat))
        (vars ls : list label) (rows : list (list Z)) (seen : option (list Qc))
(* pybqm.py pyBQM.energies (dict back-end) run on the observed _adj dicts *)
| PyCase (n : nat) (o : obs) (m : PyBqm.pybqm) (ls : list label) (rows : list (list Qc)) (seen : option (list Qc))
(* vartypeview.py VartypeView.energies: the samples (in the VIEW's domain) are converted with the generated
   sample steps and the BASE model is evaluated; base = coefficients reported by the base *)
| ViewE (d : Gen_View.vdir) (base : obs) (ls : list label) (rows : list (list Qc)) (seen : list Qc).

Definition qlist_eqb := list_eqb Qc_eqb.

Definition check (c : case) : bool :=
  match c with
  | QCase o vars ls rows seen =>
      option_eqb qlist_eqb (energies (obs_poly o) vars ls rows) seen
  | DictsCase ds seen =>
      option_eqb (pair_eqb (list_eqb Nat.eqb) (list_eqb qlist_eqb)) (as_samples_dicts ds) seen
  | HCase p ls rows seen =>
      option_eqb qlist_eqb (Some (map (fun row => henergy p (row_sample ls row)) rows)) seen
      (* the code-shaped loop of BinaryPolynomial.energies (product over each term's columns) *)
      && option_eqb qlist_eqb (hp_energies p ls rows) seen
  | DCase o stride ncases row seen =>
      option_eqb Qc_eqb (dqm_energy (obs_poly o) stride ncases row) seen
  | CyCase n o m vars ls rows seen =>
      Adj.inv_b m && (length vars =? Adj.nvars m)%nat
      && poly_coeff_eqb n (qm_poly_labels m vars) (obs_poly o)
      && option_eqb qlist_eqb (energies_cy m vars ls rows) seen
  | XCase n o e pvars ls rows seen =>
      Adj.inv_b (x_base e) && (length (x_vars e) =? Adj.nvars (x_base e))%nat
      && poly_coeff_eqb n (xexpr_poly_labels e pvars) (obs_poly o)
      && option_eqb qlist_eqb (xexpr_energies_cy e pvars ls rows) seen
  | DLoop starts lin quad off adjv vars ls rows seen =>
      let d0 := DqmLoop.dqm_of_obs starts lin quad off in
      let d := DqmLoop.mkDqm (DqmLoop.d_starts d0) adjv (DqmLoop.d_bqm d0) in
      DqmLoop.dqm_wf_b d
      && list_eqb (list_eqb Nat.eqb) adjv (DqmLoop.d_adjv d0)
      && option_eqb qlist_eqb (DqmLoop.dqm_energies vars d ls rows) seen
  | PyCase n o m ls rows seen =>
      PyBqm.pb_wfb m
      && poly_coeff_eqb n (PyBqm.pb_abs m) (obs_poly o)
      && option_eqb qlist_eqb (PyBqm.pb_energies m ls rows) seen
  | ViewE d base ls rows seen =>
      qlist_eqb (map (fun row => ViewOps.view_energy d (obs_poly base) (row_sample ls row)) rows) seen
      (* and that is the energy of the polynomial the view reports *)
      && qlist_eqb (map (fun row => energy (ViewOps.view_poly d (obs_poly base)) (row_sample ls row)) rows) seen
  end.
