(* dimod/sampleset.py : SampleSet.change_vartype (lines 1386-1421), the in-place branch,
   on the `sset` records of Model/SSet.v (C02: changing between spin and binary
   representation never changes any energy).  Executable definitions only; the lemmas
   are in Proofs/SSetVartypeFacts.v.

   Mirrored source (after `vartype = as_vartype(vartype, extended=True)`):

        if energy_offset:
            energy = self.record.energy + energy_offset
            ...
            self.record.energy = energy

        if vartype is self.vartype:
            return self  # we're done!

        if vartype is Vartype.SPIN and self.vartype is Vartype.BINARY:
            ...
            self.record.sample = 2 * self.record.sample - 1
            self._vartype = vartype
        elif vartype is Vartype.BINARY and self.vartype is Vartype.SPIN:
            self.record.sample = (self.record.sample + 1) // 2
            self._vartype = vartype
        else:
            raise ValueError("Cannot convert from {} to {}".format(self.vartype, vartype))

        return self

   The energies are shifted BEFORE the vartype test, so they stay shifted when the
   ValueError is raised: `Fail` carries the receiver with the shifted energies.
   The dtype bookkeeping (np.can_cast / _astype_field) has no counterpart: values are exact. *)
From Coq Require Import List ZArith QArith Qcanon Qround Bool Arith.
From Dimod Require Import Base.Util Model.Poly Model.Samples Model.SSet.
Import ListNotations.
Open Scope Qc_scope.

(* numpy floor division by two:  y // 2 = floor(y / 2)  (integers and floats alike) *)
Definition floor_div2 (y : Qc) : Qc := Q2Qc (inject_Z (Qfloor (y * half))).

(* 2 * sample - 1 *)
Definition to_spin_value (x : Qc) : Qc := two * x - 1.
(* (sample + 1) // 2 *)
Definition to_binary_value (x : Qc) : Qc := floor_div2 (x + 1).

(* `if energy_offset: self.record.energy = self.record.energy + energy_offset` *)
Definition ss_shift_energy (off : Qc) (s : sset) : sset :=
  if Qc_eqb off 0 then s
  else with_rows s (map (fun r => set_en r (en r + off)) (rws s)).

(* `self.record.sample = f(self.record.sample) ; self._vartype = v` *)
Definition ss_map_samples (f : Qc -> Qc) (v : vartype) (s : sset) : sset :=
  mkSS (labels s) v (map (fun r => set_vals r (map f (vals r))) (rws s)) (info s) (fields s).

Definition ss_change_vartype (target : vartype) (energy_offset : Qc) (s : sset) : res :=
  let s1 := ss_shift_energy energy_offset s in
  if vartype_eqb target (vt s1) then Ok s1
  else match target, vt s1 with
       | SPIN, BINARY => Ok (ss_map_samples to_spin_value SPIN s1)
       | BINARY, SPIN => Ok (ss_map_samples to_binary_value BINARY s1)
       | _, _ => Fail s1
       end.

(* the binary quadratic model whose energies the converted rows report:
   s = 2 x - 1 substituted for every label (SPIN -> BINARY), x = (s + 1) / 2 (BINARY -> SPIN);
   the same as ChkC02.convert S2B / B2S on all labels *)
Definition convert_model (src target : vartype) (ls : list label) (p : poly) : poly :=
  match src, target with
  | SPIN, BINARY => substitute_many ls two (- (1)) p
  | BINARY, SPIN => substitute_many ls half half p
  | _, _ => p
  end.

(* ---------- executable hooks for the correspondence check ---------- *)
Definition res_eqb (a b : res) : bool :=
  match a, b with
  | Ok x, Ok y => sset_eqb x y
  | Fail x, Fail y => sset_eqb x y
  | _, _ => false
  end.

(* the observed outcome of s.change_vartype(target, energy_offset) is the model's *)
Definition ss_change_vartype_matches (target : vartype) (off : Qc) (before : sset) (observed : res) : bool :=
  res_eqb (ss_change_vartype target off before) observed.

(* every row's energy is the energy of p at the row (plus a constant) *)
Definition rows_consistent (p : poly) (shift : Qc) (s : sset) : bool :=
  forallb (fun r => Qc_eqb (en r) (energy p (row_sample (labels s) (vals r)) + shift)) (rws s).

(* oracle: rows consistent with p before  ==>  rows consistent with the converted model after *)
Definition ss_change_vartype_oracle (target : vartype) (off : Qc) (p : poly) (before : sset) (after : sset) : bool :=
  implb (rows_consistent p 0 before)
        (rows_consistent (convert_model (vt before) target (labels before) p) off after).
