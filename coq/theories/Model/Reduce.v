(* C15 - higher-order reduction (higherorder/utils.py).
   reduce_binary_polynomial: every chosen pair {u,v} gets a fresh product
   variable p and every current term of degree > 2 containing both u and v is
   rewritten to (term - {u,v}) + {p}.  Which pair is chosen (frequency index and
   queue) does not matter for the model: `reduce_with` replays ANY sequence of
   constraints; the correspondence check feeds it the implementation's own.
   make_quadratic / make_quadratic_cqm: assembly of the reduced objective and
   the product penalties (and_gate, _spin_product).  Executable; no proofs here. *)
From Coq Require Import List ZArith QArith Qcanon Bool Arith.
From Dimod Require Import Base.Util Model.Poly Model.HPoly.
Import ListNotations.
Open Scope Qc_scope.

Definition cons3 := (label * label * label)%type.            (* (u, v, p) *)
Definition cons4 := (label * label * label * label)%type.    (* (u, v, p, aux) *)

Definition mem (v : nat) (l : list nat) : bool := existsb (Nat.eqb v) l.
Definition remove_var (v : nat) (l : list nat) : list nat := filter (fun x => negb (x =? v)%nat) l.

Definition applies (u v : label) (t : list label) : bool :=
  (2 <? length t)%nat && mem u t && mem v t.

Definition subst_term (c : cons3) (t : list label) : list label :=
  let '(u, v, p) := c in
  if applies u v t then p :: remove_var u (remove_var v t) else t.

Definition subst_step (c : cons3) (poly : hpoly) : hpoly :=
  map (fun m => (subst_term c (fst m), snd m)) poly.

Definition reduce_with (cons : list cons3) (poly : hpoly) : hpoly :=
  fold_left (fun acc c => subst_step c acc) cons poly.

(* variables of a polynomial *)
Definition hvars (p : hpoly) : list label := flat_map fst p.

(* side condition on a constraint sequence, relative to the variables known so
   far: multiplier and multiplicand are distinct known variables, the product
   variable is new *)
Fixpoint valid_cons (vars : list label) (cons : list cons3) : bool :=
  match cons with
  | [] => true
  | (u, v, p) :: r =>
      negb (u =? v)%nat && mem u vars && mem v vars && negb (mem p vars) && valid_cons (p :: vars) r
  end.

Fixpoint nodupb (l : list nat) : bool :=
  match l with [] => true | x :: xs => negb (mem x xs) && nodupb xs end.

Definition terms_nodup (p : hpoly) : bool := forallb (fun t => nodupb (fst t)) p.

Definition all_degree_le2 (p : hpoly) : bool := forallb (fun t => (length (fst t) <=? 2)%nat) p.

(* an assignment of the original variables extended with the products, in order *)
Definition extend (cons : list cons3) (a : sample) : sample :=
  fold_left (fun acc c => let '(u, v, p) := c in upd acc p (acc u * acc v)) cons a.

Definition consistent (cons : list cons3) (a : sample) : Prop :=
  forall u v p, In (u, v, p) cons -> a p = a u * a v.

Definition consistentb (cons : list cons3) (a : sample) : bool :=
  forallb (fun c => let '(u, v, p) := c in Qc_eqb (a p) (a u * a v)) cons.

(* ---------- BinaryPolynomial normalisation of raw terms ---------- *)
Definition normalise (vt : vartype) (raw : hpoly) : hpoly :=
  map (fun t => (match vt with SPIN => spin_reduce_vars (fst t) | _ => binary_reduce_vars (fst t) end, snd t)) raw.

(* ---------- quadratic polynomial of a reduced higher-order one (_init_objective) ---------- *)
Definition mono_poly (t : mono) : poly :=
  match fst t with
  | [] => mkPoly (snd t) [] []
  | [x] => mkPoly 0 [(x, snd t)] []
  | [x; y] => mkPoly 0 [] [(x, y, snd t)]
  | _ => pzero          (* never reached when all_degree_le2 *)
  end.

Definition poly_of_hpoly (p : hpoly) : poly := psum (map mono_poly p).

(* ---------- penalties ---------- *)
Definition three : Qc := 1 + 1 + 1.

(* generators/gates.py and_gate(u, v, p): 3p + uv - 2up - 2vp *)
Definition and_pen_poly (u v p : label) : poly :=
  mkPoly 0 [(u, 0); (v, 0); (p, three)] [(u, v, 1); (u, p, - two); (v, p, - two)].

Definition and_pen (x y z : Qc) : Qc := three * z + x * y - two * x * z - two * y * z.

(* higherorder/utils.py _spin_product([u, v, p, aux]) *)
Definition spin_pen_poly (u v p w : label) : poly :=
  mkPoly two [(u, - half); (v, - half); (p, - half); (w, - (1))]
    [(u, v, half); (u, p, half); (u, w, 1); (v, p, half); (v, w, 1); (p, w, 1)].

Definition spin_pen (x y z w : Qc) : Qc :=
  two - half * x - half * y - half * z - w
  + half * x * y + half * x * z + x * w + half * y * z + y * w + z * w.

Definition b2q (b : bool) : Qc := if b then 1 else 0.
Definition s2q (b : bool) : Qc := if b then 1 else - (1).
(* the auxiliary spin that minimises the product penalty *)
Definition opt_aux (x y : bool) : bool := negb (x && y).

(* ---------- make_quadratic ---------- *)
Definition drop_aux (c : cons4) : cons3 := let '(u, v, p, _) := c in (u, v, p).

Definition mq_binary (s : Qc) (cons : list cons3) (reduced : hpoly) : poly :=
  padd (psum (map (fun c => let '(u, v, p) := c in scale s (and_pen_poly u v p)) cons))
       (poly_of_hpoly reduced).

Definition mq_spin (s : Qc) (cons : list cons4) (reduced : hpoly) : poly :=
  padd (psum (map (fun c => let '(u, v, p, w) := c in scale s (spin_pen_poly u v p w)) cons))
       (poly_of_hpoly reduced).

Definition and_pen_sum (cons : list cons3) (a : sample) : Qc :=
  qsum (map (fun c => let '(u, v, p) := c in and_pen (a u) (a v) (a p)) cons).
Definition spin_pen_sum (cons : list cons4) (a : sample) : Qc :=
  qsum (map (fun c => let '(u, v, p, w) := c in spin_pen (a u) (a v) (a p) (a w)) cons).

(* auxiliaries: new, pairwise distinct, different from every other variable *)
Fixpoint valid_aux (vars : list label) (cons : list cons4) : bool :=
  match cons with
  | [] => true
  | (_, _, _, w) :: r => negb (mem w vars) && valid_aux (w :: vars) r
  end.

(* set every auxiliary spin to the minimiser for the values of its constraint *)
Definition is_one (q : Qc) : bool := Qc_eqb q 1.
Definition set_aux (cons : list cons4) (a : sample) : sample :=
  fold_left (fun acc c => let '(u, v, _, w) := c in
                          upd acc w (s2q (opt_aux (is_one (a u)) (is_one (a v))))) cons a.

Definition is_binary (a : sample) : Prop := forall v, a v = 0 \/ a v = 1.
Definition is_spin (a : sample) : Prop := forall v, a v = 1 \/ a v = - (1).

(* make_quadratic_cqm: constraint u*v - p == 0 *)
Definition product_constraint_poly (c : cons3) : poly :=
  let '(u, v, p) := c in mkPoly 0 [(p, - (1))] [(u, v, 1)].

Definition prod_of (c : cons3) : label := snd c.
Definition known_vars (poly : hpoly) (cons : list cons4) : list label :=
  hvars poly ++ map prod_of (map drop_aux cons).
Definition valid_cons4 (poly : hpoly) (cons : list cons4) : bool :=
  valid_cons (hvars poly) (map drop_aux cons) && valid_aux (known_vars poly cons) cons.

(* ---------- the greedy loop of reduce_binary_polynomial with an ARBITRARY choice of the pair ----------
   `ch` stands for the frequency index / queue: it returns a pair occurring together in some term
   of degree > 2, or None when there is none.  Product variables are numbered fresh, fresh+1, ... *)
Definition excess (p : hpoly) : nat := fold_right (fun t acc => (length (fst t) - 2 + acc)%nat) 0%nat p.

Definition choice := hpoly -> option (label * label).

Fixpoint reduce_loop (fuel : nat) (ch : choice) (fresh : nat) (p : hpoly) : hpoly * list cons3 :=
  match fuel with
  | O => (p, [])
  | S f =>
      match ch p with
      | None => (p, [])
      | Some (u, v) =>
          let c := (u, v, fresh) in
          let '(r, cs) := reduce_loop f ch (S fresh) (subst_step c p) in (r, c :: cs)
      end
  end.

(* one admissible choice function: the first two variables of the first term of degree > 2 *)
Fixpoint first_pair (p : hpoly) : option (label * label) :=
  match p with
  | [] => None
  | t :: r => match fst t with
              | u :: v :: _ :: _ => Some (u, v)
              | _ => first_pair r
              end
  end.

Definition fresh_above (p : hpoly) : nat := S (fold_right Nat.max 0%nat (hvars p)).

(* every constraint of the sequence is used: its pair occurs together in a term of degree > 2 of the
   polynomial reduced so far *)
Fixpoint admissible (p : hpoly) (cs : list cons3) : bool :=
  match cs with
  | [] => true
  | (u, v, x) :: r => existsb (fun t => applies u v (fst t)) p && admissible (subst_step (u, v, x) p) r
  end.

(* ---------- make_quadratic(poly, strength, vartype, bqm=base) / make_quadratic_cqm(poly, vartype, cqm=base) ----------
   the supplied model, converted to the requested vartype (change_vartype), plus what is built for the polynomial *)
Definition poly_vars (p : poly) : list label :=
  dedup (map fst (p_lin p) ++ flat_map (fun t => [fst (fst t); snd (fst t)]) (p_quad p)).

Definition convert_base (vt bvt : vartype) (p : poly) : poly :=
  match bvt, vt with
  | SPIN, BINARY => substitute_many (poly_vars p) two (- (1)) p      (* s = 2x - 1 *)
  | BINARY, SPIN => substitute_many (poly_vars p) half half p        (* x = (s + 1)/2 *)
  | _, _ => p
  end.

Definition with_base (vt : vartype) (base : option (vartype * poly)) (q : poly) : poly :=
  match base with
  | None => q
  | Some (bvt, p) => padd (convert_base vt bvt p) q
  end.

(* ---------- higherordercomposites.polymorph_response / penalty_satisfaction, code shaped ----------
   child rows (values aligned with the child's variable order) -> returned rows:
   penalty flag of every row = all products consistent; with discard_unsatisfied only flagged rows are
   kept (and the flag column is all true); energies are recomputed on the polynomial from the FULL row;
   the columns returned are vars_out (all of the child's, or the polynomial's) *)
Definition row_sample (vars : list label) (vals : list Qc) : sample := sample_of_list (combine vars vals).

Definition polymorph_rows (poly : hpoly) (cons : list cons3) (discard : bool)
    (vars_child vars_out : list label) (rows : list (list Qc)) : list (list Qc * Qc * bool) :=
  let sat := fun r => consistentb cons (row_sample vars_child r) in
  let kept := if discard then filter sat rows else rows in
  map (fun r => (map (row_sample vars_child r) vars_out,
                 henergy poly (row_sample vars_child r),
                 if discard then true else sat r)) kept.

(* make_quadratic_cqm: the CQM - objective and one equality constraint u*v - p == 0 per product *)
Definition cqm_feasibleb (cons : list cons3) (a : sample) : bool :=
  forallb (fun c => Qc_eqb (energy (product_constraint_poly c) a) 0) cons.
