(* Boolean equalities on the file-level records of Model/Codec.v (shared by the C09 / C10 checks and the
   CQM archive model).  No proofs in this file. *)
From Coq Require Import List NArith ZArith Arith Bool.
From Dimod Require Import Base.Util Gen.Gen_Codec Model.Codec.
Import ListNotations.

Definition N_eqb := N.eqb.
Definition bl_eqb := list_eqb bytes_eqb.

Fixpoint label_eqb (a b : label) {struct a} : bool :=
  match a, b with
  | LInt x, LInt y => Z.eqb x y
  | LStr s, LStr t => bytes_eqb s t
  | LTup l, LTup m =>
      (fix go (l m : list label) : bool :=
         match l, m with
         | [], [] => true
         | x :: l', y :: m' => label_eqb x y && go l' m'
         | _, _ => false
         end) l m
  | _, _ => false
  end.

Definition labels_eqb := option_eqb (list_eqb label_eqb).
Definition dtype_eqb (a b : dtype) : bool := match a, b with F32, F32 | F64, F64 => true | _, _ => false end.
Definition bvt_eqb (a b : bvartype) : bool := match a, b with BSPIN, BSPIN | BBINARY, BBINARY => true | _, _ => false end.
Definition ver_eqb (a b : N * N) : bool := N.eqb (fst a) (fst b) && N.eqb (snd a) (snd b).
Definition rec_eqb (a b : N * bytes) : bool := N.eqb (fst a) (fst b) && bytes_eqb (snd a) (snd b).

Definition bqmfile_eqb (a b : bqmfile) : bool :=
  ver_eqb (bf_version a) (bf_version b) && dtype_eqb (bf_dtype a) (bf_dtype b) && bvt_eqb (bf_vt a) (bf_vt b)
  && N.eqb (bf_m a) (bf_m b) && bytes_eqb (bf_off a) (bf_off b) && bl_eqb (bf_lin a) (bf_lin b)
  && list_eqb (list_eqb rec_eqb) (bf_adj a) (bf_adj b) && labels_eqb (bf_labels a) (bf_labels b).

Definition vinfo_eqb (a b : N * (bytes * bytes)) : bool :=
  N.eqb (fst a) (fst b) && bytes_eqb (fst (snd a)) (fst (snd b)) && bytes_eqb (snd (snd a)) (snd (snd b)).

Definition qmfile_eqb (a b : qmfile) : bool :=
  dtype_eqb (qf_dtype a) (qf_dtype b) && N.eqb (qf_m a) (qf_m b)
  && list_eqb vinfo_eqb (qf_vinfo a) (qf_vinfo b) && bytes_eqb (qf_off a) (qf_off b)
  && bl_eqb (qf_lin a) (qf_lin b) && list_eqb (list_eqb rec_eqb) (qf_neig a) (qf_neig b)
  && labels_eqb (qf_labels a) (qf_labels b).

Definition q_eqb (a b : N * (N * bytes)) : bool :=
  N.eqb (fst a) (fst b) && N.eqb (fst (snd a)) (fst (snd b)) && bytes_eqb (snd (snd a)) (snd (snd b)).

Definition exprfile_eqb (a b : exprfile) : bool :=
  dtype_eqb (ef_dtype a) (ef_dtype b) && bytes_eqb (ef_type a) (ef_type b)
  && list_eqb N.eqb (ef_idx a) (ef_idx b) && bytes_eqb (ef_off a) (ef_off b)
  && bl_eqb (ef_lin a) (ef_lin b) && list_eqb q_eqb (ef_quad a) (ef_quad b).
