(* The quadratic phase of fix_variables_expr driven by the selector table that
   translators/fix_copy_shape.py extracts from constrained_quadratic_model.h (Gen/Gen_FixCopy.v):
   which assignment multiplies the bias and which new variable receives the term, per branch.
   Executable; no proofs here (Proofs/FixCopyGenFacts.v shows Model/FixCopy.v fve_quad_step is this). *)
From Coq Require Import List ZArith QArith Qcanon Bool Arith.
From Dimod Require Import Base.Util Model.Poly Model.Expr Model.FixCopy.
From Dimod Require Export Gen.Gen_FixCopy.
Import ListNotations.
Open Scope Qc_scope.

Definition pick {A} (s : side) (xu xv : A) : A := match s with SideU => xu | SideV => xv end.

Definition fve_quad_step_g (vt' : nat -> vartype) (vars : list nat) (o2n : list (option nat)) (asg : list Qc)
    (dst : mexpr) (t : lqterm) : mexpr :=
  let u := nth (fst (fst t)) vars 0%nat in
  let v := nth (snd (fst t)) vars 0%nat in
  let bias := snd t in
  let new_u := o2n_get o2n u in
  let new_v := o2n_get o2n v in
  let a s := asg_get asg (pick s u v) in
  let new s := pick s new_u new_v in
  match new_u, new_v with
  | None, None => m_add_offset (a (fst gen_fve_both_fixed) * a (snd gen_fve_both_fixed) * bias) dst
  | None, Some _ =>
      match new (fst gen_fve_u_fixed) with
      | Some k => m_add_linear k (a (snd gen_fve_u_fixed) * bias) dst
      | None => dst                      (* add_linear(-1, ..): not a variable of the new model *)
      end
  | Some _, None =>
      match new (fst gen_fve_v_fixed) with
      | Some k => m_add_linear k (a (snd gen_fve_v_fixed) * bias) dst
      | None => dst
      end
  | Some _, Some _ =>
      match new (fst gen_fve_none_fixed), new (snd gen_fve_none_fixed) with
      | Some k1, Some k2 => m_add_quadratic vt' k1 k2 bias dst
      | _, _ => dst
      end
  end.

Definition fix_variables_expr_g (vt' : nat -> vartype) (src : mexpr) (o2n : list (option nat)) (asg : list Qc) : mexpr :=
  let d0 := m_add_offset (e_off src) e_empty in
  let d1 := fold_left (fve_lin_step o2n asg) (combine (e_vars src) (e_lin src)) d0 in
  fold_left (fve_quad_step_g vt' (e_vars src) o2n asg) (e_quad src) d1.
