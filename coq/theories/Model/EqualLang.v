(* C18: the exception classes the equality methods may meet / swallow. Types only; the lists read from the
   source are in Gen/Gen_EqualCatches.v, the model in Model/Equal.v. *)
Inductive exn := AttrErr | ValErr | KeyErr.
