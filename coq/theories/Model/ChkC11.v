(* C11 correspondence: what the implementation emitted / gave back is compared with
   the serialisation model (Model/Ser.v, Comb.pack_row) and the round-trip property
   itself is evaluated on the implementation's own observations.
   Vectors other than the samples (energies, num_occurrences, extra data, info) are
   compared exactly, field by field, by the worker. *)
From Coq Require Import List ZArith NArith QArith Qcanon Bool Arith String.
From Dimod Require Import Base.Util Model.Poly Model.Comb Model.Ser Model.Coo Model.InfoSer Model.CooNum Model.CooLex.
Import ListNotations.

Inductive case :=
(* a BQM over labels 0..n-1 (numbered in the order of the serialised label list):
   coefficients before, the vector form it emitted (when the route exposes it), coefficients after *)
| KBqm (n : nat) (vt0 vt1 : vartype) (before : obs) (vec : option bvec) (after : obs)
(* COO text: vartype and non-zero biases *)
| KCoo (n : nat) (vt0 vt1 : vartype) (before after : obs)
(* COO text, line level: the header and the `u v bias` lines coo.dumps wrote *)
| KCooText (n : nat) (vt0 : vartype) (header : bool) (before : obs)
           (hdr : option vartype) (lines : list coo_line) (vt1 : vartype) (after : obs)
(* sample rows: vartype, integer dtype?, pack_samples option, columns, rows before,
   sample_data emitted (words or raw rows), vartype after, rows after *)
| KSS (vt : vartype) (int_dtype pack : bool) (n : nat) (rows : list (list Qc))
      (emitted : sdata) (vt1 : vartype) (after : list (list Qc))
(* labels before, their serialised (JSON) form, labels after *)
| KLabels (ls : list lbl) (ser : list jv) (back : list lbl)
(* a float array as nested list, the `data` emitted by serialize_ndarray, the array after *)
| KArr (a : farr) (j : jarr) (back : farr)
(* the info field: before, the `info` entry of the document the reader consumed, after.
   Arrays are numbered by the worker (equal dtype, shape and values = equal number); the entries
   data / data_type / shape / use_bytes of an array document are the leaf TDoc of that number *)
| KInfo (before emitted after : tree nat nat)
(* the lines of the COO text themselves, with the (u, v, bias in millionths) the worker split them into:
   the character-level printer must give exactly that text and the character-level reader that triple *)
| KCooLines (lines : list (string * N * N * Z)).

Definition quad_eqb (a b : nat * nat * Qc) : bool :=
  Nat.eqb (fst (fst a)) (fst (fst b)) && Nat.eqb (snd (fst a)) (snd (fst b)) && Qc_eqb (snd a) (snd b).

(* the interactions as a set of (row < col, bias) entries: the C++ back-end lists them
   row-major, the Python (object dtype) one column-major *)
Definition quads_eqb (a b : list (nat * nat * Qc)) : bool :=
  Nat.eqb (List.length a) (List.length b)
  && forallb (fun t => existsb (quad_eqb t) b) a
  && forallb (fun t => existsb (quad_eqb t) a) b.

Definition bvec_eqb (a b : bvec) : bool :=
  list_eqb Qc_eqb (v_lin a) (v_lin b) && quads_eqb (v_quad a) (v_quad b)
  && Qc_eqb (v_off a) (v_off b).

Definition no_offset (o : obs) : poly := mkPoly (Q2Qc 0) (o_lin o) (o_quad o).

Definition line_eqb (a b : coo_line) : bool :=
  Nat.eqb (fst (fst a)) (fst (fst b)) && Nat.eqb (snd (fst a)) (snd (fst b)) && Qc_eqb (snd a) (snd b).

Definition coo_text_ok (n : nat) (vt0 : vartype) (header : bool) (before : obs)
  (hdr : option vartype) (lines : list coo_line) (vt1 : vartype) (after : obs) : bool :=
  let t := coo_dumps header vt0 n (obs_poly before) in
  list_eqb line_eqb (coo_lines t) lines
  && option_eqb vartype_eqb (coo_header t) hdr
  && match coo_loads (if header then None else Some vt0) (mkCoo hdr lines) with
     | Some (vt, q) => vartype_eqb vt vt1 && poly_coeff_eqb n q (no_offset after)
     | None => false
     end.

(* short names for the worker's terms *)
Definition iArr := TArr nat nat.
Definition iDoc := TDoc nat nat.
Definition iInt := TInt nat nat.
Definition iFloat := TFloat nat nat.
Definition iStr := TStr nat nat.
Definition iNone := TNone nat nat.
Definition iBool := TBool nat nat.
Definition iList := TList nat nat.
Definition iDict := TDict nat nat.

Fixpoint itree_eqb (a b : tree nat nat) : bool :=
  match a, b with
  | TArr _ _ x, TArr _ _ y => Nat.eqb x y
  | TDoc _ _ x, TDoc _ _ y => Nat.eqb x y
  | TInt _ _ x, TInt _ _ y => Z.eqb x y
  | TFloat _ _ x, TFloat _ _ y => Qc_eqb x y
  | TStr _ _ x, TStr _ _ y => String.eqb x y
  | TNone _ _, TNone _ _ => true
  | TBool _ _ x, TBool _ _ y => Bool.eqb x y
  | TList _ _ l, TList _ _ m =>
      (fix go (l m : list (tree nat nat)) : bool :=
         match l, m with
         | [], [] => true
         | x :: xs, y :: ys => itree_eqb x y && go xs ys
         | _, _ => false
         end) l m
  | TDict _ _ l, TDict _ _ m =>
      (fix go (l m : list (string * tree nat nat)) : bool :=
         match l, m with
         | [], [] => true
         | (k, x) :: xs, (k', y) :: ys => String.eqb k k' && itree_eqb x y && go xs ys
         | _, _ => false
         end) l m
  | _, _ => false
  end.

Definition info_ok (before emitted after : tree nat nat) : bool :=
  itree_eqb (InfoSer.serialize nat nat (fun a => a) before) emitted
  && match InfoSer.deserialize nat nat (fun d => d) emitted with
     | Some t => itree_eqb t after
     | None => false
     end
  && itree_eqb (norm nat nat before) after.

Definition check (c : case) : bool :=
  match c with
  | KBqm n vt0 vt1 before vec after =>
      vartype_eqb vt0 vt1
      && poly_coeff_eqb n (obs_poly before) (obs_poly after)
      && poly_pairs_eqb n (obs_poly before) (obs_poly after)
      && match vec with
         | None => true
         | Some b => bvec_eqb (to_vectors n (obs_poly before)) b
                     && poly_coeff_eqb n (from_vectors b) (obs_poly after)
         end
  | KCoo n vt0 vt1 before after =>
      vartype_eqb vt0 vt1 && poly_coeff_eqb n (no_offset before) (no_offset after)
  | KCooText n vt0 header before hdr lines vt1 after => coo_text_ok n vt0 header before hdr lines vt1 after
  | KSS vt intd pack n rows emitted vt1 after =>
      vartype_eqb vt vt1
      && forallb (fun r => Nat.eqb (List.length r) n && forallb (valid_valueb vt) r) rows
      && sdata_eqb (ser_samples vt intd pack rows) emitted
      && rows_eqb (deser_samples vt n emitted) after
      && rows_eqb rows after
  | KLabels ls ser back =>
      list_eqb jv_eqb (map serialize_variable ls) ser
      && list_eqb lbl_eqb (map deserialize_variable ser) back
      && list_eqb lbl_eqb ls back
  | KArr a j back =>
      jarr_eqb (replace_float_with_int a) j
      && farr_eqb (jarr_val j) back
      && farr_eqb a back
  | KInfo before emitted after => info_ok before emitted after
  | KCooLines lines =>
      forallb (fun l => let '(s, u, v, m) := l in
                 String.eqb (print_line u v m) s
                 && match read_line None s with
                    | Some (u', v', m') => N.eqb u u' && N.eqb v v' && Z.eqb m m'
                    | None => false
                    end) lines
  end.
