(* Sample sets (dimod/sampleset.py) as lists of tagged rows, and the SampleSet
   operations as pure functions on them.  Executable; no proofs here.

   A row carries its sample values (in the column order of `labels`), energy,
   num_occurrences, a unique `tag` (attached by the harness as an extra data vector so
   that row identity is observable) and the values of further data vectors. *)
From Coq Require Import List ZArith QArith Qcanon Bool Arith Lia.
From Dimod Require Import Base.Util Model.Poly Model.Samples.
Import ListNotations.
Open Scope Qc_scope.

Record row := mkRow { vals : list Qc; en : Qc; oc : Z; tag : nat; extra : list Qc }.

Record sset := mkSS { labels : list label; vt : vartype; rws : list row; info : nat; fields : list nat }.

Inductive res := Ok (s : sset) | Fail (s : sset).      (* Fail s: raised, receiver left as s *)

Definition with_rows (s : sset) (r : list row) : sset := mkSS (labels s) (vt s) r (info s) (fields s).
Definition set_vals (r : row) (v : list Qc) : row := mkRow v (en r) (oc r) (tag r) (extra r).
Definition set_oc (r : row) (k : Z) : row := mkRow (vals r) (en r) k (tag r) (extra r).
Definition set_en (r : row) (e : Qc) : row := mkRow (vals r) e (oc r) (tag r) (extra r).

(* ---------- equality tests ---------- *)
Definition qlist_eqb := list_eqb Qc_eqb.
Definition row_eqb (a b : row) : bool :=
  qlist_eqb (vals a) (vals b) && Qc_eqb (en a) (en b) && (oc a =? oc b)%Z && (tag a =? tag b)%nat
  && qlist_eqb (extra a) (extra b).
Definition sset_eqb (a b : sset) : bool :=
  list_eqb Nat.eqb (labels a) (labels b) && vartype_eqb (vt a) (vt b) && list_eqb row_eqb (rws a) (rws b)
  && (info a =? info b)%nat && list_eqb Nat.eqb (fields a) (fields b).

(* ---------- label order (python's sorted on labels) ----------
   every label has a class (int / str / tuple) and a rank inside its class; a list
   is sortable iff all its labels are of one class *)
Definition lkeys := list (label * (nat * nat)).
Fixpoint lkey (K : lkeys) (v : label) : nat * nat :=
  match K with [] => (0, v)%nat | (l, k) :: r => if (l =? v)%nat then k else lkey r v end.

Definition sortable (K : lkeys) (ls : list label) : bool :=
  match ls with [] => true | v :: r => forallb (fun w => (fst (lkey K w) =? fst (lkey K v))%nat) r end.

Fixpoint insert_by {A} (k : A -> nat) (x : A) (l : list A) : list A :=
  match l with
  | [] => [x]
  | y :: r => if (k x <? k y)%nat then x :: l else y :: insert_by k x r
  end.
Fixpoint sort_by {A} (k : A -> nat) (l : list A) : list A :=
  match l with [] => [] | x :: r => insert_by k x (sort_by k r) end.

Definition sorted_labels (K : lkeys) (sortl : bool) (ls : list label) : list label :=
  if sortl && sortable K ls then sort_by (fun v => snd (lkey K v)) ls else ls.

(* move columns: rows given under `old` labels are re-expressed under `new` *)
Definition recolumn (new old : list label) (r : row) : row := set_vals r (reindex_row new old (vals r)).

(* SampleSet.from_samples' label sorting, applied to an existing set of rows *)
Definition sort_columns (K : lkeys) (sortl : bool) (s : sset) : sset :=
  let nl := sorted_labels K sortl (labels s) in
  mkSS nl (vt s) (map (recolumn nl (labels s)) (rws s)) (info s) (fields s).

(* ---------- aggregate ---------- *)
(* the direct reading: group equal sample rows, first-seen order, occurrences summed,
   everything else from the first occurrence *)
Fixpoint agg_insert (r : row) (acc : list row) : list row :=
  match acc with
  | [] => [r]
  | a :: rest => if qlist_eqb (vals a) (vals r) then set_oc a (oc a + oc r)%Z :: rest
                 else a :: agg_insert r rest
  end.
Definition aggregate_rows (l : list row) : list row := fold_left (fun acc r => agg_insert r acc) l [].

(* the code's reading: np.unique gives (in SOME order of the distinct rows) the index of the
   first occurrence of each distinct row and, for every row, the position of its class; the
   code then un-sorts by the first-occurrence index.  `uniq` below enumerates the classes in
   an arbitrary order given by `perm` (np.unique: lexicographic) - the result must not depend on it *)
Definition rowz : row := mkRow [] 0 0%Z 0 [].
Fixpoint first_index (l : list row) (v : list Qc) : nat :=
  match l with [] => 0%nat | r :: rest => if qlist_eqb (vals r) v then 0%nat else S (first_index rest v) end.
Fixpoint distinct_firsts (l : list row) (i : nat) (seen : list (list Qc)) : list nat :=
  match l with
  | [] => []
  | r :: rest => if existsb (qlist_eqb (vals r)) seen then distinct_firsts rest (S i) seen
                 else i :: distinct_firsts rest (S i) (vals r :: seen)
  end.
Fixpoint idx_val (v : list Qc) (u : list (list Qc)) : nat :=
  match u with [] => 0%nat | w :: r => if qlist_eqb w v then 0%nat else S (idx_val v r) end.

(* np.unique(sample, axis=0, return_index=True, return_inverse=True): the distinct rows in
   lexicographic order, for each the index of its first occurrence, and for every row of the
   input the position of its value among the distinct rows.  Mirrored by an insertion sort
   without duplicates. *)
Definition qlt (a b : Qc) : bool := negb (Qle_bool b a).
Fixpoint lex_lt (a b : list Qc) : bool :=
  match a, b with
  | [], [] => false
  | [], _ :: _ => true
  | _ :: _, [] => false
  | x :: a', y :: b' => if Qc_eqb x y then lex_lt a' b' else qlt x y
  end.
Fixpoint lex_insert (v : list Qc) (u : list (list Qc)) : list (list Qc) :=
  match u with
  | [] => [v]
  | w :: r => if qlist_eqb w v then u else if lex_lt v w then v :: u else w :: lex_insert v r
  end.
Definition np_unique_rows (l : list row) : list (list Qc) := fold_right (fun r u => lex_insert (vals r) u) [] l.
Definition np_unique (l : list row) : list (list Qc) * list nat * list nat :=
  let u := np_unique_rows l in (u, map (first_index l) u, map (fun r => idx_val (vals r) u) l).

(* order = np.argsort(indices) *)
Definition argsort_nat (l : list nat) : list nat :=
  map fst (sort_by snd (combine (seq 0 (length l)) l)).
(* record["num_occurrences"][n] += k *)
Fixpoint add_at (n : nat) (k : Z) (rec : list row) : list row :=
  match rec, n with
  | [], _ => []
  | a :: r, O => set_oc a (oc a + k)%Z :: r
  | a :: r, S m => a :: add_at m k r
  end.
(* the body of SampleSet.aggregate after np.unique, for ANY enumeration `u` of the distinct rows:
     order = argsort(indices); indices = indices[order]
     revorder[order] = arange(len(order)); inverse = revorder[inverse]
     record = self.record[indices]; record.num_occurrences = 0
     for old_idx, new_idx in enumerate(inverse): record.num_occurrences[new_idx] += self.record[old_idx].num_occurrences *)
Definition unsort_accumulate (u : list (list Qc)) (l : list row) : list row :=
  let indices := map (first_index l) u in
  let inverse := map (fun r => idx_val (vals r) u) l in
  let order := argsort_nat indices in
  let indices' := map (fun k => nth k indices 0%nat) order in
  let revorder := map (fun j => idx_of j order) (seq 0 (length order)) in
  let inverse' := map (fun c => nth c revorder 0%nat) inverse in
  let rec0 := map (fun i => set_oc (nth i l rowz) 0%Z) indices' in
  fold_left (fun rec (p : nat * row) => add_at (fst p) (oc (snd p)) rec) (combine inverse' l) rec0.
Definition aggregate_np (l : list row) : list row := unsort_accumulate (np_unique_rows l) l.

Definition aggregate (s : sset) : sset := with_rows s (aggregate_rows (rws s)).

(* ---------- python slices ---------- *)
Definition clampi (n : Z) (neg : bool) (x : Z) : Z :=
  if (x <? 0)%Z then (let y := (x + n)%Z in if (y <? 0)%Z then (if neg then (-1)%Z else 0%Z) else y)
  else if (n <=? x)%Z then (if neg then (n - 1)%Z else n) else x.

Fixpoint zrange (fuel : nat) (cur stop step : Z) : list nat :=
  match fuel with
  | O => []
  | S f => if (if (0 <? step)%Z then (cur <? stop)%Z else (stop <? cur)%Z)
           then Z.to_nat cur :: zrange f (cur + step)%Z stop step else []
  end.

(* slice(start, stop, step).indices(n) followed by range(...) ; step <> 0 *)
Definition slice_indices (n : nat) (start stop step : option Z) : list nat :=
  let zn := Z.of_nat n in
  let st := match step with None => 1%Z | Some s => s end in
  let neg := (st <? 0)%Z in
  let a := match start with None => if neg then (zn - 1)%Z else 0%Z | Some x => clampi zn neg x end in
  let b := match stop with None => if neg then (-1)%Z else zn | Some x => clampi zn neg x end in
  zrange n a b st.

Definition select (l : list row) (idx : list nat) : list row := map (fun i => nth i l rowz) idx.

Inductive skey := KEnergy | KOcc | KTag | KExtra (i : nat).
Definition key_of (k : skey) (r : row) : Qc :=
  match k with
  | KEnergy => en r
  | KOcc => Q2Qc (inject_Z (oc r))
  | KTag => Q2Qc (inject_Z (Z.of_nat (tag r)))
  | KExtra i => nth i (extra r) 0
  end.

Definition qle (a b : Qc) : bool := Qle_bool a b.
Fixpoint qinsert (x : Qc) (l : list Qc) : list Qc :=
  match l with [] => [x] | y :: r => if qle x y then x :: l else y :: qinsert x r end.
Fixpoint qsort (l : list Qc) : list Qc := match l with [] => [] | x :: r => qinsert x (qsort r) end.

(* a stable sort of the rows by key: one of the orders argsort may produce *)
Fixpoint rinsert (k : row -> Qc) (x : row) (l : list row) : list row :=
  match l with [] => [x] | y :: r => if qle (k x) (k y) then x :: l else y :: rinsert k x r end.
Fixpoint rsort (k : row -> Qc) (l : list row) : list row :=
  match l with [] => [] | x :: r => rinsert k x (rsort k r) end.

Definition slice_unsorted (start stop step : option Z) (s : sset) : sset :=
  with_rows s (select (rws s) (slice_indices (length (rws s)) start stop step)).
Definition slice_stable (k : skey) (start stop step : option Z) (s : sset) : sset :=
  with_rows s (select (rsort (key_of k) (rws s)) (slice_indices (length (rws s)) start stop step)).

(* relational acceptance of an observed sorted slice (argsort is not stable):
   keys are the selector applied to the sorted key list, every row is a row of the record,
   no row is used twice *)
Fixpoint nodupb (l : list nat) : bool :=
  match l with [] => true | x :: r => negb (existsb (Nat.eqb x) r) && nodupb r end.
Definition slice_sorted_ok (k : skey) (start stop step : option Z) (rows result : list row) : bool :=
  let idx := slice_indices (length rows) start stop step in
  qlist_eqb (map (key_of k) result) (map (fun i => nth i (qsort (map (key_of k) rows)) 0) idx)
  && forallb (fun r => existsb (row_eqb r) rows) result
  && nodupb (map tag result).

(* ---------- lowest / filter / first ---------- *)
Definition qabs (x : Qc) : Qc := if qle 0 x then x else - x.
Fixpoint qmin_list (d : Qc) (l : list Qc) : Qc :=
  match l with [] => d | x :: r => let m := qmin_list x r in if qle d m then d else m end.
Definition min_energy (l : list row) : Qc := match l with [] => 0 | r :: rest => qmin_list (en r) (map en rest) end.
(* numpy.isclose(a, b): |a - b| <= atol + rtol * |b| *)
Definition isclose (rtol atol b a : Qc) : bool := qle (qabs (a - b)) (atol + rtol * qabs b).
Definition lowest (rtol atol : Qc) (s : sset) : sset :=
  with_rows s (filter (fun r => isclose rtol atol (min_energy (rws s)) (en r)) (rws s)).

Inductive pred := PTrue | PFalse | PEnLe (c : Qc) | POcGe (k : Z) | PVal (v : label) (x : Qc) | PTagEven
                | PExtraLe (i : nat) (c : Qc).
Definition eval_pred (ls : list label) (p : pred) (r : row) : bool :=
  match p with
  | PTrue => true | PFalse => false
  | PEnLe c => qle (en r) c
  | POcGe k => (k <=? oc r)%Z
  | PVal v x => Qc_eqb (row_value ls (vals r) v) x
  | PTagEven => Nat.even (tag r)
  | PExtraLe i c => qle (nth i (extra r) 0) c
  end.
Definition filter_ss (p : pred) (s : sset) : sset := with_rows s (filter (eval_pred (labels s) p) (rws s)).

Definition first_ok (rows : list row) (seen : row) : bool :=
  existsb (row_eqb seen) rows && forallb (fun r => qle (en seen) (en r)) rows.

(* ---------- column operations ---------- *)
Definition memb (v : label) (l : list label) : bool := existsb (Nat.eqb v) l.
Definition subst_label (m : list (label * label)) (v : label) : label :=
  match find (fun p => (fst p =? v)%nat) m with Some p => snd p | None => v end.
(* utilities.iter_safe_relabels: targets distinct; a target that is an existing label must itself be a key *)
Definition relabel_valid (m : list (label * label)) (ls : list label) : bool :=
  nodupb (map snd m) && forallb (fun p => negb (memb (snd p) ls) || memb (snd p) (map fst m)) m.
Definition relabel_ss (m : list (label * label)) (s : sset) : res :=
  if relabel_valid m (labels s) then Ok (mkSS (map (subst_label m) (labels s)) (vt s) (rws s) (info s) (fields s))
  else Fail s.

Definition keep_ss (K : lkeys) (vs : list label) (sortl : bool) (s : sset) : res :=
  if forallb (fun v => memb v (labels s)) vs && nodupb vs then
    let nl := sorted_labels K sortl vs in
    Ok (mkSS nl (vt s) (map (recolumn nl (labels s)) (rws s)) (info s) (fields s))
  else Fail s.
Definition drop_ss (K : lkeys) (vs : list label) (s : sset) : res :=
  keep_ss K (filter (fun v => negb (memb v vs)) (labels s)) false s.

Fixpoint zip_app (rs : list row) (add : list (list Qc)) : list row :=
  match rs, add with
  | r :: rs', a :: add' => set_vals r (vals r ++ a) :: zip_app rs' add'
  | _, _ => []
  end.
Definition append_ss (K : lkeys) (nls : list label) (add : list (list Qc)) (sortl : bool) (s : sset) : res :=
  let n := length (rws s) in
  let add' := if (length add =? n)%nat then Some add
              else match add with [a] => if (0 <? n)%nat then Some (repeat a n) else None | _ => None end in
  match add' with
  | None => Fail s
  | Some ad =>
      if existsb (fun v => memb v (labels s)) nls || negb (nodupb nls) then Fail s
      else Ok (sort_columns K sortl (mkSS (labels s ++ nls) (vt s) (zip_app (rws s) ad) (info s) (fields s)))
  end.

(* change_vartype: the energy offset is added first (even when the conversion then raises) *)
Definition map_vals (f : Qc -> Qc) (s : sset) (v : vartype) : sset :=
  mkSS (labels s) v (map (fun r => set_vals r (map f (vals r))) (rws s)) (info s) (fields s).
Definition change_vartype_ss (v : vartype) (off : Qc) (s : sset) : res :=
  let s1 := if Qc_eqb off 0 then s else with_rows s (map (fun r => set_en r (en r + off)) (rws s)) in
  if vartype_eqb v (vt s) then Ok s1
  else match v, vt s with
       | SPIN, BINARY => Ok (map_vals (fun x => two * x - 1) s1 SPIN)
       | BINARY, SPIN => Ok (map_vals (fun x => (x + 1) * half) s1 BINARY)
       | _, _ => Fail s1
       end.

(* concatenate: vartype, labels and column order of the first; info dropped *)
Definition same_set (a b : list label) : bool := same_label_set a b && (length a =? length b)%nat.
Fixpoint concat_rows (first : sset) (others : list sset) : option (list row) :=
  match others with
  | [] => Some []
  | o :: rest =>
      let o' := if vartype_eqb (vt o) (vt first) then Some o
                else match change_vartype_ss (vt first) 0 o with Ok x => Some x | Fail _ => None end in
      match o', concat_rows first rest with
      | Some x, Some more =>
          if same_set (labels x) (labels first) && list_eqb Nat.eqb (fields x) (fields first)
          then Some (map (recolumn (labels first) (labels x)) (rws x) ++ more) else None
      | _, _ => None
      end
  end.
Definition concat_ss (others : list sset) (s : sset) : res :=
  match concat_rows s others with
  | Some more => Ok (mkSS (labels s) (vt s) (rws s ++ more) 0%nat (fields s))
  | None => Fail s
  end.

Fixpoint zip_extra (rs : list row) (vec : list Qc) : list row :=
  match rs, vec with
  | r :: rs', x :: vec' => mkRow (vals r) (en r) (oc r) (tag r) (extra r ++ [x]) :: zip_extra rs' vec'
  | _, _ => []
  end.
Definition append_vec_ss (name : nat) (vec : list Qc) (s : sset) : res :=
  if (length vec =? length (rws s))%nat && negb (memb name (fields s))
  then Ok (mkSS (labels s) (vt s) (zip_extra (rws s) vec) (info s) (fields s ++ [name]))
  else Fail s.

(* ---------- the operation language ---------- *)
Inductive op :=
| OAggregate
| OSlice (k : option skey) (start stop step : option Z)
| OLowest (rtol atol : Qc)
| OFilter (p : pred)
| ORelabel (m : list (label * label))
| OKeep (vs : list label) (sortl : bool)
| ODrop (vs : list label)
| OAppendVars (nls : list label) (add : list (list Qc)) (sortl : bool)
| OChangeVt (v : vartype) (off : Qc) (inpl : bool)
| OConcat (others : list sset)
| OAppendVec (name : nat) (vec : list Qc)
| OCopy.

(* deterministic reading (sorted slices use the stable order) *)
Definition apply (K : lkeys) (o : op) (s : sset) : res :=
  match o with
  | OAggregate => Ok (aggregate s)
  | OSlice None a b c => Ok (slice_unsorted a b c s)
  | OSlice (Some k) a b c => Ok (slice_stable k a b c s)
  | OLowest rt at_ => Ok (lowest rt at_ s)
  | OFilter p => Ok (filter_ss p s)
  | ORelabel m => relabel_ss m s
  | OKeep vs sl => keep_ss K vs sl s
  | ODrop vs => drop_ss K vs s
  | OAppendVars nls add sl => append_ss K nls add sl s
  | OChangeVt v off inpl => match change_vartype_ss v off s with Ok x => Ok x | Fail x => Fail (if inpl then x else s) end
  | OConcat others => concat_ss others s
  | OAppendVec n vec => append_vec_ss n vec s
  | OCopy => Ok s
  end.

(* deferred (future-backed) sample sets: the captured operations, oldest first;
   resolution applies them to the future's result; a raising hook makes resolution raise *)
Definition pending := list op.
Definition defer (o : op) (p : pending) : pending := p ++ [o].
Fixpoint resolve (K : lkeys) (p : pending) (base : sset) : option sset :=
  match p with
  | [] => Some base
  | o :: r => match apply K o base with Ok s => resolve K r s | Fail _ => None end
  end.

(* ---------- code shape of the sorted selections ----------
   slice:  record[np.argsort(record[sorted_by])[selector]]
   first:  next(self.data(sorted_by='energy'))  - the row at position argsort(energy)[0]
   `order` is whatever np.argsort returned; the mirrored stable argsort (kind='stable', which
   SampleSet.data(index=True) asks for) is an insertion sort of (position, key) pairs *)
Fixpoint pinsert (x : nat * Qc) (l : list (nat * Qc)) : list (nat * Qc) :=
  match l with [] => [x] | y :: r => if qle (snd x) (snd y) then x :: l else y :: pinsert x r end.
Fixpoint psort (l : list (nat * Qc)) : list (nat * Qc) :=
  match l with [] => [] | x :: r => pinsert x (psort r) end.
Definition argsort_stable (keys : list Qc) : list nat := map fst (psort (combine (seq 0 (length keys)) keys)).

Definition slice_sorted_code (order idx : list nat) (rows : list row) : list row :=
  select rows (map (fun j => nth j order 0%nat) idx).
Definition first_code (order : list nat) (rows : list row) : option row :=
  match order with [] => None | i :: _ => Some (nth i rows rowz) end.

(* ---------- future-backed sample sets as a two-handle state machine ----------
   A call on a sample set returns a handle; for an unresolved receiver the code either composes a
   hook on the receiver itself (relabel_variables in place) or wraps the receiver in a NEW
   unresolved sample set whose hook applies the operation when IT is resolved
   (relabel_variables(inplace=False), change_vartype(inplace=True)); change_vartype(inplace=False)
   resolves the receiver first (self.copy()).  `dstate` is what a handle is: resolved, or the hooks
   still to be applied to the future's result. *)
Inductive dstate := DResolved (s : sset) | DPending (hooks : list op).

Definition dresolve (K : lkeys) (base : sset) (d : dstate) : option sset :=
  match d with DResolved s => Some s | DPending hooks => resolve K hooks base end.

Inductive dcall := DRelabel (m : list (label * label)) (inplace : bool) | DChangeVt (v : vartype) (off : Qc) (inplace : bool).
Definition dcall_op (c : dcall) : op :=
  match c with DRelabel m _ => ORelabel m | DChangeVt v off inpl => OChangeVt v off inpl end.
Definition dcall_inplace (c : dcall) : bool := match c with DRelabel _ b => b | DChangeVt _ _ b => b end.

(* one call on a handle whose future has result `base` (used only by the calls that resolve):
   (receiver afterwards, returned handle); None = raised *)
Definition dstep (K : lkeys) (base : sset) (c : dcall) (d : dstate) : option (dstate * dstate) :=
  match d with
  | DResolved s =>
      match apply K (dcall_op c) s with
      | Ok s' => if dcall_inplace c then Some (DResolved s', DResolved s') else Some (DResolved s, DResolved s')
      | Fail _ => None
      end
  | DPending hooks =>
      match c with
      | DRelabel m true => Some (DPending (hooks ++ [ORelabel m]), DPending (hooks ++ [ORelabel m]))
      | DRelabel m false => Some (DPending hooks, DPending (hooks ++ [ORelabel m]))
      (* as the code is: a new wrapper is returned and the receiver keeps its hooks *)
      | DChangeVt v off true => Some (DPending hooks, DPending (hooks ++ [OChangeVt v off true]))
      (* self.copy() resolves the receiver *)
      | DChangeVt v off false =>
          match resolve K hooks base with
          | Some s => match apply K (OChangeVt v off false) s with
                      | Ok s' => Some (DResolved s, DResolved s')
                      | Fail _ => None
                      end
          | None => None
          end
      end
  end.
