(* dimod/binary/pybqm.py: class pyBQM, the pure-Python dict back-end used for object
   dtypes.  State:  self._adj : dict label -> dict label -> bias  (insertion ordered;
   _adj[v][v] is the LINEAR bias of v, every interaction is stored twice, _adj[u][v] and
   _adj[v][u])  +  self.offset.   Dicts are modelled as association lists in insertion
   order; a real dict never has a repeated key (pb_wf in Proofs/PyBqmFacts.v says so).
   Executable definitions only; the proofs are in Proofs/PyBqmFacts.v.
   The five change_vartype multipliers come from the GENERATED file Gen/Gen_PyBQM.v
   (translators/pybqm_multipliers.py reads them from the source). *)
From Coq Require Import List ZArith QArith Qcanon Bool Arith.
From Dimod Require Import Base.Util Model.Poly Model.Samples.
From Dimod Require Export Gen.Gen_PyBQM.
Import ListNotations.
Open Scope Qc_scope.

Definition pb_rowt := list (label * Qc).

Record pybqm := mkPyBqm { pb_adj : list (label * pb_rowt); pb_off : Qc }.

(* ---------- dict primitives ---------- *)

(* `v in d` on a list of keys (same shape as Samples.covers uses) *)
Definition pb_mem (v : label) (l : list label) : bool := existsb (Nat.eqb v) l.

(* d[v]  (a KeyError of the real dict is modelled as 0; never happens on well-formed states) *)
Fixpoint pb_get (row : pb_rowt) (v : label) : Qc :=
  match row with
  | [] => 0
  | (k, b) :: r => if (k =? v)%nat then b else pb_get r v
  end.

(* d[v] = x : an existing key keeps its position, a new key is appended *)
Fixpoint pb_set (row : pb_rowt) (v : label) (x : Qc) : pb_rowt :=
  match row with
  | [] => [(v, x)]
  | (k, b) :: r => if (k =? v)%nat then (k, x) :: r else (k, b) :: pb_set r v x
  end.

(* self._adj[u]  (missing = empty) *)
Fixpoint pb_row (adj : list (label * pb_rowt)) (u : label) : pb_rowt :=
  match adj with
  | [] => []
  | (k, Nk) :: r => if (k =? u)%nat then Nk else pb_row r u
  end.

Definition pb_vars (m : pybqm) : list label := map fst (pb_adj m).

(*  def get_linear(self, v):  return self._adj[v][v]  *)
Definition pb_get_linear (m : pybqm) (v : label) : Qc := pb_get (pb_row (pb_adj m) v) v.

(*  def iter_quadratic(self):
        seen = set()
        for u, Nu in self._adj.items():
            seen.add(u)
            for v, bias in Nu.items():
                if v not in seen:
                    yield u, v, bias                                                  *)
Fixpoint pb_iq_rows (seen : list label) (rows : list (label * pb_rowt)) : list qterm :=
  match rows with
  | [] => []
  | (u, Nu) :: r =>
      let seen' := u :: seen in
      map (fun vb => (u, fst vb, snd vb)) (filter (fun vb => negb (pb_mem (fst vb) seen')) Nu)
      ++ pb_iq_rows seen' r
  end.

Definition pb_iter_quadratic (m : pybqm) : list qterm := pb_iq_rows [] (pb_adj m).

(* the polynomial the object reports: offset, get_linear per variable, iter_quadratic *)
Definition pb_linear (m : pybqm) : list lterm := map (fun v => (v, pb_get_linear m v)) (pb_vars m).

Definition pb_abs (m : pybqm) : poly := mkPoly (pb_off m) (pb_linear m) (pb_iter_quadratic m).

(* ---------- energies ---------- *)

(* row.dot(data) for a row with (at least) len(data) entries; numpy guarantees equal
   lengths (samples has one column per label), a short row is read as padded with 0 *)
Fixpoint pb_dot (row data : list Qc) : Qc :=
  match data with
  | [] => 0
  | d :: ds => hd 0 row * d + pb_dot (tl row) ds
  end.

(* samples[i, idx]  (fancy indexing of one row) *)
Definition pb_take (row : list Qc) (idx : list nat) : list Qc := map (fun i => nth i row 0) idx.

(* elementwise product of two equally long vectors *)
Fixpoint pb_mul (a b : list Qc) : list Qc :=
  match a, b with
  | x :: xs, y :: ys => x * y :: pb_mul xs ys
  | _, _ => []
  end.

(*  def energies(self, samples_like, dtype=None):
        samples, labels = as_samples(samples_like)
        bqm_to_sample = dict((v, i) for i, v in enumerate(labels))
        if not bqm_to_sample.keys() >= self._adj.keys():
            raise ValueError(...)
        ldata = np.asarray([self.get_linear(v) if v in self._adj else 0 for v in labels], dtype=dtype)
        irow = []; icol = []; qdata = []
        for u, v, bias in self.iter_quadratic():
            irow.append(bqm_to_sample[u]); icol.append(bqm_to_sample[v]); qdata.append(bias)
        energies = samples.dot(ldata)
        energies += (samples[:, irow]*samples[:, icol]).dot(qdata)
        energies += energies.dtype.type(self.offset)
   `ls` = labels, `rows` = the rows of samples.  bqm_to_sample[v] is modelled by
   Samples.idx_of (FIRST index of v; the real dict built by enumerate keeps the LAST one -
   as_samples never returns duplicated labels, the theorem assumes NoDup ls).
   None = ValueError. *)
Definition pb_energies (m : pybqm) (ls : list label) (rows : list (list Qc)) : option (list Qc) :=
  let keys := pb_vars m in
  if negb (forallb (fun v => pb_mem v ls) keys) then None
  else
    let ldata := map (fun v => if pb_mem v keys then pb_get_linear m v else 0) ls in
    let iq := pb_iter_quadratic m in
    let irow := map (fun t : qterm => idx_of (fst (fst t)) ls) iq in
    let icol := map (fun t : qterm => idx_of (snd (fst t)) ls) iq in
    let qdata := map (fun t : qterm => snd t) iq in
    Some (map (fun row =>
                 pb_dot row ldata
                 + pb_dot (pb_mul (pb_take row irow) (pb_take row icol)) qdata
                 + pb_off m) rows).

(* ---------- change_vartype ---------- *)

Definition pb_mpt := (Qc * Qc * Qc * Qc * Qc)%type.
Definition mp_lin (mp : pb_mpt) : Qc := fst (fst (fst (fst mp))).
Definition mp_lin_offset (mp : pb_mpt) : Qc := snd (fst (fst (fst mp))).
Definition mp_quad (mp : pb_mpt) : Qc := snd (fst (fst mp)).
Definition mp_lin_quad (mp : pb_mpt) : Qc := snd (fst mp).
Definition mp_quad_offset (mp : pb_mpt) : Qc := snd mp.

(*          for v, qbias in Nu.items():
                if v == u:
                    continue
                Nu[v] = quad_mp * qbias
                Nu[u] += lin_quad_mp * qbias  # linear
                self.offset += quad_offset_mp * qbias
   `items` = what remains of the iteration over Nu.items(); the state is (Nu, offset).
   The loop only assigns to existing keys, so the iteration order is the order at loop
   start, and since dict keys are unique the value it reads for a key v <> u is the one
   the key had at loop start: `items` is taken from the dict at loop start. *)
Fixpoint pb_cv_inner (mp : pb_mpt) (u : label) (items : pb_rowt) (st : pb_rowt * Qc) : pb_rowt * Qc :=
  match items with
  | [] => st
  | (v, qbias) :: r =>
      if (v =? u)%nat then pb_cv_inner mp u r st
      else
        let Nu1 := pb_set (fst st) v (mp_quad mp * qbias) in
        let Nu2 := pb_set Nu1 u (pb_get Nu1 u + mp_lin_quad mp * qbias) in
        pb_cv_inner mp u r (Nu2, snd st + mp_quad_offset mp * qbias)
  end.

(*      for u, Nu in adj.items():
            lbias = Nu[u]
            self.offset += lin_offset_mp * lbias
            Nu[u] = lin_mp * lbias
            for v, qbias in Nu.items(): ...                                           *)
Definition pb_cv_row (mp : pb_mpt) (u : label) (Nu : pb_rowt) (off : Qc) : pb_rowt * Qc :=
  let lbias := pb_get Nu u in
  let off1 := off + mp_lin_offset mp * lbias in
  let Nu1 := pb_set Nu u (mp_lin mp * lbias) in
  pb_cv_inner mp u Nu1 (Nu1, off1).

Fixpoint pb_cv_rows (mp : pb_mpt) (rows : list (label * pb_rowt)) (off : Qc)
  : list (label * pb_rowt) * Qc :=
  match rows with
  | [] => ([], off)
  | (u, Nu) :: r =>
      let st := pb_cv_row mp u Nu off in
      let rest := pb_cv_rows mp r (snd st) in
      ((u, fst st) :: fst rest, snd rest)
  end.

Definition pb_change_vartype_with (mp : pb_mpt) (m : pybqm) : pybqm :=
  let res := pb_cv_rows mp (pb_adj m) (pb_off m) in
  mkPyBqm (fst res) (snd res).

(*  def change_vartype(self, vartype):  (the branch where the vartype really changes;
    `t` is the NEW vartype; the multipliers are the generated constants)  *)
Definition pb_change_vartype (t : pb_target) (m : pybqm) : pybqm :=
  pb_change_vartype_with (gen_pb_mp t) m.

(* ---------- well-formedness (what a real pyBQM state always satisfies) ---------- *)

Fixpoint pb_nodupb (l : list label) : bool :=
  match l with
  | [] => true
  | x :: r => negb (pb_mem x r) && pb_nodupb r
  end.

(* (v, b) is an entry of the row *)
Definition pb_has (row : pb_rowt) (v : label) (b : Qc) : bool :=
  existsb (fun kb => (fst kb =? v)%nat && Qc_eqb (snd kb) b) row.

Definition pb_row_wfb (adj : list (label * pb_rowt)) (u : label) (Nu : pb_rowt) : bool :=
  pb_nodupb (map fst Nu) && pb_mem u (map fst Nu) &&
  forallb (fun vb => (fst vb =? u)%nat
                     || (pb_mem (fst vb) (map fst adj) && pb_has (pb_row adj (fst vb)) u (snd vb))) Nu.

Definition pb_wfb (m : pybqm) : bool :=
  pb_nodupb (pb_vars m) && forallb (fun uN => pb_row_wfb (pb_adj m) (fst uN) (snd uN)) (pb_adj m).

(* ---------- executable comparison of two states ---------- *)

Definition pb_row_eqb (a b : pb_rowt) : bool := list_eqb (pair_eqb Nat.eqb Qc_eqb) a b.

Definition pb_obs_eqb (a b : pybqm) : bool :=
  list_eqb (pair_eqb Nat.eqb pb_row_eqb) (pb_adj a) (pb_adj b) && Qc_eqb (pb_off a) (pb_off b).
