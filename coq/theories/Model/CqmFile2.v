(* Model of ConstrainedQuadraticModel.to_file / from_file for CQM serialization version 2.0 on the list of archive
   members (the zip container is not modelled):
     varinfo                          VTYP section: (vartype, lower bound, upper bound) per variable, float64 bounds
     variable_labels.json             json list of labels, only when the labels are not range(n)
     objective                        expression file (DIMODEXPR: INDX / OFFS / LINB / QUAD)
     constraints/<json label>/lhs     expression file       .../rhs float64      .../sense ascii
     constraints/<json label>/discrete   b'\x01', only for a constraint marked discrete
     constraints/<json label>/weight, penalty   only for a soft constraint
   The reader: varinfo (n from the header), objective, then per constraint directory rhs, sense, weight+penalty
   (optional), lhs, discrete (optional: absent = not discrete), finally the labels (optional).  No proofs here. *)
From Coq Require Import List NArith ZArith Arith Bool Ascii String.
From Dimod Require Import Base.Util Gen.Gen_Codec Model.Codec Model.CodecEq Model.CqmFile.
Import ListNotations.
Open Scope nat_scope.
Notation length := List.length (only parsing).

Record c2con := mkC2con {
  c2_label : label;
  c2_lhs : exprfile;
  c2_rhs : bytes;
  c2_sense : bytes;
  c2_discrete : bool;
  c2_soft : option (bytes * bytes) }.

Record c2model := mkC2model {
  c2_vinfo : list vinfo;
  c2_labels : option (list label);         (* None: the variables are range(n) *)
  c2_obj : exprfile;
  c2_cons : list c2con }.

Definition c2_dir (c : c2con) : bytes := pr_label (c2_label c).

Definition con2_members (c : c2con) : archive :=
  let d := c2_dir c in
  [(member_name d "lhs", expr_encode (c2_lhs c)); (member_name d "rhs", c2_rhs c); (member_name d "sense", c2_sense c)]
  ++ (if c2_discrete c then [(member_name d "discrete", [1%N])] else [])
  ++ match c2_soft c with
     | Some (w, p) => [(member_name d "weight", w); (member_name d "penalty", p)]
     | None => []
     end.

Definition VARINFO_NAME : bytes := s2b "varinfo".
Definition LABELS_NAME : bytes := s2b "variable_labels.json".
Definition OBJECTIVE_NAME : bytes := s2b "objective".

Definition cqm2_archive (m : c2model) : archive :=
  (VARINFO_NAME, section MAGIC_VTYP NLEN_VTYP (List.concat (map enc_vinfo (c2_vinfo m))))
  :: match c2_labels m with Some l => [(LABELS_NAME, pr_labels l)] | None => [] end
  ++ (OBJECTIVE_NAME, expr_encode (c2_obj m))
  :: List.concat (map con2_members (c2_cons m)).

Definition read2_constraint (z : archive) (dir : bytes) : res c2con :=
  match zfind (member_name dir "rhs") z, zfind (member_name dir "sense") z,
        zfind (member_name dir "lhs") z, dir_label dir with
  | Some rhs, Some sense, Some lhs, Some lab =>
      if length rhs <? 8 then Err else
      let soft := match zfind (member_name dir "weight") z, zfind (member_name dir "penalty") z with
                  | Some w, Some p => Some (firstn 8 w, p)
                  | _, _ => None
                  end in
      match run expr_decode lhs with
      | Ok e =>
          let disc := match zfind (member_name dir "discrete") z with
                      | Some b => existsb (fun x => negb (N.eqb x 0)) b
                      | None => false
                      end in
          Ok (mkC2con lab e (firstn 8 rhs) sense disc soft)
      | Err => Err
      end
  | _, _, _, _ => Err
  end.

Fixpoint read2_constraints (z : archive) (dirs : list bytes) : res (list c2con) :=
  match dirs with
  | [] => Ok []
  | d :: r =>
      match read2_constraint z d, read2_constraints z r with
      | Ok c, Ok cs => Ok (c :: cs)
      | _, _ => Err
      end
  end.

(* n: num_variables of the CQM header *)
Definition cqm2_read (n : nat) (z : archive) : res c2model :=
  match zfind VARINFO_NAME z, zfind OBJECTIVE_NAME z with
  | Some vb, Some ob =>
      match run (dec_tsection MAGIC_VTYP NLEN_VTYP (pd_chunks n 17)) vb, run expr_decode ob,
            read2_constraints z (constraint_dirs z) with
      | Ok vi, Ok obj, Ok cs =>
          match zfind LABELS_NAME z with
          | None => Ok (mkC2model (map (dec_vinfo 8) vi) None obj cs)
          | Some lb => match labels_dec lb with
                       | Some l => Ok (mkC2model (map (dec_vinfo 8) vi) (Some l) obj cs)
                       | None => Err
                       end
          end
      | _, _, _ => Err
      end
  | _, _ => Err
  end.

(* comparison: constraints as a set keyed by label (the reader iterates a set of directory names) *)
Definition c2con_eqb (a b : c2con) : bool :=
  label_eqb (c2_label a) (c2_label b) && exprfile_eqb (c2_lhs a) (c2_lhs b) && bytes_eqb (c2_rhs a) (c2_rhs b)
  && bytes_eqb (c2_sense a) (c2_sense b) && Bool.eqb (c2_discrete a) (c2_discrete b)
  && option_eqb soft_eqb (c2_soft a) (c2_soft b).

Definition c2model_eqb (a b : c2model) : bool :=
  list_eqb vinfo_eqb (c2_vinfo a) (c2_vinfo b) && labels_eqb (c2_labels a) (c2_labels b)
  && exprfile_eqb (c2_obj a) (c2_obj b)
  && Nat.eqb (length (c2_cons a)) (length (c2_cons b)) && nodupb label_eqb (map c2_label (c2_cons a))
  && forallb (fun c => existsb (c2con_eqb c) (c2_cons b)) (c2_cons a).

Definition member_eqb (a b : bytes * bytes) : bool := bytes_eqb (fst a) (fst b) && bytes_eqb (snd a) (snd b).

(* ---------------------------------------------------------------- the CQM header (to_file: write_header of the counts) *)

Definition nat_mem (i : nat) (l : list nat) : bool := existsb (Nat.eqb i) l.

(* local positions of the variables of an expression that occur in at least one interaction (degree > 0) *)
Definition expr_quad_vars (e : exprfile) : list nat :=
  filter (fun i => existsb (fun q => N.eqb (fst q) (N.of_nat i) || N.eqb (fst (snd q)) (N.of_nat i)) (ef_quad e))
         (seq 0 (length (ef_idx e))).

Definition var_code (vi : list vinfo) (e : exprfile) (i : nat) : N :=
  fst (nth (N.to_nat (nth i (ef_idx e) 0%N)) vi (0%N, ([], []))).

Definition is_real (vi : list vinfo) (e : exprfile) (i : nat) : bool := N.eqb (var_code vi e i) VT_REAL.

Definition count_biases (e : exprfile) : nat := length (ef_idx e) + length (ef_quad e).
Definition sumn' (l : list nat) : nat := fold_right Nat.add 0 l.

Definition cqm2_counts (m : c2model) : list (string * nat) :=
  let vi := c2_vinfo m in
  let exprs := c2_obj m :: map c2_lhs (c2_cons m) in
  [("num_biases", sumn' (map count_biases exprs));
   ("num_constraints", length (c2_cons m));
   ("num_linear_biases_real",
      sumn' (map (fun e => length (filter (is_real vi e) (seq 0 (length (ef_idx e))))) exprs));
   ("num_quadratic_variables", sumn' (map (fun c => length (expr_quad_vars (c2_lhs c))) (c2_cons m)));
   ("num_quadratic_variables_real",
      sumn' (map (fun e => length (filter (is_real vi e) (expr_quad_vars e))) exprs));
   ("num_variables", length vi);
   ("num_weighted_constraints", length (filter (fun c => match c2_soft c with Some _ => true | None => false end) (c2_cons m)))]%string.

(* json.dumps(data, sort_keys=True) of a flat dict of non-negative integers *)
Fixpoint pr_counts (l : list (string * nat)) : bytes :=
  match l with
  | [] => []
  | [(k, v)] => 34%N :: s2b k ++ [34%N; 58%N; 32%N] ++ dec_N (N.of_nat v)
  | (k, v) :: r => 34%N :: s2b k ++ [34%N; 58%N; 32%N] ++ dec_N (N.of_nat v) ++ [44%N; 32%N] ++ pr_counts r
  end.

Definition cqm2_header (m : c2model) : bytes :=
  header CQM_PREFIX CQM_WRITE_VERSION (123%N :: pr_counts (cqm2_counts m) ++ [125%N]).
