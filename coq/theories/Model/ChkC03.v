(* C03 correspondence: the coefficients the implementation reports after fixing
   must be those of the model's fix applied to the coefficients it reported
   before; no fixed variable may still be mentioned. *)
From Coq Require Import List ZArith QArith Qcanon Bool Arith.
From Dimod Require Import Base.Util Model.Poly Model.HPoly Model.FixPy Model.HPolyPy.
From Dimod Require Model.Expr Model.FixCopy Model.FlipMarks Model.Samples.
Import ListNotations.

Record case := mkCase {
  c_n : nat;                              (* labels are 0..n-1 *)
  c_fixes : list (label * Qc);
  c_pairs : list (obs * obs)              (* (before, after) per expression *)
}.

Definition mentions_any (fs : list (label * Qc)) (o : obs) : bool :=
  existsb (fun f => existsb (fun t => (fst t =? fst f)%nat) (o_lin o)
                 || existsb (mentions (fst f)) (o_quad o)) fs.

Definition check_pair (n : nat) (fs : list (label * Qc)) (ba : obs * obs) : bool :=
  poly_coeff_eqb n (fix_variables fs (obs_poly (fst ba))) (obs_poly (snd ba))
  (* the generic Python loop of views/quadratic.py (neighbourhood -> linear, offset, remove), code-shaped *)
  && poly_coeff_eqb n (py_fix_variables fs (obs_poly (fst ba))) (obs_poly (snd ba))
  && negb (mentions_any fs (snd ba)).

Definition check (c : case) : bool := forallb (check_pair (c_n c) (c_fixes c)) (c_pairs c).

(* polynomial fixing (higherordercomposites.fix_variables) *)
Record hcase := mkHCase { h_fixes : list (label * Qc); h_before : hpoly; h_after : hpoly }.

Definition hmentions_any (fs : list (label * Qc)) (p : hpoly) : bool :=
  existsb (fun f => existsb (fun t => existsb (Nat.eqb (fst f)) (fst t)) p) fs.

Definition hcheck (c : hcase) : bool :=
  hpoly_eqb (hfix (h_fixes c) (h_before c)) (h_after c) && negb (hmentions_any (h_fixes c) (h_after c))
  (* the python loop of higherordercomposites.fix_variables (set difference, v *= value, final `()` item) *)
  && hdict_items_eqb (fix_variables_py (h_fixes c) (h_before c)) (h_after c).

(* PolyFixedVariableComposite.sample_poly(poly, fixed_variables) over an exact child: the rows returned (columns ls)
   with their energies.  Every row carries the fixed values, and its energy is the ORIGINAL polynomial's at the row
   (= the fixed polynomial's at the row, by hfix_energy; both are evaluated) *)
Record pcase := mkPCase {
  pc_fixes : list (label * Qc); pc_poly : hpoly; pc_ls : list label; pc_rows : list (list Qc); pc_en : list Qc }.

Definition pcheck (c : pcase) : bool :=
  list_eqb Qc_eqb (map (fun row => henergy (pc_poly c) (Samples.row_sample (pc_ls c) row)) (pc_rows c)) (pc_en c)
  && list_eqb Qc_eqb (map (fun row => henergy (hfix (pc_fixes c) (pc_poly c)) (Samples.row_sample (pc_ls c) row))
                          (pc_rows c)) (pc_en c)
  && forallb (fun row => (length row =? length (pc_ls c))%nat
                         && forallb (fun f => existsb (Nat.eqb (fst f)) (pc_ls c)
                                              && Qc_eqb (Samples.row_value (pc_ls c) row (fst f)) (snd f)) (pc_fixes c))
             (pc_rows c).

(* ---------- CQM, index level: the two code paths on the RAW expression state ----------
   before / after are the raw states (_iindices, _ilinear, _iquadratic, offset of the objective and of every
   constraint, varinfo) observed around fix_variable(s); the copying path is run through
   FixCopy.cqm_fix_variables_copy (constrained_quadratic_model.h fix_variables / fix_variables_expr), the in-place
   paths through FixCopy.cqm_fix_variables_inplace (substitute_variable(v,0,a) + remove_variable with re-indexing) *)
Definition mexpr_of_raw (idx : list nat) (lin : list Qc) (quad : list Expr.lqterm) (off : Qc) : Expr.mexpr :=
  Expr.mkE idx (Expr.rebuild_idx idx) lin quad off.

(* same variable order, same linear vector, same offset, same interactions with the same biases *)
Definition mexpr_sim (n : nat) (a b : Expr.mexpr) : bool :=
  list_eqb Nat.eqb (Expr.e_vars a) (Expr.e_vars b)
  && list_eqb Qc_eqb (Expr.e_lin a) (Expr.e_lin b)
  && Qc_eqb (Expr.e_off a) (Expr.e_off b)
  && poly_coeff_eqb n (Expr.abs_expr a) (Expr.abs_expr b)
  && poly_pairs_eqb n (Expr.abs_expr a) (Expr.abs_expr b).

Definition minfo_eqb (a b : Expr.minfo) : bool :=
  vartype_eqb (Expr.i_vt a) (Expr.i_vt b) && Qc_eqb (Expr.i_lb a) (Expr.i_lb b) && Qc_eqb (Expr.i_ub a) (Expr.i_ub b).

Definition mcon_sim (n : nat) (a b : Expr.mcon) : bool :=
  mexpr_sim n (Expr.mc_e a) (Expr.mc_e b)
  && (Expr.mc_sense a =? Expr.mc_sense b)%nat && Qc_eqb (Expr.mc_rhs a) (Expr.mc_rhs b)
  && option_eqb Qc_eqb (Expr.mc_weight a) (Expr.mc_weight b) && (Expr.mc_pen a =? Expr.mc_pen b)%nat.

Definition mcqm_sim (n : nat) (a b : Expr.mcqm) : bool :=
  list_eqb minfo_eqb (Expr.m_info a) (Expr.m_info b)
  && mexpr_sim n (Expr.m_obj a) (Expr.m_obj b)
  && list_eqb (mcon_sim n) (Expr.m_cons a) (Expr.m_cons b).

Record ccase := mkCC {
  cc_case : case;                      (* the coefficient-level observation, checked as before *)
  cc_copy : bool;                      (* true: fix_variables(inplace=False) ; false: the in-place paths *)
  cc_fixed : list (nat * Qc);          (* (index in the ORIGINAL model, value), in the order given *)
  cc_before : Expr.mcqm;
  cc_after : Expr.mcqm
}.

(* marks of before / after are lhs.is_discrete() = marked_discrete() && is_onehot(); the in-place path is the Cython
   fix_variable with its marker loop (FlipMarks.cy_cqm_fix_variables_inplace), the copy path marks
   old-marked && new-is-onehot; both are compared through FlipMarks.discrete_view with what is_discrete() reports *)
Definition ccheck (c : ccase) : bool :=
  let m := if cc_copy c then FixCopy.cqm_fix_variables_copy (cc_fixed c) (cc_before c)
           else FlipMarks.cy_cqm_fix_variables_inplace (cc_fixed c) (cc_before c) in
  check (cc_case c)
  && mcqm_sim (length (Expr.m_info (cc_before c))) m (cc_after c)
  && list_eqb Bool.eqb (FlipMarks.discrete_view m) (map Expr.mc_mark (Expr.m_cons (cc_after c))).
