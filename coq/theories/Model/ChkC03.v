(* C03 correspondence: the coefficients the implementation reports after fixing
   must be those of the model's fix applied to the coefficients it reported
   before; no fixed variable may still be mentioned. *)
From Coq Require Import List ZArith QArith Qcanon Bool Arith.
From Dimod Require Import Base.Util Model.Poly Model.HPoly.
Import ListNotations.

Record case := mkCase {
  c_n : nat;                              (* labels are 0..n-1 *)
  c_fixes : list (label * Qc);
  c_pairs : list (obs * obs)              (* (before, after) per expression *)
}.

Definition mentions_any (fs : list (label * Qc)) (o : obs) : bool :=
  existsb (fun f => existsb (fun t => (fst t =? fst f)%nat) (o_lin o)
                 || existsb (mentions (fst f)) (o_quad o)) fs.

Definition check_pair (n : nat) (fs : list (label * Qc)) (ba : obs * obs) : bool :=
  poly_coeff_eqb n (fix_variables fs (obs_poly (fst ba))) (obs_poly (snd ba))
  && negb (mentions_any fs (snd ba)).

Definition check (c : case) : bool := forallb (check_pair (c_n c) (c_fixes c)) (c_pairs c).

(* polynomial fixing (higherordercomposites.fix_variables) *)
Record hcase := mkHCase { h_fixes : list (label * Qc); h_before : hpoly; h_after : hpoly }.

Definition hmentions_any (fs : list (label * Qc)) (p : hpoly) : bool :=
  existsb (fun f => existsb (fun t => existsb (Nat.eqb (fst f)) (fst t)) p) fs.

Definition hcheck (c : hcase) : bool :=
  hpoly_eqb (hfix (h_fixes c) (h_before c)) (h_after c) && negb (hmentions_any (h_fixes c) (h_after c)).
