(* The part of an expression that a polynomial-as-a-bag does not have: the ORDER of its variables
   (variables_) and the ordered list of its interactions including explicit zeros.
   ostep runs a history of index-level operations (Model/ExprOps.v) on the order lists alone;
   qp_* give the effect of every operation on the interaction list of a polynomial.
   Executable; no proofs in this file. *)
From Coq Require Import List ZArith QArith Qcanon Bool Arith.
From Dimod Require Import Base.Util Model.Poly Model.Expr Model.ExprOps Model.CQMSpec.
Import ListNotations.

(* enforce_variable on the order list *)
Definition enf (v : nat) (l : list nat) : list nat := if memb v l then l else l ++ [v].
Definition del (v : nat) (l : list nat) : list nat := filter (fun x => negb (x =? v)%nat) l.

Definition ord_eop (o : eop) (l : list nat) : list nat :=
  match o with
  | EAddLinear v _ | ESetLinear v _ => enf v l
  | EAddQuadratic u v _ => enf u (enf v l)          (* v is appended before u (argument evaluation order) *)
  | ERemoveVariable v => del v l
  | EClear => []
  | ERemoveInteraction _ _ | EAddOffset _ | ESetOffset _ => l
  end.
Definition ord_reindex (v : nat) (l : list nat) : list nat := map (shift v) (del v l).

(* the interactions of a polynomial, in order, zeros included *)
Definition qpairs (p : poly) : list (nat * nat) := map fst (p_quad p).
Definition pmention (v : nat) (ab : nat * nat) : bool := ((fst ab =? v) || (snd ab =? v))%nat.

Definition qp_eop (vt : nat -> vartype) (o : eop) (l : list (nat * nat)) : list (nat * nat) :=
  match o with
  | EAddQuadratic u v _ =>
      if (u =? v)%nat then match vt u with BINARY | SPIN => l | _ => (u, u) :: l end else (u, v) :: l
  | ERemoveInteraction u v => filter (fun ab => negb (same_pair u v (fst ab) (snd ab))) l
  | ERemoveVariable v => filter (fun ab => negb (pmention v ab)) l
  | EClear => []
  | EAddLinear _ _ | ESetLinear _ _ | EAddOffset _ | ESetOffset _ => l
  end.
Definition qp_reindex (v : nat) (l : list (nat * nat)) : list (nat * nat) :=
  map (fun ab => (shift v (fst ab), shift v (snd ab))) (filter (fun ab => negb (pmention v ab)) l).

(* ---------- the history on the order lists ---------- *)
Record oidx := mkO { o_n : nat; o_obj : list nat; o_cons : list (list nat) }.
Definition o_empty : oidx := mkO 0 [] [].

Definition gen_ok (n nc : nat) (o : mop) : bool :=
  match o with
  | MAddVariable _ | MRemoveConstraint _ | MSetAttrs _ _ _ _ => true
  | MSetInfo v _ | MRemoveVariable v | MFixVariable v _ | MSubstitute v _ _ => (v <? n)%nat
  | MEdit EObj o => eop_ok n o
  | MEdit (ECon c) o => (c <? nc)%nat && eop_ok n o
  | MAddConstraintCopy lin quad _ mapping _ _ | MAddConstraintMove lin quad _ mapping _ _ => mapping_ok n lin quad mapping
  end.

Definition ord_from_copy (lin : list Qc) (quad : list lqterm) (mapping : list nat) : list nat :=
  let l1 := fold_left (fun l ib => ord_eop (EAddLinear (nth (fst ib) mapping 0%nat) (snd ib)) l)
                      (combine (seq 0 (length lin)) lin) [] in
  fold_left (fun l t => ord_eop (EAddQuadratic (nth (fst (fst t)) mapping 0%nat) (nth (snd (fst t)) mapping 0%nat) (snd t)) l)
            quad l1.

Definition ostep (q : oidx) (o : mop) : oidx :=
  if negb (gen_ok (o_n q) (length (o_cons q)) o) then q else
  match o with
  | MAddVariable _ => mkO (S (o_n q)) (o_obj q) (o_cons q)
  | MRemoveVariable v | MFixVariable v _ => mkO (pred (o_n q)) (ord_reindex v (o_obj q)) (map (ord_reindex v) (o_cons q))
  | MEdit EObj o => mkO (o_n q) (ord_eop o (o_obj q)) (o_cons q)
  | MEdit (ECon c) o => mkO (o_n q) (o_obj q) (upd_nth c (ord_eop o) (o_cons q))
  | MAddConstraintCopy lin quad _ mapping _ _ => mkO (o_n q) (o_obj q) (o_cons q ++ [ord_from_copy lin quad mapping])
  | MAddConstraintMove _ _ _ mapping _ _ => mkO (o_n q) (o_obj q) (o_cons q ++ [mapping])
  | MRemoveConstraint c => mkO (o_n q) (o_obj q) (remove_nth c (o_cons q))
  | MSetInfo _ _ | MSubstitute _ _ _ | MSetAttrs _ _ _ _ => q
  end.
Definition orun (ops : list mop) (q : oidx) : oidx := fold_left ostep ops q.
