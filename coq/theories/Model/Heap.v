(* C19, object level: a heap of model objects (plain polynomials, Model/Poly.v) and sample sets
   (Model/SSet.v) in which every copy-producing call of the property text is an explicit
   constructor computing a NEW object by the pure function that documents it, and every in-place
   call rewrites exactly one cell.  Executable; no proofs here.  (Views are treated in Store.v.) *)
From Coq Require Import List ZArith QArith Qcanon Bool Arith.
From Dimod Require Import Base.Util Model.Poly Model.Samples Model.SSet.
Import ListNotations.
Open Scope Qc_scope.

(* a CQM: its objective and its labelled constraint left-hand sides (what a model handed to
   add_constraint / set_objective becomes part of) *)
Inductive obj := OModel (p : poly) | OSet (s : sset) | OCqm (objective : poly) (cons : list (nat * poly))
               | OVars (ls : list label)         (* a dimod.variables.Variables object *)
               | OOpaque (id : nat).             (* an object of a class with no model here (BinaryPolynomial, DQM): its
                                                    bit-for-bit snapshot, interned by the harness (equal ids <=> equal snapshots) *)
Definition heap := list obj.

(* copy-producing calls *)
Inductive cop :=
| CCopy                                  (* copy(), copy.copy, copy.deepcopy, pickle round trip, BQM(bqm), QM.from_bqm, SampleSet.copy *)
| CRelabel (f : label -> label)          (* relabel_variables(mapping, inplace=False), relabel_variables_as_integers(inplace=False) *)
| CSpinToBinary (vs : list label)        (* change_vartype('BINARY', inplace=False), spin_to_binary(inplace=False) *)
| CBinaryToSpin (vs : list label)        (* change_vartype('SPIN', inplace=False) *)
| CFix (fs : list (label * Qc))          (* fix_variables(fixed, inplace=False) *)
| CScale (k : Qc)                        (* k * a *)
| CNeg                                   (* -a *)
| CAddConst (c : Qc)                     (* a + c, a - c *)
| CAdd (other : nat)                     (* a + b *)
| CSub (other : nat)                     (* a - b *)
| CSet (o : op)                          (* SampleSet: relabel_variables / change_vartype (inplace=False), slice, truncate,
                                            lowest, filter, aggregate, keep/drop/append_variables, append_data_vectors,
                                            concatenate with given sample sets, copy *)
| CConcat (others : list nat)            (* dimod.concatenate([a] + other live sample sets) *)
| CGiven (result : obj).                 (* a copy-producing call whose result function is not modelled here: the result is given *)

(* in-place calls *)
Inductive iop :=
| IRelabel (f : label -> label)
| ISpinToBinary (vs : list label)
| IBinaryToSpin (vs : list label)
| IFix (fs : list (label * Qc))
| IScale (k : Qc)
| IAddConst (c : Qc)
| ISet (o : op)                          (* SampleSet.relabel_variables / change_vartype in place *)
| IAny (e : obj -> obj).                 (* any other in-place edit *)

Definition s2b (vs : list label) (p : poly) : poly := fold_left (fun acc v => spin_to_binary v acc) vs p.
Definition b2s (vs : list label) (p : poly) : poly := fold_left (fun acc v => binary_to_spin v acc) vs p.

Definition model_of (h : heap) (i : nat) : option poly :=
  match nth_error h i with Some (OModel p) => Some p | _ => None end.
Fixpoint sets_of (h : heap) (is_ : list nat) : option (list sset) :=
  match is_ with
  | [] => Some []
  | i :: r => match nth_error h i, sets_of h r with
              | Some (OSet s), Some l => Some (s :: l)
              | _, _ => None
              end
  end.

(* None = the call raises (or is not defined for this kind of object): nothing is created *)
Definition apply_cop (K : lkeys) (h : heap) (c : cop) (o : obj) : option obj :=
  match c, o with
  | CCopy, _ => Some o
  | CGiven x, _ => Some x
  | CRelabel f, OModel p => Some (OModel (relabel f p))
  | CSpinToBinary vs, OModel p => Some (OModel (s2b vs p))
  | CBinaryToSpin vs, OModel p => Some (OModel (b2s vs p))
  | CFix fs, OModel p => Some (OModel (fix_variables fs p))
  | CScale k, OModel p => Some (OModel (scale k p))
  | CNeg, OModel p => Some (OModel (pneg p))
  | CAddConst c0, OModel p => Some (OModel (add_offset c0 p))
  | CAdd j, OModel p => option_map (fun q => OModel (padd p q)) (model_of h j)
  | CSub j, OModel p => option_map (fun q => OModel (psub p q)) (model_of h j)
  | CSet o', OSet s => match apply K o' s with Ok s' => Some (OSet s') | Fail _ => None end
  | CConcat js, OSet s => match sets_of h js with
                          | Some l => match concat_ss l s with Ok s' => Some (OSet s') | Fail _ => None end
                          | None => None
                          end
  | _, _ => None
  end.

Definition apply_iop (K : lkeys) (i : iop) (o : obj) : obj :=
  match i, o with
  | IRelabel f, OModel p => OModel (relabel f p)
  | ISpinToBinary vs, OModel p => OModel (s2b vs p)
  | IBinaryToSpin vs, OModel p => OModel (b2s vs p)
  | IFix fs, OModel p => OModel (fix_variables fs p)
  | IScale k, OModel p => OModel (scale k p)
  | IAddConst c0, OModel p => OModel (add_offset c0 p)
  | ISet o', OSet s => match apply K o' s with Ok s' => OSet s' | Fail s' => OSet s' end
  | IAny e, _ => e o
  | _, _ => o
  end.

(* the in-place call of which a copy-producing call is the inplace=False variant *)
Definition inplace_of (c : cop) : option iop :=
  match c with
  | CRelabel f => Some (IRelabel f)
  | CSpinToBinary vs => Some (ISpinToBinary vs)
  | CBinaryToSpin vs => Some (IBinaryToSpin vs)
  | CFix fs => Some (IFix fs)
  | CScale k => Some (IScale k)
  | CAddConst c0 => Some (IAddConst c0)
  | CSet o => Some (ISet o)
  | _ => None
  end.

Fixpoint hset (h : heap) (i : nat) (o : obj) : heap :=
  match h, i with
  | [], _ => []
  | _ :: r, O => o :: r
  | x :: r, S j => x :: hset r j o
  end.

Inductive hop :=
| HNew (o : obj)
| HCopy (src : nat) (c : cop)
| HEdit (i : nat) (e : iop)
(* cqm.add_constraint_from_model / add_constraint(comparison) / add_discrete*(...) with a live model:
   copy=True stores a copy, copy=False MOVES the model in and leaves the caller's model empty *)
| HAddConstraint (ci mi lbl : nat) (copy : bool)
(* cqm.set_objective(model): always copies *)
| HSetObjective (ci mi : nat).

Definition hstep (K : lkeys) (h : heap) (o : hop) : heap :=
  match o with
  | HNew x => h ++ [x]
  | HCopy src c => match nth_error h src with
                   | Some x => match apply_cop K h c x with Some y => h ++ [y] | None => h end
                   | None => h
                   end
  | HEdit i e => match nth_error h i with Some x => hset h i (apply_iop K e x) | None => h end
  | HAddConstraint ci mi lbl copy =>
      match nth_error h ci, nth_error h mi with
      | Some (OCqm ob cs), Some (OModel p) =>
          let h1 := hset h ci (OCqm ob (cs ++ [(lbl, p)])) in
          if copy then h1 else hset h1 mi (OModel pzero)
      | _, _ => h
      end
  | HSetObjective ci mi =>
      match nth_error h ci, nth_error h mi with
      | Some (OCqm ob cs), Some (OModel p) => hset h ci (OCqm p cs)
      | _, _ => h
      end
  end.

(* the expression views of a CQM are read from the CQM's own cell *)
Definition cqm_objective (h : heap) (ci : nat) : option poly :=
  match nth_error h ci with Some (OCqm ob _) => Some ob | _ => None end.
Definition cqm_constraint (h : heap) (ci lbl : nat) : option poly :=
  match nth_error h ci with
  | Some (OCqm _ cs) => option_map snd (find (fun c => (fst c =? lbl)%nat) cs)
  | _ => None
  end.

Definition hrun (K : lkeys) (h : heap) (ops : list hop) : heap := fold_left (hstep K) ops h.

(* the spin / binary views of a BQM as the view function of Model/Store.v: a model is its variable
   list and its polynomial; view kind 0 = .spin of a BINARY model, 1 = .binary of a SPIN model *)
Definition mstate := (list label * poly)%type.
Definition model_viewfn (w : nat) (m : mstate) : mstate :=
  match w with
  | O => (fst m, b2s (fst m) (snd m))
  | S O => (fst m, s2b (fst m) (snd m))
  | _ => m
  end.
