(* dimod/sampleset.py:_sample_array - the integer dtype chosen for a samples-like given without
   dtype: the first candidate signed type (Gen/Gen_Narrow.v, generated from the source) whose
   iinfo.max is at least  max(-min(values, initial=0), +max(values, initial=0)).  Executable. *)
From Coq Require Import List ZArith Bool.
From Dimod Require Import Gen.Gen_Narrow.
Import ListNotations.
Open Scope Z_scope.

Definition min0 (vals : list Z) : Z := fold_right Z.min 0 vals.      (* arr.min(initial=0) *)
Definition max0 (vals : list Z) : Z := fold_right Z.max 0 vals.      (* arr.max(initial=0) *)
Definition magnitude (vals : list Z) : Z := Z.max (- min0 vals) (max0 vals).

Definition iinfo_max (w : nat) : Z := 2 ^ (Z.of_nat w - 1) - 1.
Definition iinfo_min (w : nat) : Z := - 2 ^ (Z.of_nat w - 1).

Definition narrow_in (cands : list nat) (vals : list Z) : option nat :=
  find (fun w => magnitude vals <=? iinfo_max w) cands.

(* None = ValueError: does not fit in np.int64 *)
Definition narrow (vals : list Z) : option nat := narrow_in gen_narrow_candidates vals.
