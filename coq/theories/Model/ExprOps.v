(* The index-level API of dimod::ConstrainedQuadraticModel as an operation type
   with a total step function (M level), and the same operations on a plain
   list of polynomials over model indices (S level, index form).
   A call whose arguments violate the C++ preconditions (the asserts the Cython
   layer guarantees by resolving labels first) leaves the model unchanged.
   Executable; no proofs in this file. *)
From Coq Require Import List ZArith QArith Qcanon Bool Arith.
From Dimod Require Import Base.Util Model.Poly Model.Expr.
Import ListNotations.
Open Scope Qc_scope.

Inductive eop :=
| EAddLinear (v : nat) (b : Qc)
| ESetLinear (v : nat) (b : Qc)
| EAddQuadratic (u v : nat) (b : Qc)
| ERemoveInteraction (u v : nat)
| ERemoveVariable (v : nat)
| EAddOffset (b : Qc)
| ESetOffset (b : Qc)
| EClear.

Inductive etarget := EObj | ECon (c : nat).

Inductive mop :=
| MAddVariable (i : minfo)
| MSetInfo (v : nat) (i : minfo)                 (* set_vartype / set_lower_bound / set_upper_bound *)
| MRemoveVariable (v : nat)
| MFixVariable (v : nat) (a : Qc)
| MSubstitute (v : nat) (m c : Qc)               (* flip_variable, change_vartype *)
| MEdit (t : etarget) (o : eop)
| MAddConstraintCopy (lin : list Qc) (quad : list lqterm) (off : Qc) (mapping : list nat) (sense : nat) (rhs : Qc)
| MAddConstraintMove (lin : list Qc) (quad : list lqterm) (off : Qc) (mapping : list nat) (sense : nat) (rhs : Qc)
| MRemoveConstraint (c : nat)
| MSetAttrs (c : nat) (w : option Qc) (pen : nat) (mark : bool).

Definition eop_ok (n : nat) (o : eop) : bool :=
  match o with
  | EAddLinear v _ | ESetLinear v _ | ERemoveVariable v => (v <? n)%nat
  | EAddQuadratic u v _ | ERemoveInteraction u v => ((u <? n) && (v <? n))%nat
  | EAddOffset _ | ESetOffset _ | EClear => true
  end.

Definition apply_eop (vt : nat -> vartype) (o : eop) (e : mexpr) : mexpr :=
  match o with
  | EAddLinear v b => m_add_linear v b e
  | ESetLinear v b => m_set_linear v b e
  | EAddQuadratic u v b => m_add_quadratic vt u v b e
  | ERemoveInteraction u v => m_remove_interaction u v e
  | ERemoveVariable v => m_remove_variable v e
  | EAddOffset b => m_add_offset b e
  | ESetOffset b => mkE (e_vars e) (e_idx e) (e_lin e) (e_quad e) b
  | EClear => e_empty
  end.

Definition spec_add_quadratic (vt : nat -> vartype) (u v : nat) (b : Qc) (p : poly) : poly :=
  add_quadratic vt u v b (add_linear v 0 (add_linear u 0 p)).

Definition spec_eop (vt : nat -> vartype) (o : eop) (p : poly) : poly :=
  match o with
  | EAddLinear v b => add_linear v b p
  | ESetLinear v b => set_linear v b p
  | EAddQuadratic u v b => spec_add_quadratic vt u v b p
  | ERemoveInteraction u v => remove_interaction u v p
  | ERemoveVariable v => remove_variable v p
  | EAddOffset b => add_offset b p
  | ESetOffset b => mkPoly b (p_lin p) (p_quad p)
  | EClear => pzero
  end.

Definition vt_info (info : list minfo) (v : nat) : vartype :=
  match nth_error info v with Some i => i_vt i | None => INTEGER end.

Definition mapping_ok (n : nat) (lin : list Qc) (quad : list lqterm) (mapping : list nat) : bool :=
  nodupb mapping && forallb (fun u => (u <? n)%nat) mapping && (length lin =? length mapping)%nat
  && forallb (fun t => ((fst (fst t) <? length mapping) && (snd (fst t) <? length mapping))%nat) quad.

Definition new_con (e : mexpr) (sense : nat) (rhs : Qc) : mcon := mkMC e sense rhs None 0%nat false.

Definition mop_ok (q : mcqm) (o : mop) : bool :=
  let n := length (m_info q) in
  match o with
  | MAddVariable _ | MRemoveConstraint _ | MSetAttrs _ _ _ _ => true
  | MSetInfo v _ | MRemoveVariable v | MFixVariable v _ | MSubstitute v _ _ => (v <? n)%nat
  | MEdit EObj o => eop_ok n o
  | MEdit (ECon c) o => (c <? length (m_cons q))%nat && eop_ok n o
  | MAddConstraintCopy lin quad _ mapping _ _ | MAddConstraintMove lin quad _ mapping _ _ => mapping_ok n lin quad mapping
  end.

Definition mstep (q : mcqm) (o : mop) : mcqm :=
  if negb (mop_ok q o) then q else
  let vt := vt_info (m_info q) in
  match o with
  | MAddVariable i => mkM (m_info q ++ [i]) (m_obj q) (m_cons q)
  | MSetInfo v i => mkM (upd_nth v (fun _ => i) (m_info q)) (m_obj q) (m_cons q)
  | MRemoveVariable v => cqm_remove_variable v q
  | MFixVariable v a => cqm_fix_variable v a q
  | MSubstitute v m c => cqm_substitute v m c q
  | MEdit EObj o => cqm_edit_obj (apply_eop vt o) q
  | MEdit (ECon c) o => cqm_edit_con c (apply_eop vt o) q
  | MAddConstraintCopy lin quad off mapping sense rhs =>
      mkM (m_info q) (m_obj q) (m_cons q ++ [new_con (expr_from_copy vt lin quad off mapping) sense rhs])
  | MAddConstraintMove lin quad off mapping sense rhs =>
      mkM (m_info q) (m_obj q) (m_cons q ++ [new_con (expr_from_move lin quad off mapping) sense rhs])
  | MRemoveConstraint c => mkM (m_info q) (m_obj q) (remove_nth c (m_cons q))
  | MSetAttrs c w pen mark =>
      mkM (m_info q) (m_obj q) (upd_nth c (fun k => mkMC (mc_e k) (mc_sense k) (mc_rhs k) w pen mark) (m_cons q))
  end.

Definition m_empty : mcqm := mkM [] e_empty [].
Definition mrun (ops : list mop) (q : mcqm) : mcqm := fold_left mstep ops q.

(* ---------- the same history on a plain list of polynomials over model indices ---------- *)
Record sidx := mkS { s_info : list minfo; s_obj : poly; s_cons : list poly }.
Definition s_empty : sidx := mkS [] pzero [].

Definition spec_from_copy (vt : nat -> vartype) (lin : list Qc) (quad : list lqterm) (off : Qc) (mapping : list nat) : poly :=
  let p1 := fold_left (fun p ib => add_linear (nth (fst ib) mapping 0%nat) (snd ib) p)
                      (combine (seq 0 (length lin)) lin) pzero in
  let p2 := fold_left (fun p t => spec_add_quadratic vt (nth (fst (fst t)) mapping 0%nat) (nth (snd (fst t)) mapping 0%nat) (snd t) p)
                      quad p1 in
  add_offset off p2.
Definition spec_from_move (lin : list Qc) (quad : list lqterm) (off : Qc) (mapping : list nat) : poly :=
  mkPoly off (combine mapping lin)
         (map (fun t => (nth (fst (fst t)) mapping 0%nat, nth (snd (fst t)) mapping 0%nat, snd t)) quad).

Definition sop_ok (q : sidx) (o : mop) : bool :=
  let n := length (s_info q) in
  match o with
  | MAddVariable _ | MRemoveConstraint _ | MSetAttrs _ _ _ _ => true
  | MSetInfo v _ | MRemoveVariable v | MFixVariable v _ | MSubstitute v _ _ => (v <? n)%nat
  | MEdit EObj o => eop_ok n o
  | MEdit (ECon c) o => (c <? length (s_cons q))%nat && eop_ok n o
  | MAddConstraintCopy lin quad _ mapping _ _ | MAddConstraintMove lin quad _ mapping _ _ => mapping_ok n lin quad mapping
  end.

Definition sstep (q : sidx) (o : mop) : sidx :=
  if negb (sop_ok q o) then q else
  let vt := vt_info (s_info q) in
  let all f := mkS (s_info q) (f (s_obj q)) (map f (s_cons q)) in
  match o with
  | MAddVariable i => mkS (s_info q ++ [i]) (s_obj q) (s_cons q)
  | MSetInfo v i => mkS (upd_nth v (fun _ => i) (s_info q)) (s_obj q) (s_cons q)
  | MRemoveVariable v =>
      mkS (remove_nth v (s_info q)) (relabel (shift v) (remove_variable v (s_obj q)))
          (map (fun p => relabel (shift v) (remove_variable v p)) (s_cons q))
  | MFixVariable v a =>
      mkS (remove_nth v (s_info q)) (relabel (shift v) (fix_variable v a (s_obj q)))
          (map (fun p => relabel (shift v) (fix_variable v a p)) (s_cons q))
  | MSubstitute v m c => all (substitute v m c)
  | MEdit EObj o => mkS (s_info q) (spec_eop vt o (s_obj q)) (s_cons q)
  | MEdit (ECon c) o => mkS (s_info q) (s_obj q) (upd_nth c (spec_eop vt o) (s_cons q))
  | MAddConstraintCopy lin quad off mapping _ _ => mkS (s_info q) (s_obj q) (s_cons q ++ [spec_from_copy vt lin quad off mapping])
  | MAddConstraintMove lin quad off mapping _ _ => mkS (s_info q) (s_obj q) (s_cons q ++ [spec_from_move lin quad off mapping])
  | MRemoveConstraint c => mkS (s_info q) (s_obj q) (remove_nth c (s_cons q))
  | MSetAttrs _ _ _ _ => q
  end.
Definition srun (ops : list mop) (q : sidx) : sidx := fold_left sstep ops q.
