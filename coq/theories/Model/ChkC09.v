(* C09 correspondence: byte-exact agreement between the model's encoder and the bytes the
   implementation wrote for the observed model state, and the model's decoder applied to the
   implementation's bytes must give back that state. *)
From Coq Require Import List NArith ZArith Arith Bool.
From Dimod Require Import Base.Util Gen.Gen_Codec Model.Codec Model.CodecEq Model.CqmFile Model.CqmFile2 Model.Npy Model.Rebuild Gen.Gen_Loaders Model.Loaders.
From Dimod Require Export Model.CodecEq.
Import ListNotations.


Inductive case :=
| CBqm (f : bqmfile) (impl : bytes)
| CQm (f : qmfile) (impl : bytes)
| CExpr (f : exprfile) (impl : bytes)
| CVarinfo (vi : list (N * (bytes * bytes))) (impl : bytes)   (* the `varinfo` member of a CQM zip *)
| CLabels (l : list label) (json : bytes)
  (* the full adjacency observed on the LOADED model (iter_neighborhood order) and the lower triangles in the file *)
| CAdj (full : list (list (N * bytes))) (low : list (list (N * bytes)))     (* json.dumps(serializable labels) as written into a zip member *)
  (* a CQM serialization-version-1.x file: the members of its zip archive, and the model the implementation
     loaded from it (variables in the LOADED order, objective, constraints) *)
| CLegacy (z : archive) (loaded : lmodel)
  (* a BQM file written by an OLDER writer: only the decoder is compared (state of the loaded model) *)
  (* a CQM serialization-version-2.0 file written by the implementation: the members of its archive in directory order,
     and the saved model as the member-level record of Model/CqmFile2.v *)
| CCqm2 (z : archive) (m : c2model)
  (* the 64-byte aligned CQM header in front of the archive: magic, version (2, 0), the seven counts *)
| CCqm2H (m : c2model) (hdr : bytes)
  (* the .npy members of the data section of a DQM file, and the vectors of the model that was saved / loaded *)
| CDqm (z : archive) (vec : dqmvec)
  (* one integer .npy member (case_starts / row / column indices of a DQM too large to render in full) *)
| CNpyInts (member : bytes) (xs : list N)
| CBqmDec (f : bqmfile) (impl : bytes)
| CExprDec (f : exprfile) (impl : bytes)
  (* float32 bytes and the float64 bytes NumPy converts them to *)
| CWiden (pairs : list (bytes * bytes)).

Definition res_is {A : Type} (eqb : A -> A -> bool) (r : res A) (x : A) : bool :=
  match r with Ok y => eqb y x | Err => false end.

Notation "x |> f" := (f x) (at level 60, only parsing).

Definition nb_nat (nb : list (N * bytes)) : list (nat * bytes) := map (fun e => (N.to_nat (fst e), snd e)) nb.
Definition nbn_eqb (a b : nat * bytes) : bool := Nat.eqb (fst a) (fst b) && bytes_eqb (snd a) (snd b).
Definition adj_eqb := list_eqb (list_eqb nbn_eqb).

(* the loader's add_quadratic calls replayed on what the file holds give the observed adjacency;
   `+=` on an existing entry never happens on a well-formed file: it is made to poison the result *)
Definition poison (_ _ : bytes) : bytes := [999%N].
Definition bqm_rebuild_ok (adj : list (list (N * bytes))) : bool :=
  let a := map nb_nat adj in
  adj_eqb (bqm_load_adjacency poison (fun b => b) a) a.

Definition check (c : case) : bool :=
  match c with
  | CBqm f bs => bytes_eqb (bqm_encode f) bs && res_is bqmfile_eqb (run bqm_decode bs) f
                 && bqm_rebuild_ok (bf_adj f)
  | CQm f bs => bytes_eqb (qm_encode f) bs && res_is qmfile_eqb (run qm_decode bs) f
  | CExpr f bs => bytes_eqb (expr_encode f) bs && res_is exprfile_eqb (run expr_decode bs) f
  | CVarinfo vi bs =>
      bytes_eqb (section MAGIC_VTYP NLEN_VTYP (List.concat (map enc_vinfo vi))) bs
      && res_is (list_eqb vinfo_eqb)
           (run (dec_tsection MAGIC_VTYP NLEN_VTYP (pd_chunks (length vi) 17)) bs
            |> fun r => match r with Ok cs => Ok (map (dec_vinfo 8) cs) | Err => Err end) vi
  | CAdj full low =>
      let a := map nb_nat full in
      adj_eqb (lowers a) (map nb_nat low) && adj_eqb (qm_load_adjacency poison (fun b => b) (map nb_nat low)) a
  | CBqmDec f bs => res_is bqmfile_eqb (run bqm_decode bs) f && bqm_rebuild_ok (bf_adj f)
  | CCqm2 z m => list_eqb member_eqb (cqm2_archive m) z
                 && match cqm2_read (length (c2_vinfo m)) z with Ok m' => c2model_eqb m' m | Err => false end
  | CCqm2H m hdr => bytes_eqb (cqm2_header m) hdr
  | CDqm z vec => match dqm_read z with Ok f => dqmvec_eqb f vec | Err => false end
  | CNpyInts b xs => match npy_decode b with
                     | Ok a => match npy_ints a with Some ys => list_eqb N.eqb ys xs | None => false end
                     | Err => false
                     end
  | CExprDec f bs => res_is exprfile_eqb (run expr_decode bs) f
  | CWiden ps => forallb (fun p => bytes_eqb (f32_to_f64 (fst p)) (snd p)) ps
  | CLegacy z loaded => match legacy_read z with Ok m => lmodel_eqb m loaded | Err => false end
  | CLabels l js => bytes_eqb (pr_labels l) js
                    && match labels_dec js with Some l' => list_eqb label_eqb l' l | None => false end
  end.
