(* C09 correspondence: byte-exact agreement between the model's encoder and the bytes the
   implementation wrote for the observed model state, and the model's decoder applied to the
   implementation's bytes must give back that state. *)
From Coq Require Import List NArith ZArith Arith Bool.
From Dimod Require Import Base.Util Gen.Gen_Codec Model.Codec Model.Rebuild Gen.Gen_Loaders Model.Loaders.
Import ListNotations.

Definition N_eqb := N.eqb.
Definition bl_eqb := list_eqb bytes_eqb.

Fixpoint label_eqb (a b : label) {struct a} : bool :=
  match a, b with
  | LInt x, LInt y => Z.eqb x y
  | LStr s, LStr t => bytes_eqb s t
  | LTup l, LTup m =>
      (fix go (l m : list label) : bool :=
         match l, m with
         | [], [] => true
         | x :: l', y :: m' => label_eqb x y && go l' m'
         | _, _ => false
         end) l m
  | _, _ => false
  end.

Definition labels_eqb := option_eqb (list_eqb label_eqb).
Definition dtype_eqb (a b : dtype) : bool := match a, b with F32, F32 | F64, F64 => true | _, _ => false end.
Definition bvt_eqb (a b : bvartype) : bool := match a, b with BSPIN, BSPIN | BBINARY, BBINARY => true | _, _ => false end.
Definition ver_eqb (a b : N * N) : bool := N.eqb (fst a) (fst b) && N.eqb (snd a) (snd b).
Definition rec_eqb (a b : N * bytes) : bool := N.eqb (fst a) (fst b) && bytes_eqb (snd a) (snd b).

Definition bqmfile_eqb (a b : bqmfile) : bool :=
  ver_eqb (bf_version a) (bf_version b) && dtype_eqb (bf_dtype a) (bf_dtype b) && bvt_eqb (bf_vt a) (bf_vt b)
  && N.eqb (bf_m a) (bf_m b) && bytes_eqb (bf_off a) (bf_off b) && bl_eqb (bf_lin a) (bf_lin b)
  && list_eqb (list_eqb rec_eqb) (bf_adj a) (bf_adj b) && labels_eqb (bf_labels a) (bf_labels b).

Definition vinfo_eqb (a b : N * (bytes * bytes)) : bool :=
  N.eqb (fst a) (fst b) && bytes_eqb (fst (snd a)) (fst (snd b)) && bytes_eqb (snd (snd a)) (snd (snd b)).

Definition qmfile_eqb (a b : qmfile) : bool :=
  dtype_eqb (qf_dtype a) (qf_dtype b) && N.eqb (qf_m a) (qf_m b)
  && list_eqb vinfo_eqb (qf_vinfo a) (qf_vinfo b) && bytes_eqb (qf_off a) (qf_off b)
  && bl_eqb (qf_lin a) (qf_lin b) && list_eqb (list_eqb rec_eqb) (qf_neig a) (qf_neig b)
  && labels_eqb (qf_labels a) (qf_labels b).

Definition q_eqb (a b : N * (N * bytes)) : bool :=
  N.eqb (fst a) (fst b) && N.eqb (fst (snd a)) (fst (snd b)) && bytes_eqb (snd (snd a)) (snd (snd b)).

Definition exprfile_eqb (a b : exprfile) : bool :=
  dtype_eqb (ef_dtype a) (ef_dtype b) && bytes_eqb (ef_type a) (ef_type b)
  && list_eqb N.eqb (ef_idx a) (ef_idx b) && bytes_eqb (ef_off a) (ef_off b)
  && bl_eqb (ef_lin a) (ef_lin b) && list_eqb q_eqb (ef_quad a) (ef_quad b).

Inductive case :=
| CBqm (f : bqmfile) (impl : bytes)
| CQm (f : qmfile) (impl : bytes)
| CExpr (f : exprfile) (impl : bytes)
| CVarinfo (vi : list (N * (bytes * bytes))) (impl : bytes)   (* the `varinfo` member of a CQM zip *)
| CLabels (l : list label) (json : bytes)
  (* the full adjacency observed on the LOADED model (iter_neighborhood order) and the lower triangles in the file *)
| CAdj (full : list (list (N * bytes))) (low : list (list (N * bytes))).     (* json.dumps(serializable labels) as written into a zip member *)

Definition res_is {A : Type} (eqb : A -> A -> bool) (r : res A) (x : A) : bool :=
  match r with Ok y => eqb y x | Err => false end.

Notation "x |> f" := (f x) (at level 60, only parsing).

Definition nb_nat (nb : list (N * bytes)) : list (nat * bytes) := map (fun e => (N.to_nat (fst e), snd e)) nb.
Definition nbn_eqb (a b : nat * bytes) : bool := Nat.eqb (fst a) (fst b) && bytes_eqb (snd a) (snd b).
Definition adj_eqb := list_eqb (list_eqb nbn_eqb).

(* the loader's add_quadratic calls replayed on what the file holds give the observed adjacency;
   `+=` on an existing entry never happens on a well-formed file: it is made to poison the result *)
Definition poison (_ _ : bytes) : bytes := [999%N].
Definition bqm_rebuild_ok (adj : list (list (N * bytes))) : bool :=
  let a := map nb_nat adj in
  adj_eqb (bqm_load_adjacency poison (fun b => b) a) a.

Definition check (c : case) : bool :=
  match c with
  | CBqm f bs => bytes_eqb (bqm_encode f) bs && res_is bqmfile_eqb (run bqm_decode bs) f
                 && bqm_rebuild_ok (bf_adj f)
  | CQm f bs => bytes_eqb (qm_encode f) bs && res_is qmfile_eqb (run qm_decode bs) f
  | CExpr f bs => bytes_eqb (expr_encode f) bs && res_is exprfile_eqb (run expr_decode bs) f
  | CVarinfo vi bs =>
      bytes_eqb (section MAGIC_VTYP NLEN_VTYP (List.concat (map enc_vinfo vi))) bs
      && res_is (list_eqb vinfo_eqb)
           (run (dec_tsection MAGIC_VTYP NLEN_VTYP (pd_chunks (length vi) 17)) bs
            |> fun r => match r with Ok cs => Ok (map (dec_vinfo 8) cs) | Err => Err end) vi
  | CAdj full low =>
      let a := map nb_nat full in
      adj_eqb (lowers a) (map nb_nat low) && adj_eqb (qm_load_adjacency poison (fun b => b) (map nb_nat low)) a
  | CLabels l js => bytes_eqb (pr_labels l) js
                    && match labels_dec js with Some l' => list_eqb label_eqb l' l | None => false end
  end.
