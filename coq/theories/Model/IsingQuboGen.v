(* dimod/utilities.py : ising_to_qubo, qubo_to_ising  -  the algorithms of Model/IsingQubo.v again, written
   statement for statement like the hand-written ones, but every numeric factor is a constant of
   Gen/Gen_IsingQubo.v, which translators/ising_qubo_constants.py extracts from the source (and which it
   refuses to produce when any statement of the two function bodies has another shape).
   Proofs/IsingQuboGenFacts.v proves these functions EQUAL to IsingQubo.ising_to_qubo / qubo_to_ising, so the
   hand-written constants `two`, `four`, `half`, `quarter` of Model/IsingQubo.v are the ones in the source.
   Executable definitions only. *)
From Coq Require Import List ZArith QArith Qcanon Bool Arith.
From Dimod Require Import Base.Util Model.Poly Model.IsingQubo Gen.Gen_IsingQubo.
Import ListNotations.
Open Scope Qc_scope.

(* ---------- ising_to_qubo (utilities.py:199-213) ----------
     q = {(v, v): 2. * bias for v, bias in h.items()}                      gen_i2q_lin
     for (u, v), bias in J.items():
         if bias == 0.0:
             continue
         q[(u, v)] = 4. * bias                                             gen_i2q_quad
         q[(u, u)] = q.setdefault((u, u), 0) - 2. * bias                   gen_i2q_default_u  gen_i2q_diag_u
         q[(v, v)] = q.setdefault((v, v), 0) - 2. * bias                   gen_i2q_default_v  gen_i2q_diag_v
     offset += sum(J.values()) - sum(h.values())                           gen_i2q_off_J  gen_i2q_off_h (sign folded in)
     return q, offset                                                        *)

Definition i2q_init_g (h : hdict) : qdict :=
  fold_left (fun q e => qset q (fst e, fst e) (gen_i2q_lin * snd e)) h [].

Definition i2q_step_g (q : qdict) (e : pkey * Qc) : qdict :=
  let u := fst (fst e) in
  let v := snd (fst e) in
  let bias := snd e in
  if Qc_eqb bias 0 then q                                   (* continue *)
  else
    let q1 := qset q (u, v) (gen_i2q_quad * bias) in
    let '(q2, du) := qsetdefault q1 (u, u) gen_i2q_default_u in
    let q3 := qset q2 (u, u) (du - gen_i2q_diag_u * bias) in
    let '(q4, dv) := qsetdefault q3 (v, v) gen_i2q_default_v in
    qset q4 (v, v) (dv - gen_i2q_diag_v * bias).

Definition ising_to_qubo_g (h : hdict) (J : qdict) (off : Qc) : qdict * Qc :=
  (fold_left i2q_step_g J (i2q_init_g h),
   off + (gen_i2q_off_J * qsum (map snd J) + gen_i2q_off_h * qsum (map snd h))).

(* ---------- qubo_to_ising (utilities.py:259-290) ----------
     h = {} ; J = {}
     linear_offset = 0.0                                                   gen_q2i_lin_off_init
     quadratic_offset = 0.0                                                gen_q2i_quad_off_init
     for (u, v), bias in Q.items():
         if u == v:
             if u in h: h[u] += .5 * bias                                  gen_q2i_diag_h (both branches)
             else:      h[u] = .5 * bias
             linear_offset += bias                                         gen_q2i_diag_off
         else:
             if bias != 0.0:
                 J[(u, v)] = .25 * bias                                    gen_q2i_J
             if u in h: h[u] += .25 * bias                                 gen_q2i_hu (both branches)
             else:      h[u] = .25 * bias
             if v in h: h[v] += .25 * bias                                 gen_q2i_hv (both branches)
             else:      h[v] = .25 * bias
             quadratic_offset += bias                                      gen_q2i_quad_off
     offset += .5 * linear_offset + .25 * quadratic_offset                 gen_q2i_final_lin  gen_q2i_final_quad
     return h, J, offset                                                     *)

Definition q2i_step_g (st : q2i_state) (e : pkey * Qc) : q2i_state :=
  let u := fst (fst e) in
  let v := snd (fst e) in
  let bias := snd e in
  if (u =? v)%nat then
    mkQ2I (hadd (st_h st) u (gen_q2i_diag_h * bias)) (st_J st) (st_lo st + gen_q2i_diag_off * bias) (st_qo st)
  else
    let J' := if Qc_eqb bias 0 then st_J st else qset (st_J st) (u, v) (gen_q2i_J * bias) in
    let h1 := hadd (st_h st) u (gen_q2i_hu * bias) in
    let h2 := hadd h1 v (gen_q2i_hv * bias) in
    mkQ2I h2 J' (st_lo st) (st_qo st + gen_q2i_quad_off * bias).

Definition q2i_loop_g (Q : qdict) : q2i_state :=
  fold_left q2i_step_g Q (mkQ2I [] [] gen_q2i_lin_off_init gen_q2i_quad_off_init).

Definition qubo_to_ising_g (Q : qdict) (off : Qc) : hdict * qdict * Qc :=
  let st := q2i_loop_g Q in
  (st_h st, st_J st, off + (gen_q2i_final_lin * st_lo st + gen_q2i_final_quad * st_qo st)).

(* observed output of dimod.ising_to_qubo / dimod.qubo_to_ising against the generated-constant versions *)
Definition ising_to_qubo_g_matches (h : hdict) (J : qdict) (off : Qc) (Qobs : qdict) (offobs : Qc) : bool :=
  let r := ising_to_qubo_g h J off in qdict_eqb (fst r) Qobs && Qc_eqb (snd r) offobs.

Definition qubo_to_ising_g_matches (Q : qdict) (off : Qc) (hobs : hdict) (Jobs : qdict) (offobs : Qc) : bool :=
  let r := qubo_to_ising_g Q off in
  hdict_eqb (fst (fst r)) hobs && qdict_eqb (snd (fst r)) Jobs && Qc_eqb (snd r) offobs.
