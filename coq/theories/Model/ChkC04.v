(* C04 correspondence: the model is stepped through the same history as the
   implementation; after every call the outcome (Ok / exception bucket), the
   variable list with vartypes and bounds, every coefficient, the presence of
   every interaction, all degrees, the counts and is_linear are compared with
   what the implementation showed.  Oracle on the implementation's own dumps:
   a raising all-or-nothing call shows the same dump before and after. *)
From Coq Require Import List ZArith QArith Qcanon Bool Arith.
From Dimod Require Import Base.Util Model.Poly Model.View Model.Hist.
Import ListNotations.

Record dump := mkDump {
  d_vars : list vinfo;          (* in the order the implementation lists them *)
  d_obs : obs;                  (* offset, linear dict, quadratic dict *)
  d_deg : list nat;             (* degree(v) per variable, same order *)
  d_nint : nat;
  d_nvar : nat;
  d_islin : bool
}.

Record stepobs := mkStep { s_h : handle; s_op : op; s_out : outcome; s_dump : dump }.

Record case := mkCase {
  c_n : nat;                    (* labels are 0..n-1 *)
  c_ordered : bool;             (* array back-ends: variable order must be the list order *)
  c_init : state;
  c_init_dump : dump;
  c_steps : list stepobs
}.

Definition vinfo_eqb (a b : vinfo) : bool :=
  (v_lab a =? v_lab b)%nat && vartype_eqb (v_vt a) (v_vt b) && Qc_eqb (v_lb a) (v_lb b) && Qc_eqb (v_ub a) (v_ub b).

Definition vars_match (ordered : bool) (ms ds : list vinfo) : bool :=
  if ordered then list_eqb vinfo_eqb ms ds
  else (length ms =? length ds)%nat && nodupb (map v_lab ds)
       && forallb (fun d => existsb (vinfo_eqb d) ms) ds.

(* QuadraticModel: no interaction has a REAL end (the hypothesis of C04_qm_failed_op_is_noop, evaluated on every
   state the history reaches) *)
Definition nrib (s : state) : bool :=
  match st_kind s with
  | Some _ => true
  | None => forallb (fun t : qterm => negb (is_real (vt_of s (fst (fst t)))) && negb (is_real (vt_of s (snd (fst t)))))
                    (p_quad (st_poly s))
  end.

Definition dump_matches (n : nat) (ordered : bool) (s : state) (d : dump) : bool :=
  vars_match ordered (st_vars s) (d_vars d)
  && poly_coeff_eqb n (st_poly s) (obs_poly (d_obs d))
  && poly_pairs_eqb n (st_poly s) (obs_poly (d_obs d))
  && list_eqb Nat.eqb (map (degree s) (map v_lab (d_vars d))) (d_deg d)
  && (num_interactions s =? d_nint d)%nat
  && (num_variables s =? d_nvar d)%nat
  && Bool.eqb (is_linear s) (d_islin d)
  && wfb s && nrib s.

(* the implementation's own read paths agree with each other *)
Definition dump_selfconsistent (d : dump) : bool :=
  let q := o_quad (d_obs d) in
  let vs := map v_lab (d_vars d) in
  list_eqb Nat.eqb (map (deg_in q vs) vs) (d_deg d)
  && (nint_in q vs =? d_nint d)%nat
  && (length vs =? d_nvar d)%nat
  && Bool.eqb (nint_in q vs =? 0)%nat (d_islin d).

Definition dump_same (n : nat) (a b : dump) : bool :=
  list_eqb vinfo_eqb (d_vars a) (d_vars b)
  && poly_coeff_eqb n (obs_poly (d_obs a)) (obs_poly (d_obs b))
  && poly_pairs_eqb n (obs_poly (d_obs a)) (obs_poly (d_obs b)).

Fixpoint check_steps (n : nat) (ordered : bool) (s : state) (prev : dump) (l : list stepobs) : bool :=
  match l with
  | [] => true
  | x :: xs =>
      let r := step s (s_h x, s_op x) in
      outcome_eqb (snd r) (s_out x)
      && dump_matches n ordered (fst r) (s_dump x)
      && dump_selfconsistent (s_dump x)
      && (match s_out x with
          | Raised _ => if atomic (s_op x) then dump_same n prev (s_dump x) else true
          | Ok => true
          end)
      && check_steps n ordered (fst r) (s_dump x) xs
  end.

Definition check (c : case) : bool :=
  dump_matches (c_n c) (c_ordered c) (c_init c) (c_init_dump c)
  && dump_selfconsistent (c_init_dump c)
  && check_steps (c_n c) (c_ordered c) (c_init c) (c_init_dump c) (c_steps c).

(* first failing step (for debugging with dbg.py) *)
Fixpoint first_bad (n : nat) (ordered : bool) (s : state) (prev : dump) (l : list stepobs) (k : nat)
  : option (nat * outcome * state) :=
  match l with
  | [] => None
  | x :: xs =>
      let r := step s (s_h x, s_op x) in
      if check_steps n ordered s prev [x] then first_bad n ordered (fst r) (s_dump x) xs (S k)
      else Some (k, snd r, fst r)
  end.
Definition where_bad (c : case) := first_bad (c_n c) (c_ordered c) (c_init c) (c_init_dump c) (c_steps c) 0.
