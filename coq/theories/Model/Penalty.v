(* C16 - constraint-to-penalty conversions, executable models (no proofs here).
   - add_linear_equality_constraint: cybqm_template.pyx.pxi (native back-ends),
     binary_quadratic_model.py fallback (object dtype, .spin/.binary views),
     cydiscrete_quadratic_model.pyx (DQM, case-level variables)
   - DQM slack constructions log2 / linear / log10
   - cqm_to_bqm: integer -> bits substitution (_qm_to_bqm) and CQMToBQMInverter *)
From Coq Require Import List ZArith QArith Qcanon Bool Arith.
From Dimod Require Import Base.Util Model.Poly Model.Comb.
(* every coefficient of the expansions and every rule of the slack construction below comes from the
   source through translators/penalty_formulas.py *)
From Dimod Require Export Gen.Gen_Penalty.
Import ListNotations.
Open Scope Qc_scope.

(* sum a_i x_i of a term list (labels may repeat) *)
Definition lin_sum (terms : list lterm) (s : sample) : Qc := lin_energy terms s.

Definition cvt (vt : vartype) : label -> vartype := fun _ => vt.

(* ------------------------------------------------------------------ *)
(* native BQM: offset, then one linear pass, then all pairs i < j through
   cppbqm.add_quadratic (which folds a repeated label per vartype) *)

Definition eq_lin_step (vt : vartype) (lam c : Qc) (p : poly) (t : lterm) : poly :=
  match vt with
  | SPIN => add_offset (gen_cy_off_spin lam (snd t)) (add_linear (fst t) (gen_cy_lin_spin lam c (snd t)) p)
  | _ => add_linear (fst t) (gen_cy_lin_binary lam c (snd t)) p
  end.

Definition eq_quad_row (vt : vartype) (lam : Qc) (t : lterm) (r : list lterm) (p : poly) : poly :=
  fold_left (fun acc u => add_quadratic (cvt vt) (fst t) (fst u) (gen_cy_quad lam (snd t) (snd u)) acc) r p.

Fixpoint eq_quad_part (vt : vartype) (lam : Qc) (terms : list lterm) (p : poly) : poly :=
  match terms with
  | [] => p
  | t :: r => eq_quad_part vt lam r (eq_quad_row vt lam t r p)
  end.

Definition add_eq_cy (vt : vartype) (terms : list lterm) (lam c : Qc) (p : poly) : poly :=
  eq_quad_part vt lam terms (fold_left (eq_lin_step vt lam c) terms (add_offset (gen_cy_offset lam c) p)).

(* ------------------------------------------------------------------ *)
(* python fallback (repaired, c3cb487): itertools.combinations_with_replacement(enumerate(terms), 2);
   `i == j` compares POSITIONS (the diagonal), `u == v` at different positions is two terms
   over the same variable (s*s == 1, x*x == x), otherwise an interaction *)

Definition py_diag (vt : vartype) (lam c : Qc) (t : lterm) (p : poly) : poly :=
  match vt with
  | SPIN => add_offset (gen_py_diag_spin_off lam c (snd t) (snd t))
                       (add_linear (fst t) (gen_py_diag_spin_lin lam c (snd t) (snd t)) p)
  | _ => add_linear (fst t) (gen_py_diag_binary_lin lam c (snd t) (snd t)) p
  end.

Definition py_pair_step (vt : vartype) (lam : Qc) (t u : lterm) (p : poly) : poly :=
  if (fst t =? fst u)%nat then
    match vt with
    | SPIN => add_offset (gen_py_same_spin_off lam (snd t) (snd u)) p
    | _ => add_linear (fst t) (gen_py_same_binary_lin lam (snd t) (snd u)) p
    end
  else add_quadratic (cvt vt) (fst t) (fst u) (gen_py_quad lam (snd t) (snd u)) p.

(* pairs (i, i), (i, i+1), ..., (i, n-1) *)
Definition py_row (vt : vartype) (lam c : Qc) (t : lterm) (r : list lterm) (p : poly) : poly :=
  fold_left (fun acc u => py_pair_step vt lam t u acc) r (py_diag vt lam c t p).

Fixpoint py_pairs (vt : vartype) (lam c : Qc) (terms : list lterm) (p : poly) : poly :=
  match terms with
  | [] => p
  | t :: r => py_pairs vt lam c r (py_row vt lam c t r p)
  end.

Definition add_eq_py (vt : vartype) (terms : list lterm) (lam c : Qc) (p : poly) : poly :=
  add_offset (gen_py_offset lam c) (py_pairs vt lam c terms p).

(* ------------------------------------------------------------------ *)
(* DQM: labels are global case indices, grp maps a case to its variable.
   Terms are sorted by case and duplicates summed; pairs of cases of one
   variable are skipped. *)

Fixpoint ins_term (t : lterm) (l : list lterm) : list lterm :=
  match l with
  | [] => [t]
  | u :: r => if (fst t <? fst u)%nat then t :: l
              else if (fst t =? fst u)%nat then (fst u, snd u + snd t) :: r
              else u :: ins_term t r
  end.

Definition merge_terms (terms : list lterm) : list lterm :=
  fold_left (fun acc t => ins_term t acc) terms [].

Definition dqm_row (grp : label -> nat) (lam : Qc) (t : lterm) (r : list lterm) (p : poly) : poly :=
  fold_left (fun acc u => if (grp (fst t) =? grp (fst u))%nat then acc
                          else add_quadratic (cvt BINARY) (fst t) (fst u) (gen_dqm_quad lam (snd t) (snd u)) acc) r p.

Fixpoint dqm_terms (grp : label -> nat) (lam c : Qc) (terms : list lterm) (p : poly) : poly :=
  match terms with
  | [] => p
  | t :: r => dqm_terms grp lam c r
                (dqm_row grp lam t r (add_linear (fst t) (gen_dqm_lin lam c (snd t)) p))
  end.

Definition add_eq_dqm (grp : label -> nat) (terms : list lterm) (lam c : Qc) (p : poly) : poly :=
  dqm_terms grp lam c (merge_terms terms) (add_offset (gen_dqm_offset lam c) p).

(* a DQM sample seen at case level: 0/1 on every case, at most one case of a variable set *)
Definition onehot_sample (grp : label -> nat) (s : sample) : Prop :=
  (forall v, s v * s v = s v) /\
  (forall u v, u <> v -> grp u = grp v -> s u * s v = 0).

(* ------------------------------------------------------------------ *)
(* DQM slack variables: each slack variable is the list of the values of its cases
   (case 0 carries no term, value 0) *)

Definition dqm_log2_values (U : Z) : list (list Z) := map (fun c => [0; c]%Z) (slack_coeffs U).

Definition dqm_linear_values (U : Z) : list (list Z) :=
  [map Z.of_nat (seq 0 (S (Z.to_nat U)))].

(* int(np.ceil(np.log10(U + 1))): number of decimal digits of U, U >= 1 *)
Fixpoint ndigits (fuel : nat) (U : Z) : nat :=
  match fuel with
  | O => O
  | S f => if (U <? 1)%Z then O else S (ndigits f (U / 10))
  end.

(* list(range(0, min(U + 1, 10 ** (j + 1)), 10 ** j)) ; entry 0 is case 0 *)
Definition log10_digit_values (U : Z) (j : nat) : list Z :=
  let step := (10 ^ Z.of_nat j)%Z in
  let stop := Z.min (U + 1) (10 ^ Z.of_nat (S j))%Z in
  0%Z :: filter (fun v => (v <? stop)%Z) (map (fun k => (Z.of_nat k * step)%Z) (seq 1 9)).

Definition dqm_log10_values (U : Z) : list (list Z) :=
  map (log10_digit_values U) (seq 0 (ndigits (Z.to_nat U) U)).

(* all values the slack part can take: one case per slack variable *)
Fixpoint choice_sums (vars : list (list Z)) : list Z :=
  match vars with
  | [] => [0%Z]
  | d :: r => flat_map (fun x => map (Z.add x) (choice_sums r)) d
  end.

Inductive slack_method := Log2 | Log10 | Linear.

Definition dqm_slack_values (m : slack_method) (U : Z) : list (list Z) :=
  match m with Log2 => dqm_log2_values U | Log10 => dqm_log10_values U | Linear => dqm_linear_values U end.

(* penalty (without multiplier) with a slack VALUE: (A + sl - ubc)^2 *)
Definition pen_val (A sl ubc : Z) : Z := ((A + sl - ubc) * (A + sl - ubc))%Z.

Definition zmin_list (l : list Z) (d : Z) : Z := fold_right Z.min d l.

(* ------------------------------------------------------------------ *)
(* cqm_to_bqm: every CQM variable is replaced by a linear polynomial over BINARY
   variables:  binary v -> v ; spin v -> 2 v - 1 ; integer v -> sum coeff_j bit_j *)

Definition encoding := label -> poly.     (* only p_off and p_lin are used *)

Definition enc_of (tab : list (label * poly)) : encoding :=
  fun v => match find (fun e => (fst e =? v)%nat) tab with
           | Some e => snd e
           | None => mkPoly 0 [] []          (* not a CQM variable: contributes nothing *)
           end.

Definition enc_binary (v : label) : poly := mkPoly 0 [(v, 1)] [].
Definition enc_spin (v : label) : poly := mkPoly (- (1)) [(v, two)] [].
Definition enc_integer (bits : list lterm) : poly := mkPoly 0 bits [].

Definition enc_lterm (E : encoding) (t : lterm) : poly := scale (snd t) (E (fst t)).
Definition enc_qterm (E : encoding) (t : qterm) : poly :=
  scale (snd t) (pmul_linear (cvt BINARY) (E (fst (fst t))) (E (snd (fst t)))).

(* _qm_to_bqm *)
Definition encode_poly (E : encoding) (p : poly) : poly :=
  padd (mkPoly (p_off p) [] [])
       (padd (psum (map (enc_lterm E) (p_lin p))) (psum (map (enc_qterm E) (p_quad p)))).

(* CQMToBQMInverter.__call__ *)
Definition invert (E : encoding) (s : sample) : sample := fun v => energy (E v) s.

(* Z-level view of one CQM variable and its BQM image *)
Inductive cvar := CBin | CSpin | CInt (ub : Z).

Definition encode_var (k : cvar) (x : Z) : list bool :=
  match k with
  | CBin => [(x =? 1)%Z]
  | CSpin => [(x =? 1)%Z]
  | CInt ub => slack_bits ub x
  end.

Definition invert_var (k : cvar) (bits : list bool) : Z :=
  match k with
  | CBin => dot [1%Z] bits
  | CSpin => (2 * dot [1%Z] bits - 1)%Z
  | CInt ub => dot (binary_encoding_coeffs ub) bits
  end.

Definition in_domain (k : cvar) (x : Z) : Prop :=
  match k with
  | CBin => x = 0%Z \/ x = 1%Z
  | CSpin => x = (-1)%Z \/ x = 1%Z
  | CInt ub => (0 <= x <= ub)%Z
  end.

(* constraints after substitution, integer data *)
Inductive zcon :=
| ZEq (a : list Z) (c : Z)                 (* sum a x + c == 0 *)
| ZIneq (a : list Z) (const lb ub : Z).     (* lb <= sum a x + const <= ub *)

Definition zcon_feasible (k : zcon) (x : list bool) : Prop :=
  match k with
  | ZEq a c => (dot a x + c = 0)%Z
  | ZIneq a const lb ub => (lb <= dot a x + const <= ub)%Z
  end.

Definition zcon_feasibleb (k : zcon) (x : list bool) : bool :=
  match k with
  | ZEq a c => (dot a x + c =? 0)%Z
  | ZIneq a const lb ub => ((lb <=? dot a x + const) && (dot a x + const <=? ub))%Z
  end.

Definition zcon_coeffs (k : zcon) : list Z := match k with ZEq a _ => a | ZIneq a _ _ _ => a end.

(* number of slack bits the constraint gets *)
Definition zcon_slack (k : zcon) : list Z :=
  match k with
  | ZEq _ _ => []
  | ZIneq a const lb ub => match plan_inequality a const lb ub with Slack _ cs => cs | _ => [] end
  end.

(* penalty without the multiplier *)
Definition zcon_penalty (k : zcon) (x s : list bool) : Z :=
  match k with
  | ZEq a c => ((dot a x + c) * (dot a x + c))%Z
  | ZIneq a const lb ub =>
      match plan_inequality a const lb ub with
      | Skip => 0%Z
      | Infeasible => 0%Z        (* ValueError: nothing is built *)
      | Equality ubc => ineq_penalty a x [] [] ubc
      | Slack ubc cs => ineq_penalty a x cs s ubc
      end
  end.

Definition zcon_accepted (k : zcon) : Prop :=
  match k with
  | ZEq _ _ => True
  | ZIneq a const lb ub => plan_inequality a const lb ub <> Infeasible
  end.

Fixpoint total_penalty (ks : list zcon) (x : list bool) (ss : list (list bool)) : Z :=
  match ks, ss with
  | k :: kr, s :: sr => (zcon_penalty k x s + total_penalty kr x sr)%Z
  | _, _ => 0%Z
  end.

(* ------------------------------------------------------------------ *)
(* BQM.add_linear_inequality_constraint, the remaining options *)

Definition lbc_of (a : list Z) (const lb : Z) : Z := Z.max (sum_neg a) (lb - const).

(* cross_zero=True: `if lb_c > 0 or ub_c < 0: if ub_c - slack_upper_bound > 0:` i.e. lb_c > 0;
   one more slack bit with coefficient ub_c - slack_upper_bound = lb_c *)
Definition plan_inequality_cz (cross_zero : bool) (a : list Z) (const lb ub : Z) : ineq_plan :=
  match plan_inequality a const lb ub with
  | Slack ubc cs =>
      if cross_zero && (0 <? lbc_of a const lb)%Z then Slack ubc (cs ++ [lbc_of a const lb]) else Slack ubc cs
  | p => p
  end.

(* the whole decision written with the generated rules only: bounds, always-feasible test, refusal,
   equality shortcut, slack coefficients [2 ** j for j in range(num_slack)] + guarded remainder,
   cross_zero bit.  Proved equal to plan_inequality_cz (Proofs/PenaltyGen.v) *)
Definition slack_coeffs_g (U : Z) : list Z :=
  let k := gen_num_slack U in
  map (fun j => gen_pow_coeff (Z.of_nat j)) (seq 0 (Z.to_nat k))
  ++ (if gen_rest_guard U k then [gen_rest_coeff U k] else []).

Definition plan_inequality_g (cross_zero : bool) (a : list Z) (const lb ub : Z) : ineq_plan :=
  let tu := sum_pos a in
  let tl := sum_neg a in
  let ubc := gen_ubc tu ub const in
  let lbc := gen_lbc tl lb const in
  if gen_always_feasible tu tl ubc lbc then Skip
  else if gen_infeasible ubc lbc then Infeasible
  else let U := gen_slack_ub ubc lbc in
       if gen_is_equality U then Equality (- gen_eq_constant ubc)
       else Slack (- gen_slack_constant ubc)
                  (slack_coeffs_g U
                   ++ (if cross_zero && gen_cz_outer lbc ubc && gen_cz_inner ubc U then [gen_cz_coeff ubc U] else [])).

(* penalization_method='unbalanced' with lagrange_multiplier = (lam0, lam1), after the same
   skip / refuse tests:  add_linear(v, lam0*bias) per term; offset += -ub_c (NOT lam0*ub_c);
   add_linear_equality_constraint(terms, lam1, -ub_c) *)
Definition add_unbalanced (py : bool) (vt : vartype) (terms : list lterm) (lam0 lam1 ubc : Qc) (p : poly) : poly :=
  (if py then add_eq_py else add_eq_cy) vt terms (gen_unb_mult lam0 lam1) (gen_unb_constant ubc)
    (add_offset (gen_unb_offset ubc) (fold_left (fun acc t => add_linear (fst t) (gen_unb_lin lam0 (snd t)) acc) terms p)).

(* ------------------------------------------------------------------ *)
(* DQM samples: a sample selects one case per variable; a term (variable, case, bias) counts iff selected *)
Definition dterm := (nat * nat * Z)%type.
Definition dqm_bits (terms : list dterm) (sel : nat -> nat) : list bool :=
  map (fun t => (sel (fst (fst t)) =? snd (fst t))%nat) terms.
Definition dqm_sum (terms : list dterm) (sel : nat -> nat) : Z :=
  dot (map snd terms) (dqm_bits terms sel).

(* ------------------------------------------------------------------ *)
(* DQM.add_linear_inequality_constraint(cross_zero=True): zero_constraint = lb_c > 0 or ub_c < 0;
   log2: one more two-case variable whose case 1 is worth ub_c; log10: the LAST digit variable gets one
   more case worth ub_c; linear: the single slack variable gets one more case worth ub_c *)
Definition dqm_cz_active (cross_zero : bool) (lbc ubc : Z) : bool :=
  cross_zero && ((0 <? lbc) || (ubc <? 0))%Z.

Definition add_case_to_last (vars : list (list Z)) (v : Z) : list (list Z) :=
  match rev vars with
  | last :: r => rev r ++ [last ++ [v]]
  | [] => []
  end.

Definition dqm_slack_values_cz (m : slack_method) (U ubc : Z) (zero : bool) : list (list Z) :=
  if zero then
    match m with
    | Log2 => dqm_log2_values U ++ [[0; ubc]%Z]
    | Log10 => add_case_to_last (dqm_log10_values U) ubc
    | Linear => add_case_to_last (dqm_linear_values U) ubc
    end
  else dqm_slack_values m U.
