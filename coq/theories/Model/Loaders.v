(* What a file loader does to the adjacency structure, parameterised by the facts the translator
   codec_loaders.py reads off the source (Gen/Gen_Loaders.v): which primitive is called and how the BQM
   loader cuts a stored neighbourhood.  No proofs here. *)
From Coq Require Import List Arith Bool.
From Dimod Require Import Gen.Gen_Loaders Model.Rebuild.
Import ListNotations.

Section Loaders.
  Context {B : Type}.
  Variable add : B -> B -> B.      (* bias + bias *)
  Variable add0 : B -> B.          (* 0 + bias *)

  (* np.searchsorted(outvar, v, side=...) on an index-sorted neighbourhood *)
  Definition cut_lower (inclusive : bool) (v : nat) (nb : list (nat * B)) : list (nat * B) :=
    filter (fun e => if inclusive then fst e <=? v else fst e <? v) nb.

  Definition replay (p : prim) (ls : list (list (nat * B))) : list (list (nat * B)) :=
    match p with
    | PAddQuadratic => rebuild_upsert add add0 ls
    | PAddQuadraticBack => rebuild ls
    end.

  (* BinaryQuadraticModel.from_file: the FULL neighbourhoods are in the file *)
  Definition bqm_load_adjacency (stored : list (list (nat * B))) : list (list (nat * B)) :=
    replay BQM_LOADER_PRIM
           (map (fun v => cut_lower BQM_CUT_INCLUSIVE v (nth v stored [])) (seq 0 (length stored))).

  (* QuadraticModel.from_file: the NEIG sections hold the lower triangles *)
  Definition qm_load_adjacency (neig : list (list (nat * B))) : list (list (nat * B)) :=
    replay QM_LOADER_PRIM neig.
End Loaders.
