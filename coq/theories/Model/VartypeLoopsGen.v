(* The python loops of QuadraticModel.spin_to_binary / ConstrainedQuadraticModel.spin_to_binary, generic in what
   translators/vartype_loops.py extracts from the source: the iteration domain (only `self.variables` = every
   variable index of the model is accepted), the vartype tested with `is`, and the vartype handed to change_vartype.
   Executable; no proofs here. *)
From Coq Require Import List ZArith QArith Qcanon Bool Arith.
From Dimod Require Import Base.Util Model.Poly Model.Adj Model.Expr Model.VartypeOps Gen.Gen_VartypeLoops.
Import ListNotations.

Definition dom_indices (d : loop_domain) (n : nat) : list nat := match d with AllVariables => seq 0 n end.

Definition qm_loop_step (test target : vartype) (acc : option qmi) (v : nat) : option qmi :=
  match acc with
  | None => None
  | Some a => if vartype_eqb (qi_vartype a v) test then qm_change_vartype target v a else Some a
  end.
Definition qm_stb_loop (l : loop_domain * vartype * vartype) (q : qmi) : option qmi :=
  let '(d, test, target) := l in
  fold_left (qm_loop_step test target) (dom_indices d (nvars (q_m q))) (Some q).

Definition cqm_loop_step (test target : vartype) (acc : option mcqm) (v : nat) : option mcqm :=
  match acc with
  | None => None
  | Some a => if vartype_eqb (cq_vartype a v) test then cqm_change_vartype target v a else Some a
  end.
Definition cqm_stb_loop (l : loop_domain * vartype * vartype) (q : mcqm) : option mcqm :=
  let '(d, test, target) := l in
  fold_left (cqm_loop_step test target) (dom_indices d (length (m_info q))) (Some q).
