(* C17 - frustrated_loop (generators/fcl.py): the contribution of ONE loop, code shaped, with the PRNG draws as
   oracle parameters (which cycle the random walk found, which edge becomes anti-ferromagnetic).

     cycle_J = {(cycle[i - 1], cycle[i]) : -1 for i in range(len(cycle))}
     idx = r.randint(len(cycle))
     cycle_J[(cycle[idx - 1], cycle[idx])] = 1
     bqm.add_interactions_from(cycle_J)

   A loop is the list of its vertices; edge i joins cycle[i-1] and cycle[i] (cyclically).  For an assignment of
   spins, `sigmas` lists the products s(cycle[i-1]) * s(cycle[i]); the loop contributes sum_i J_i * sigma_i.
   Executable; no proofs here (Proofs/FrustLoopFacts.v). *)
From Coq Require Import List ZArith.
Import ListNotations.
Open Scope Z_scope.

Definition fl_zprod (l : list Z) : Z := fold_right Z.mul 1 l.
Definition fl_zsum (l : list Z) : Z := fold_right Z.add 0 l.

(* cycle[i - 1] for i = 0 .. L-1 *)
Definition prev (s : list Z) : list Z := match s with [] => [] | _ :: _ => last s 0 :: removelast s end.

Definition sigmas (s : list Z) : list Z := map (fun p => fst p * snd p) (combine (prev s) s).

(* the couplings of a planted loop: ferromagnetic (-1) everywhere, anti-ferromagnetic (+1) on edge idx *)
Definition planted_J (L idx : nat) : list Z := map (fun i => if Nat.eqb i idx then 1 else -1) (seq 0 L).

Definition loop_energy (J sg : list Z) : Z := fl_zsum (map (fun p => fst p * snd p) (combine J sg)).

(* a problem = list of loops (vertex lists with their anti-ferromagnetic edge); a : vertex -> spin *)
Definition fl_energy (loops : list (list nat * nat)) (a : nat -> Z) : Z :=
  fl_zsum (map (fun lp => loop_energy (planted_J (length (fst lp)) (snd lp)) (sigmas (map a (fst lp)))) loops).

Definition fl_pm1 (x : Z) : Prop := x = 1 \/ x = -1.
