(* C17 - documented quantities of quadratic_knapsack / quadratic_multi_knapsack: the profit of every
   pair of items placed together.  Executable; no proofs here. *)
From Coq Require Import List ZArith QArith Qcanon Bool Arith.
From Dimod Require Import Base.Util Model.Poly Model.Knap Model.Qap.
Import ListNotations.
Open Scope Qc_scope.

Definition pair_profit (profits : matrix) (x : sample) : Qc :=
  range_sum (length profits) (fun i0 => range_sum (length profits) (fun i1 =>
    if (i0 <? i1)%nat then mget profits i0 i1 * x i0 * x i1 else 0)).

Definition pair_profit_multi (profits : matrix) (b : nat) (x : sample) : Qc :=
  range_sum (length profits) (fun i0 => range_sum (length profits) (fun i1 =>
    if (i0 <? i1)%nat then range_sum b (fun j => mget profits i0 i1 * x (mk_idx b i0 j) * x (mk_idx b i1 j)) else 0)).
