(* C08 correspondence: every entry point of the implementation is compared with the spec of
   Model/Feas.v evaluated on the coefficients the CQM reports (and with the code-shaped models). *)
From Coq Require Import List ZArith QArith Qcanon Bool Arith.
From Dimod Require Import Base.Util Model.Poly Model.Samples Model.Feas Model.EnergyCy Model.FeasCy.
Import ListNotations.
Open Scope Qc_scope.

(* The SAMPLE of a row is what the caller passed in: column labels k_ls (in the order given, any
   permutation of the model's variables, possibly with columns the model does not know; for an
   unlabelled matrix the labels are 0, 1, ...) and the row's values r_vals in that order. *)
Record row := mkRow {
  r_ls : list label;        (* this sample's OWN label order (lists / iterators of dicts or labelled rows); = k_ls for a matrix *)
  r_vals : list Qc;         (* its values in that order *)
  r_data : list (Qc * Qc * Qc * Qc);        (* iter_constraint_data: lhs_energy, rhs_energy, activity, violation *)
  r_viol : list (nat * Qc);                 (* violations() *)
  r_viol_clip : list (nat * Qc);            (* iter_violations(clip=True) *)
  r_viol_skip : list (nat * Qc);            (* iter_violations(skip_satisfied=True) *)
  r_viol_skip_clip : list (nat * Qc);       (* both flags *)
  r_check_feasible : bool;
  r_sat : list bool; r_feas : bool; r_energy : Qc }.   (* from_samples_cqm record *)

Record xrow := mkXRow { x_sample : list (label * Qc); x_sat : list bool; x_feas : bool; x_energy : Qc }.

Record case := mkCase {
  k_n : nat;                (* number of label codes in use *)
  k_obj : obs;
  k_cons : list (obs * sense * Qc * option (Qc * penalty));
  k_x : xcqm;               (* raw state: parent.variables, expression indices and local biases *)
  k_ls : list label;        (* column labels of the sample matrix *)
  k_obj_en : list Qc;       (* cqm.objective.energies(samples_like) *)
  k_atol : Qc; k_rtol : Qc;
  k_cf_strict : bool;       (* compare check_feasible with the spec on every row *)
  k_rows : list row;
  k_exact : list xrow }.

Definition case_cqm (c : case) : cqm :=
  mkCqm (obs_poly (k_obj c))
        (map (fun k => let '(lhs, sn, rhs, soft) := k in mkCon (obs_poly lhs) sn rhs soft) (k_cons c)).

Definition nq_eqb (a b : nat * Qc) : bool := Nat.eqb (fst a) (fst b) && Qc_eqb (snd a) (snd b).

Definition spec_violations (m : cqm) (s : sample) : list (nat * Qc) :=
  combine (seq 0 (length (m_cons m))) (map (fun k => violation k s) (m_cons m)).

Definition datum_tuple (d : datum) : Qc * Qc * Qc * Qc := (d_lhs d, d_rhs d, d_activity d, d_violation d).
Definition q4_eqb (a b : Qc * Qc * Qc * Qc) : bool :=
  let '(a1, a2, a3, a4) := a in let '(b1, b2, b3, b4) := b in
  Qc_eqb a1 b1 && Qc_eqb a2 b2 && Qc_eqb a3 b3 && Qc_eqb a4 b4.

Definition no_soft_violated (atol rtol : Qc) (m : cqm) (s : sample) : bool :=
  forallb (fun k => satisfied atol rtol k s) (filter is_soft (m_cons m)).

(* the raw state stands for the coefficients the views report *)
Definition raw_tied (n : nat) (xm : xcqm) (o : obs) (lhs : list obs) : bool :=
  xcqm_wfb xm
  && poly_coeff_eqb n (xexpr_poly_labels (xm_obj xm) (xm_pvars xm)) (obs_poly o)
  && (length (xm_cons xm) =? length lhs)%nat
  && forallb (fun ko => poly_coeff_eqb n (xexpr_poly_labels (xc_lhs (fst ko)) (xm_pvars xm)) (obs_poly (snd ko)))
             (combine (xm_cons xm) lhs).

Definition lhs_of (d : Qc * Qc * Qc * Qc) : Qc := let '(a, _, _, _) := d in a.

Definition row_ok (c : case) (m : cqm) (r : row) : bool :=
  let s := row_sample (r_ls r) (r_vals r) in
  let atol := k_atol c in let rtol := k_rtol c in
  (* spec *)
  list_eqb nq_eqb (r_viol r) (spec_violations m s)
  && list_eqb nq_eqb (r_viol_clip r) (map (fun iv => (fst iv, qmax0 (snd iv))) (spec_violations m s))
  && list_eqb nq_eqb (r_viol_skip r) (filter (fun iv => negb (Qc_leb (snd iv) 0)) (spec_violations m s))
  && list_eqb nq_eqb (r_viol_skip_clip r) (r_viol_skip r)
  && list_eqb Bool.eqb (r_sat r) (map (fun k => satisfied atol rtol k s) (m_cons m))
  && Bool.eqb (r_feas r) (feasible atol rtol m s)
  && Qc_eqb (r_energy r) (spec_energy atol rtol m s)
  && (if k_cf_strict c || no_soft_violated atol rtol m s
      then Bool.eqb (r_check_feasible r) (feasible atol rtol m s) else true)
  (* code-shaped per-sample path *)
  && list_eqb q4_eqb (r_data r) (map datum_tuple (iter_constraint_data m s))
  && list_eqb nq_eqb (r_viol r) (iter_violations m s false false)
  && list_eqb nq_eqb (r_viol_clip r) (iter_violations m s false true)
  && list_eqb nq_eqb (r_viol_skip r) (iter_violations m s true false)
  && Bool.eqb (r_check_feasible r) (check_feasible m s rtol atol)
  (* code-shaped evaluation of the left-hand sides: raw expression state, label lookups in the matrix's columns *)
  && option_eqb (list_eqb q4_eqb) (option_map (map datum_tuple)
                   (x_iter_constraint_data (xm_pvars (k_x c)) (xm_cons (k_x c)) (r_ls r) (r_vals r)))
                (Some (r_data r)).

Definition vec_ok (atol rtol : Qc) (m : cqm) (samples : list sample) (garb : list bool)
                  (en : list Qc) (sat : list (list bool)) (feas : list bool) : bool :=
  let v := from_samples_cqm atol rtol m samples garb in
  list_eqb Qc_eqb en (v_energy v)
  && list_eqb (list_eqb Bool.eqb) sat (v_is_satisfied v)
  && list_eqb Bool.eqb feas (v_is_feasible v).

Definition xrow_ok (c : case) (m : cqm) (r : xrow) : bool :=
  let s := sample_of_list (x_sample r) in
  list_eqb Bool.eqb (x_sat r) (map (fun k => satisfied (k_atol c) (k_rtol c) k s) (m_cons m))
  && Bool.eqb (x_feas r) (feasible (k_atol c) (k_rtol c) m s)
  && Qc_eqb (x_energy r) (spec_energy (k_atol c) (k_rtol c) m s).

Definition check (c : case) : bool :=
  let m := case_cqm c in
  let samples := map (fun r => row_sample (r_ls r) (r_vals r)) (k_rows c) in
  let n := length (m_cons m) in
  raw_tied (k_n c) (k_x c) (k_obj c) (map (fun k => fst (fst (fst k))) (k_cons c))
  && forallb (row_ok c m) (k_rows c)
  (* the objective column: definition and code-shaped *)
  && list_eqb Qc_eqb (k_obj_en c) (map (energy (m_obj m)) samples)
  && option_eqb (pair_eqb (list_eqb Qc_eqb) (list_eqb (list_eqb Qc_eqb)))
       (* the matrix as_samples builds: every row re-aligned to the labels of the first (k_ls) *)
       (x_vec_inputs (k_x c) (k_ls c) (align_rows (k_ls c) (map (fun r => (r_ls r, r_vals r)) (k_rows c))))
       (Some (k_obj_en c,
              map (fun j => map (fun r => lhs_of (nth j (r_data r) (0, 0, 0, 0))) (k_rows c))
                  (seq 0 (length (k_cons c)))))
  && forallb (xrow_ok c m) (k_exact c)
  (* vectorised model, with the uninitialised memory all-true and all-false *)
  && vec_ok (k_atol c) (k_rtol c) m samples (repeat true n)
            (map r_energy (k_rows c)) (map r_sat (k_rows c)) (map r_feas (k_rows c))
  && vec_ok (k_atol c) (k_rtol c) m samples (repeat false n)
            (map r_energy (k_rows c)) (map r_sat (k_rows c)) (map r_feas (k_rows c))
  && vec_ok (k_atol c) (k_rtol c) m (map (fun r => sample_of_list (x_sample r)) (k_exact c)) (repeat true n)
            (map x_energy (k_exact c)) (map x_sat (k_exact c)) (map x_feas (k_exact c)).

(* ---- a label of the model missing from the samples: which entry points raise ---- *)
Record rcase := mkRCase {
  rk_n : nat; rk_obj : obs; rk_lhs : list obs;
  rk_x : xcqm; rk_ls : list label; rk_rows : list (list Qc);
  rk_ps_raised : list bool;       (* per row: violations() / iter_constraint_data raised ValueError *)
  rk_vec_raised : bool }.         (* from_samples_cqm raised ValueError *)

Definition is_none {A} (o : option A) : bool := match o with None => true | Some _ => false end.

Definition check_raise (c : rcase) : bool :=
  let xm := rk_x c in
  raw_tied (rk_n c) xm (rk_obj c) (rk_lhs c)
  && list_eqb Bool.eqb (rk_ps_raised c)
       (map (fun row => is_none (x_iter_constraint_data (xm_pvars xm) (xm_cons xm) (rk_ls c) row)) (rk_rows c))
  && Bool.eqb (rk_vec_raised c) (is_none (x_vec_inputs xm (rk_ls c) (rk_rows c))).
