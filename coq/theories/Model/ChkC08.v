(* C08 correspondence: every entry point of the implementation is compared with the spec of
   Model/Feas.v evaluated on the coefficients the CQM reports (and with the code-shaped models). *)
From Coq Require Import List ZArith QArith Qcanon Bool Arith.
From Dimod Require Import Base.Util Model.Poly Model.Feas.
Import ListNotations.
Open Scope Qc_scope.

Record row := mkRow {
  r_sample : list (label * Qc);
  r_data : list (Qc * Qc * Qc * Qc);        (* iter_constraint_data: lhs_energy, rhs_energy, activity, violation *)
  r_viol : list (nat * Qc);                 (* violations() *)
  r_viol_clip : list (nat * Qc);            (* iter_violations(clip=True) *)
  r_viol_skip : list (nat * Qc);            (* iter_violations(skip_satisfied=True) *)
  r_viol_skip_clip : list (nat * Qc);       (* both flags *)
  r_check_feasible : bool;
  r_sat : list bool; r_feas : bool; r_energy : Qc }.   (* from_samples_cqm record *)

Record xrow := mkXRow { x_sample : list (label * Qc); x_sat : list bool; x_feas : bool; x_energy : Qc }.

Record case := mkCase {
  k_obj : obs;
  k_cons : list (obs * sense * Qc * option (Qc * penalty));
  k_atol : Qc; k_rtol : Qc;
  k_cf_strict : bool;       (* compare check_feasible with the spec on every row *)
  k_rows : list row;
  k_exact : list xrow }.

Definition case_cqm (c : case) : cqm :=
  mkCqm (obs_poly (k_obj c))
        (map (fun k => let '(lhs, sn, rhs, soft) := k in mkCon (obs_poly lhs) sn rhs soft) (k_cons c)).

Definition nq_eqb (a b : nat * Qc) : bool := Nat.eqb (fst a) (fst b) && Qc_eqb (snd a) (snd b).

Definition spec_violations (m : cqm) (s : sample) : list (nat * Qc) :=
  combine (seq 0 (length (m_cons m))) (map (fun k => violation k s) (m_cons m)).

Definition datum_tuple (d : datum) : Qc * Qc * Qc * Qc := (d_lhs d, d_rhs d, d_activity d, d_violation d).
Definition q4_eqb (a b : Qc * Qc * Qc * Qc) : bool :=
  let '(a1, a2, a3, a4) := a in let '(b1, b2, b3, b4) := b in
  Qc_eqb a1 b1 && Qc_eqb a2 b2 && Qc_eqb a3 b3 && Qc_eqb a4 b4.

Definition no_soft_violated (atol rtol : Qc) (m : cqm) (s : sample) : bool :=
  forallb (fun k => satisfied atol rtol k s) (filter is_soft (m_cons m)).

Definition row_ok (c : case) (m : cqm) (r : row) : bool :=
  let s := sample_of_list (r_sample r) in
  let atol := k_atol c in let rtol := k_rtol c in
  (* spec *)
  list_eqb nq_eqb (r_viol r) (spec_violations m s)
  && list_eqb nq_eqb (r_viol_clip r) (map (fun iv => (fst iv, qmax0 (snd iv))) (spec_violations m s))
  && list_eqb nq_eqb (r_viol_skip r) (filter (fun iv => negb (Qc_leb (snd iv) 0)) (spec_violations m s))
  && list_eqb nq_eqb (r_viol_skip_clip r) (r_viol_skip r)
  && list_eqb Bool.eqb (r_sat r) (map (fun k => satisfied atol rtol k s) (m_cons m))
  && Bool.eqb (r_feas r) (feasible atol rtol m s)
  && Qc_eqb (r_energy r) (spec_energy atol rtol m s)
  && (if k_cf_strict c || no_soft_violated atol rtol m s
      then Bool.eqb (r_check_feasible r) (feasible atol rtol m s) else true)
  (* code-shaped per-sample path *)
  && list_eqb q4_eqb (r_data r) (map datum_tuple (iter_constraint_data m s))
  && list_eqb nq_eqb (r_viol r) (iter_violations m s false false)
  && list_eqb nq_eqb (r_viol_clip r) (iter_violations m s false true)
  && list_eqb nq_eqb (r_viol_skip r) (iter_violations m s true false)
  && Bool.eqb (r_check_feasible r) (check_feasible m s rtol atol).

Definition vec_ok (atol rtol : Qc) (m : cqm) (samples : list sample) (garb : list bool)
                  (en : list Qc) (sat : list (list bool)) (feas : list bool) : bool :=
  let v := from_samples_cqm atol rtol m samples garb in
  list_eqb Qc_eqb en (v_energy v)
  && list_eqb (list_eqb Bool.eqb) sat (v_is_satisfied v)
  && list_eqb Bool.eqb feas (v_is_feasible v).

Definition xrow_ok (c : case) (m : cqm) (r : xrow) : bool :=
  let s := sample_of_list (x_sample r) in
  list_eqb Bool.eqb (x_sat r) (map (fun k => satisfied (k_atol c) (k_rtol c) k s) (m_cons m))
  && Bool.eqb (x_feas r) (feasible (k_atol c) (k_rtol c) m s)
  && Qc_eqb (x_energy r) (spec_energy (k_atol c) (k_rtol c) m s).

Definition check (c : case) : bool :=
  let m := case_cqm c in
  let samples := map (fun r => sample_of_list (r_sample r)) (k_rows c) in
  let n := length (m_cons m) in
  forallb (row_ok c m) (k_rows c)
  && forallb (xrow_ok c m) (k_exact c)
  (* vectorised model, with the uninitialised memory all-true and all-false *)
  && vec_ok (k_atol c) (k_rtol c) m samples (repeat true n)
            (map r_energy (k_rows c)) (map r_sat (k_rows c)) (map r_feas (k_rows c))
  && vec_ok (k_atol c) (k_rtol c) m samples (repeat false n)
            (map r_energy (k_rows c)) (map r_sat (k_rows c)) (map r_feas (k_rows c))
  && vec_ok (k_atol c) (k_rtol c) m (map (fun r => sample_of_list (x_sample r)) (k_exact c)) (repeat true n)
            (map x_energy (k_exact c)) (map x_sat (k_exact c)) (map x_feas (k_exact c)).
