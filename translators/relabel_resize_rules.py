#!/venv/bin/python
"""Fail-closed translator: dimod/utilities.py (iter_safe_relabels), dimod/binary/pybqm.py (resize),
dimod/binary/cybqm/cybqm_template.pyx.pxi (resize) -> coq/theories/Gen/Gen_RelabelRules.v

iter_safe_relabels decides whether relabel_variables raises.  With Python's ast the body is
required to be exactly

    try: new_labels = {new: old for old, new in mapping.items()}
    except TypeError: raise ValueError(...)                      # unhashable values (not modelled: labels are hashable)
    if len(new_labels) < len(mapping):                            # two keys -> one label
        for old, new in mapping.items():
            if <any test>: raise ValueError(...)
        raise RuntimeError
    old_labels = mapping.keys()
    for v in new_labels:
        if <COND over `v`, `existing`, `old_labels`>: raise ValueError(...)
    if any(...): yield from resolve_label_conflict(...)
    else: yield mapping

and COND (a boolean combination of `v in X` / `v not in X`) is translated to Coq.  The emitted predicate
`gen_relabel_raises m s` is what Model/Hist.relabel_ok must be the negation of (Proofs/HistGenTie.v).
resize: both back-ends must start with `if n < 0: raise ValueError(...)`; the comparison is translated.

usage: relabel_resize_rules.py <build_dir> <out_dir>
"""
import ast
import hashlib
import os
import re
import sys


class Bad(Exception):
    pass


def src_of(src, n):
    return (ast.get_source_segment(src, n) or "").splitlines()[0][:100]


def is_name(n, ident):
    return isinstance(n, ast.Name) and n.id == ident


def is_raise(n, exc):
    if not isinstance(n, ast.Raise) or n.exc is None:
        return False
    e = n.exc
    return (isinstance(e, ast.Call) and is_name(e.func, exc)) or is_name(e, exc)


def is_call_attr(n, base, attr):
    return (isinstance(n, ast.Call) and not n.args and not n.keywords and isinstance(n.func, ast.Attribute)
            and n.func.attr == attr and is_name(n.func.value, base))


def is_len(n, ident):
    return isinstance(n, ast.Call) and is_name(n.func, "len") and len(n.args) == 1 and is_name(n.args[0], ident)


SETS = {"existing": "has_var s {x}", "old_labels": "mem_label {x} (map fst m)", "new_labels": "mem_label {x} (map snd m)"}


def cond(n, src):
    """boolean combination of membership tests of `v` -> Coq bool over x"""
    if isinstance(n, ast.BoolOp):
        op = " && " if isinstance(n.op, ast.And) else " || "
        return "(" + op.join(cond(v, src) for v in n.values) + ")"
    if isinstance(n, ast.UnaryOp) and isinstance(n.op, ast.Not):
        return "negb " + cond(n.operand, src)
    if isinstance(n, ast.Compare) and len(n.ops) == 1 and is_name(n.left, "v") and isinstance(n.comparators[0], ast.Name) \
            and n.comparators[0].id in SETS:
        t = SETS[n.comparators[0].id].format(x="x")
        if isinstance(n.ops[0], ast.In):
            return "(" + t + ")"
        if isinstance(n.ops[0], ast.NotIn):
            return "negb (" + t + ")"
    raise Bad("iter_safe_relabels: unrecognised condition: " + src_of(src, n))


def relabel_rule(src):
    tree = ast.parse(src)
    fn = [n for n in tree.body if isinstance(n, ast.FunctionDef) and n.name == "iter_safe_relabels"]
    if len(fn) != 1:
        raise Bad("iter_safe_relabels not found")
    fn = fn[0]
    if [a.arg for a in fn.args.args] != ["mapping", "existing"]:
        raise Bad("iter_safe_relabels: unexpected parameters")
    body = [n for n in fn.body if not (isinstance(n, ast.Expr) and isinstance(n.value, ast.Constant))]
    if len(body) != 5:
        raise Bad("iter_safe_relabels: expected 5 statements, found %d" % len(body))
    s_try, s_dup, s_old, s_for, s_yield = body
    # 1
    ok = (isinstance(s_try, ast.Try) and len(s_try.body) == 1 and isinstance(s_try.body[0], ast.Assign)
          and is_name(s_try.body[0].targets[0], "new_labels") and isinstance(s_try.body[0].value, ast.DictComp)
          and is_name(s_try.body[0].value.key, "new") and is_name(s_try.body[0].value.value, "old")
          and is_call_attr(s_try.body[0].value.generators[0].iter, "mapping", "items")
          and len(s_try.handlers) == 1 and is_name(s_try.handlers[0].type, "TypeError")
          and len(s_try.handlers[0].body) == 1 and is_raise(s_try.handlers[0].body[0], "ValueError")
          and not s_try.orelse and not s_try.finalbody)
    if not ok:
        raise Bad("iter_safe_relabels: statement 1 (new_labels = {new: old ...} / except TypeError) not recognised")
    # 2
    ok = (isinstance(s_dup, ast.If) and isinstance(s_dup.test, ast.Compare) and len(s_dup.test.ops) == 1
          and isinstance(s_dup.test.ops[0], ast.Lt) and is_len(s_dup.test.left, "new_labels")
          and is_len(s_dup.test.comparators[0], "mapping") and not s_dup.orelse and len(s_dup.body) == 2
          and isinstance(s_dup.body[0], ast.For) and is_call_attr(s_dup.body[0].iter, "mapping", "items")
          and len(s_dup.body[0].body) == 1 and isinstance(s_dup.body[0].body[0], ast.If)
          and len(s_dup.body[0].body[0].body) == 1 and is_raise(s_dup.body[0].body[0].body[0], "ValueError")
          and is_raise(s_dup.body[1], "RuntimeError"))
    if not ok:
        raise Bad("iter_safe_relabels: statement 2 (len(new_labels) < len(mapping) -> raise) not recognised")
    dup = "negb (nodupb (map snd m))"      # fewer distinct values than keys (keys of a dict are distinct)
    # 3
    if not (isinstance(s_old, ast.Assign) and is_name(s_old.targets[0], "old_labels") and is_call_attr(s_old.value, "mapping", "keys")):
        raise Bad("iter_safe_relabels: `old_labels = mapping.keys()` not recognised")
    ok = (isinstance(s_for, ast.For) and is_name(s_for.target, "v") and is_name(s_for.iter, "new_labels") and len(s_for.body) == 1
          and isinstance(s_for.body[0], ast.If) and not s_for.body[0].orelse and len(s_for.body[0].body) == 1
          and is_raise(s_for.body[0].body[0], "ValueError") and not s_for.orelse)
    if not ok:
        raise Bad("iter_safe_relabels: statement 4 (for v in new_labels: if ...: raise ValueError) not recognised")
    clash = cond(s_for.body[0].test, src)
    # 5: no further raise
    for n in ast.walk(s_yield):
        if isinstance(n, ast.Raise):
            raise Bad("iter_safe_relabels: unexpected raise in the final statement")
    return dup, clash


def resize_guard(text, where):
    """first statement of resize must be `if n < 0: raise ValueError(...)`"""
    all_lines = text.splitlines()
    idx = [i for i, l in enumerate(all_lines) if re.match(r"\s*(def|cpdef Py_ssize_t) resize\(self, (Py_ssize_t )?n(: int)?\)", l)]
    if len(idx) != 1:
        raise Bad(where + ": expected exactly one resize(self, n), found %d" % len(idx))
    lines = [l.strip() for l in all_lines[idx[0] + 1: idx[0] + 12]
             if l.strip() and not l.strip().startswith("#") and not l.strip().startswith('"""')]
    if len(lines) < 2 or lines[0] != "if n < 0:" or not lines[1].startswith("raise ValueError("):
        raise Bad(where + ": resize does not start with `if n < 0: raise ValueError(...)`: %r" % lines[:2])
    return "(n <? 0)%Z"


def main():
    build, out = sys.argv[1], sys.argv[2]
    paths = [os.path.join(build, "dimod", "utilities.py"), os.path.join(build, "dimod", "binary", "pybqm.py"),
             os.path.join(build, "dimod", "binary", "cybqm", "cybqm_template.pyx.pxi")]
    srcs = [open(p).read() for p in paths]
    for p, s in zip(paths, srcs):
        print("INPUT %s %s" % (p, hashlib.sha256(s.encode()).hexdigest()))
    dup, clash = relabel_rule(srcs[0])
    g1 = resize_guard(srcs[1], "pybqm.py")
    g2 = resize_guard(srcs[2], "cybqm_template.pyx.pxi")
    if g1 != g2:
        raise Bad("the two resize guards differ")
    os.makedirs(out, exist_ok=True)
    with open(os.path.join(out, "Gen_RelabelRules.v"), "w") as fh:
        fh.write("(* GENERATED by translators/relabel_resize_rules.py from dimod/utilities.py, pybqm.py, cybqm_template.pyx.pxi - do not edit *)\n")
        fh.write("From Coq Require Import List ZArith Bool Arith.\nFrom Dimod Require Import Base.Util Model.Poly Model.Hist.\nImport ListNotations.\n\n")
        fh.write("(* iter_safe_relabels: two keys mapped to one label *)\n")
        fh.write("Definition gen_relabel_dup (m : list (label * label)) : bool := %s.\n\n" % dup)
        fh.write("(* iter_safe_relabels: the condition under which a new label x makes the call raise *)\n")
        fh.write("Definition gen_relabel_clash (m : list (label * label)) (s : state) (x : label) : bool := %s.\n\n" % clash)
        fh.write("Definition gen_relabel_raises (m : list (label * label)) (s : state) : bool :=\n"
                 "  gen_relabel_dup m || existsb (gen_relabel_clash m s) (map snd m).\n\n")
        fh.write("(* resize(n): first statement of both back-ends *)\n")
        fh.write("Definition gen_resize_raises (n : Z) : bool := %s.\n" % g1)


if __name__ == "__main__":
    try:
        main()
    except Bad as e:
        print("relabel_resize_rules: " + str(e))
        sys.exit(1)
