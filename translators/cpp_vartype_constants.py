#!/venv/bin/python
"""Fail-closed translator: the C++ / Cython conversion constants -> coq/theories/Gen/Gen_CppVartype.v

Sources (all under <build_dir>/dimod):
  include/dimod/abc.h                         QuadraticModelBase::substitute_variables   (the three multiplier formulas + loop shape)
  include/dimod/binary_quadratic_model.h      BinaryQuadraticModel::change_vartype       (substitute_variables(.5,.5) / (2,-1))
  include/dimod/quadratic_model.h             QuadraticModel::change_vartype             (substitute_variable(v,m,c), lb, ub per branch)
  include/dimod/constrained_quadratic_model.h ConstrainedQuadraticModel::change_vartype  (same, over objective and constraints)
  constrained/cyconstrained.pyx               flip_variable                              (substitute_variable(vi,-1,0) / (vi,-1,1))

Each function body is cut out by brace matching, comments are removed, white space is normalised and the result must
match a template EXACTLY except for the numeric literals, which are captured.  Anything else is an error naming the file.
Proofs/CppVartypeFacts.v proves that the hand-written models (Model/AdjSubstAll.v, Model/VartypeOps.v) use exactly the
generated constants, so a changed literal or formula breaks the proof build.

usage: cpp_vartype_constants.py <build_dir> <out_dir>
"""
import hashlib
import os
import re
import sys
from fractions import Fraction

NAMES = {Fraction(1, 2): "half", Fraction(2): "two", Fraction(-1): "(- (1))", Fraction(1): "1", Fraction(0): "0",
         Fraction(-2): "(- two)", Fraction(-1, 2): "(- half)"}
NUM = r"([+-]?(?:\d+\.?\d*|\.\d+))"


class Bad(Exception):
    pass


def body_of(src, sig_re, where):
    m = re.search(sig_re, src)
    if not m:
        raise Bad(f"{where}: signature not found")
    i = src.index("{", m.end() - 1) if src[m.end() - 1] != "{" else m.end() - 1
    depth, j = 0, i
    while True:
        if src[j] == "{":
            depth += 1
        elif src[j] == "}":
            depth -= 1
            if depth == 0:
                break
        j += 1
    body = src[i + 1:j]
    body = re.sub(r"//[^\n]*", "", body)
    body = re.sub(r"/\*.*?\*/", "", body, flags=re.S)
    return re.sub(r"\s+", " ", body).strip()


def tmpl(s):
    """template text -> regex: literal except for the token NUM"""
    parts = re.sub(r"\s+", " ", s.strip()).split("NUM")
    return "^" + NUM.join(re.escape(p) for p in parts) + "$"


def match(body, template, where):
    m = re.match(tmpl(template), body)
    if not m:
        raise Bad(f"{where}: body does not have the expected shape:\n  {body}")
    return [Fraction(g) for g in m.groups()]


def name(k, where):
    if k not in NAMES:
        raise Bad(f"{where}: constant {k} has no named Coq constant (the source changed)")
    return NAMES[k]


SV = """bias_type quad_mp = multiplier * multiplier; bias_type lin_quad_mp = multiplier * offset;
bias_type quad_offset_mp = offset * offset / NUM;
for (size_type v = 0; v < num_variables(); ++v) { offset_ += linear_biases_[v] * offset; linear_biases_[v] *= multiplier; }
if (has_adj()) { for (size_type v = 0; v < num_variables(); ++v) { for (auto& term : (*adj_ptr_)[v]) {
offset_ += quad_offset_mp * term.bias; linear_biases_[v] += lin_quad_mp * term.bias; term.bias *= quad_mp; } } }"""

BQM = """if (vartype_ == vartype) { return; } else if (vartype == Vartype::SPIN) { base_type::substitute_variables(NUM, NUM); }
else if (vartype == Vartype::BINARY) { base_type::substitute_variables(NUM, NUM); }
else { throw std::logic_error("unsupported vartype"); } vartype_ = vartype;"""

QM = """const Vartype& source = this->vartype(v); const Vartype& target = vartype;
if (source == target) { return; }
else if (source == Vartype::SPIN && target == Vartype::BINARY) { base_type::substitute_variable(v, NUM, NUM);
this->varinfo_[v].lb = NUM; this->varinfo_[v].ub = NUM; this->varinfo_[v].vartype = Vartype::BINARY; }
else if (source == Vartype::BINARY && target == Vartype::SPIN) { base_type::substitute_variable(v, NUM, NUM);
this->varinfo_[v].lb = NUM; this->varinfo_[v].ub = NUM; this->varinfo_[v].vartype = Vartype::SPIN; }
else if (source == Vartype::SPIN && target == Vartype::INTEGER) { this->change_vartype(Vartype::BINARY, v); this->change_vartype(Vartype::INTEGER, v); }
else if (source == Vartype::BINARY && target == Vartype::INTEGER) { this->varinfo_[v].vartype = Vartype::INTEGER; }
else { throw std::logic_error("unsupported vartype change"); }"""

CQM = """const Vartype& source = this->vartype(v); const Vartype& target = vartype;
if (source == target) { return; }
else if (source == Vartype::SPIN && target == Vartype::BINARY) { objective.substitute_variable(v, NUM, NUM);
for (auto& c_ptr : constraints_) { c_ptr->substitute_variable(v, NUM, NUM); }
varinfo_[v].lb = NUM; varinfo_[v].ub = NUM; varinfo_[v].vartype = Vartype::BINARY; }
else if (source == Vartype::BINARY && target == Vartype::SPIN) { objective.substitute_variable(v, NUM, NUM);
for (auto& c_ptr : constraints_) { c_ptr->substitute_variable(v, NUM, NUM); }
varinfo_[v].lb = NUM; varinfo_[v].ub = NUM; varinfo_[v].vartype = Vartype::SPIN; }
else if (source == Vartype::SPIN && target == Vartype::INTEGER) { change_vartype(Vartype::BINARY, v); change_vartype(Vartype::INTEGER, v); }
else if (source == Vartype::BINARY && target == Vartype::INTEGER) { varinfo_[v].vartype = Vartype::INTEGER; }
else { throw std::logic_error("unsupported vartype change"); }"""

FLIP = r"""def flip_variable\(self, v\):\s*
\s*cdef Py_ssize_t vi = self\.variables\.index\(v\)\s*
\s*if self\.cppcqm\.vartype\(vi\) == cppVartype\.SPIN:\s*
\s*self\.cppcqm\.substitute_variable\(vi, NUM, NUM\)\s*
\s*elif self\.cppcqm\.vartype\(vi\) == cppVartype\.BINARY:\s*
\s*self\.cppcqm\.substitute_variable\(vi, NUM, NUM\)\s*
\s*else:\s*
\s*raise ValueError\(""".replace("NUM", NUM)


def main():
    build, out = sys.argv[1], sys.argv[2]
    srcs = {}
    for key, rel in (("abc", "include/dimod/abc.h"), ("bqm", "include/dimod/binary_quadratic_model.h"),
                     ("qm", "include/dimod/quadratic_model.h"), ("cqm", "include/dimod/constrained_quadratic_model.h"),
                     ("cy", "constrained/cyconstrained.pyx")):
        path = os.path.join(build, "dimod", rel)
        srcs[key] = open(path).read()
        print("INPUT %s %s" % (path, hashlib.sha256(srcs[key].encode()).hexdigest()))

    (div,) = match(body_of(srcs["abc"], r"QuadraticModelBase<bias_type, index_type>::substitute_variables\(bias_type multiplier,\s*bias_type offset\)\s*\{",
                           "abc.h substitute_variables"), SV, "abc.h substitute_variables")
    b = match(body_of(srcs["bqm"], r"BinaryQuadraticModel<bias_type, index_type>::change_vartype\(Vartype vartype\)\s*\{",
                      "binary_quadratic_model.h change_vartype"), BQM, "binary_quadratic_model.h change_vartype")
    q = match(body_of(srcs["qm"], r"QuadraticModel<bias_type, index_type>::change_vartype\(Vartype vartype, index_type v\)\s*\{",
                      "quadratic_model.h change_vartype"), QM, "quadratic_model.h change_vartype")
    c = match(body_of(srcs["cqm"], r"ConstrainedQuadraticModel<bias_type, index_type>::change_vartype\(Vartype vartype,\s*index_type v\)\s*\{",
                      "constrained_quadratic_model.h change_vartype"), CQM, "constrained_quadratic_model.h change_vartype")
    if c[0:2] != c[2:4] or c[6:8] != c[8:10]:
        raise Bad("constrained_quadratic_model.h change_vartype: objective and constraints are substituted with different constants")
    fm = re.search(FLIP, srcs["cy"])
    if not fm:
        raise Bad("cyconstrained.pyx flip_variable: body does not have the expected shape")
    f = [Fraction(g) for g in fm.groups()]

    def tup(xs, where):
        return "(" + ", ".join(name(x, where) for x in xs) + ")"
    lines = ["(* GENERATED by translators/cpp_vartype_constants.py from abc.h, binary_quadratic_model.h, quadratic_model.h,",
             "   constrained_quadratic_model.h, cyconstrained.pyx - do not edit *)",
             "From Coq Require Import QArith Qcanon.", "From Dimod Require Import Base.Util Model.Poly.", "Open Scope Qc_scope.", "",
             "(* abc.h substitute_variables(multiplier, offset): the three derived multipliers *)",
             "Definition gen_sv_quad_mp (multiplier offset : Qc) : Qc := multiplier * multiplier.",
             "Definition gen_sv_lin_quad_mp (multiplier offset : Qc) : Qc := multiplier * offset.",
             "Definition gen_sv_quad_offset_mp (multiplier offset : Qc) : Qc := offset * offset / %s." % name(div, "abc.h"),
             "",
             "(* BinaryQuadraticModel::change_vartype: arguments of substitute_variables, (multiplier, offset) *)",
             "Definition gen_bqm_to_spin : Qc * Qc := %s." % tup(b[0:2], "bqm"),
             "Definition gen_bqm_to_binary : Qc * Qc := %s." % tup(b[2:4], "bqm"),
             "",
             "(* QuadraticModel::change_vartype(vartype, v): (multiplier, offset, lb, ub) *)",
             "Definition gen_qm_spin_to_binary : Qc * Qc * Qc * Qc := %s." % tup(q[0:4], "qm"),
             "Definition gen_qm_binary_to_spin : Qc * Qc * Qc * Qc := %s." % tup(q[4:8], "qm"),
             "",
             "(* ConstrainedQuadraticModel::change_vartype(vartype, v): (multiplier, offset, lb, ub), objective and constraints alike *)",
             "Definition gen_cqm_spin_to_binary : Qc * Qc * Qc * Qc := %s." % tup(c[0:2] + c[4:6], "cqm"),
             "Definition gen_cqm_binary_to_spin : Qc * Qc * Qc * Qc := %s." % tup(c[6:8] + c[10:12], "cqm"),
             "",
             "(* cyconstrained.pyx flip_variable: (multiplier, offset) *)",
             "Definition gen_cqm_flip_spin : Qc * Qc := %s." % tup(f[0:2], "flip"),
             "Definition gen_cqm_flip_binary : Qc * Qc := %s." % tup(f[2:4], "flip"), ""]
    os.makedirs(out, exist_ok=True)
    p = os.path.join(out, "Gen_CppVartype.v")
    new = "\n".join(lines)
    if not os.path.exists(p) or open(p).read() != new:
        open(p, "w").write(new)


if __name__ == "__main__":
    try:
        main()
    except Bad as e:
        print("cpp_vartype_constants.py: " + str(e))
        sys.exit(1)
