#!/venv/bin/python
"""Regenerates coq/theories/Gen/Gen_Loaders.v: WHICH adjacency primitive each file loader calls, in which
loop nesting, and how the BQM loader cuts a stored neighbourhood.  Fail-closed.

    python codec_loaders.py <build_dir> <out_dir>

Recognised shapes (anything else aborts with exit status 1):
* binary_quadratic_model.py  BinaryQuadraticModel.from_file:
    for v in range(num_variables): ... vi = np.searchsorted(qdata['outvar'], v, side='right')
        irow = ...qdata['outvar'][:vi]; icol = np.full(vi, v, ...); biases = ...qdata['bias'][:vi]
        bqm.data.add_quadratic_from_arrays(irow, icol, biases)         (exactly one adjacency call, inside the loop)
  cybqm_template.pyx.pxi  add_quadratic_from_arrays -> self.cppbqm.add_quadratic_from_coo(&irow[0], &icol[0], &qdata[0], length)
  libcpp/abc.pxd          add_quadratic_from_coo "add_quadratic" [ItRow, ItCol, ItBias]
  include/dimod/abc.h     the iterator overload of add_quadratic: one `add_quadratic(*row_iterator, *col_iterator,
                          *bias_iterator)` per element, in order; add_quadratic(u,v,bias) itself: asymmetric_quadratic_ref
                          (u,v) += bias and (v,u) += bias, the ref being std::lower_bound + emplace(it, v, 0) if absent
* quadratic_model.py  QuadraticModel.from_file: for vi in range(num_variables):
        obj.data._ilower_triangle_load(vi, *NeighborhoodSection.load(file_like))
  cyqm_template.pyx.pxi _ilower_triangle_load: for i in range(num_neighbors): ... self.cppqm.add_quadratic_back(ui, vi, bias)
* cyexpression.pyx _iquadratic_load: for i in range(num_interactions): ....add_quadratic_back(irow[i], icol[i], qdata[i])
* include/dimod/abc.h add_quadratic_back: emplace_back(v, bias) on adj[u] and, for u != v, emplace_back(u, bias) on adj[v]
"""
import ast
import hashlib
import os
import re
import sys


class Fail(Exception):
    pass


def need(c, msg):
    if not c:
        raise Fail(msg)


def read(build, rel, inputs):
    p = os.path.join(build, rel)
    need(os.path.exists(p), f"missing source file {rel}")
    data = open(p, "rb").read()
    inputs.append((p, hashlib.sha256(data).hexdigest()))
    return data.decode("utf-8")


def method(tree, cls, name):
    for node in ast.walk(tree):
        if isinstance(node, ast.ClassDef) and node.name == cls:
            for f in node.body:
                if isinstance(f, ast.FunctionDef) and f.name == name:
                    return f
    raise Fail(f"{cls}.{name} not found")


ADJ_CALLS = ("add_quadratic", "add_quadratic_back", "add_quadratic_from_arrays", "add_quadratic_from_dense",
             "add_quadratic_from_iterable", "set_quadratic", "_ilower_triangle_load", "add_quadratic_from_coo",
             "_iquadratic_load")


def adj_calls(node):
    out = []
    for n in ast.walk(node):
        if isinstance(n, ast.Call) and isinstance(n.func, ast.Attribute) and n.func.attr in ADJ_CALLS:
            out.append(n)
    return out


def pyx_func(src, name):
    m = re.search(r"^    def %s\(.*?(?=^    (?:def |cpdef |cdef |@)|\Z)" % re.escape(name), src, flags=re.S | re.M)
    need(m, f"{name} not found")
    return m.group(0)


def strip_comments(s):
    return re.sub(r"#.*", "", s)


def main(build, out_dir):
    inputs, L = [], []
    # ---------------------------------------------------------------- BQM
    tb = ast.parse(read(build, "dimod/binary/binary_quadratic_model.py", inputs))
    ff = method(tb, "BinaryQuadraticModel", "from_file")
    calls = adj_calls(ff)
    need(len(calls) == 1 and calls[0].func.attr == "add_quadratic_from_arrays",
         f"BQM.from_file: expected exactly one adjacency call add_quadratic_from_arrays, found {[c.func.attr for c in calls]}")
    need(ast.unparse(calls[0]) == "bqm.data.add_quadratic_from_arrays(irow, icol, biases)",
         "BQM.from_file: arguments of add_quadratic_from_arrays changed: " + ast.unparse(calls[0]))
    loops = [n for n in ast.walk(ff) if isinstance(n, ast.For) and calls[0] in list(ast.walk(n))]
    need(len(loops) == 1 and ast.unparse(loops[0].target) == "v" and ast.unparse(loops[0].iter) == "range(num_variables)",
         "BQM.from_file: the adjacency call is not inside exactly `for v in range(num_variables)`")
    body = ast.unparse(loops[0])
    m = re.search(r"vi = np\.searchsorted\(qdata\['outvar'\], v, side='(left|right)'\)", body)
    need(m, "BQM.from_file: searchsorted cut not recognised")
    side = m.group(1)
    need("irow = np.ascontiguousarray(qdata['outvar'][:vi])" in body and "icol = np.full(vi, v, dtype=itype)" in body
         and "biases = np.ascontiguousarray(qdata['bias'][:vi])" in body, "BQM.from_file: irow/icol/biases construction changed")
    cy = strip_comments(read(build, "dimod/binary/cybqm/cybqm_template.pyx.pxi", inputs))
    f = pyx_func(cy, "add_quadratic_from_arrays")
    prims = re.findall(r"self\.cppbqm\.(\w+)\(", f)
    need(prims == ["add_quadratic_from_coo", "num_variables"] and
         "self.cppbqm.add_quadratic_from_coo(&irow[0], &icol[0], &qdata[0], length)" in f,
         f"cyBQM.add_quadratic_from_arrays: C++ calls changed: {prims}")
    pxd = read(build, "dimod/libcpp/abc.pxd", inputs)
    m = re.findall(r'void add_quadratic_from_coo "(\w+)" \[ItRow, ItCol, ItBias\]', pxd)
    need(m == ["add_quadratic"], f"abc.pxd: add_quadratic_from_coo is bound to {m}")
    h = read(build, "dimod/include/dimod/abc.h", inputs)
    hn = re.sub(r"//.*", "", h)
    hn = re.sub(r"\s+", " ", hn)
    need("for (index_type i = 0; i < length; ++i, ++row_iterator, ++col_iterator, ++bias_iterator) { "
         "add_quadratic(*row_iterator, *col_iterator, *bias_iterator); }" in hn,
         "abc.h: iterator overload of add_quadratic changed")
    need("} else { asymmetric_quadratic_ref(u, v) += bias; asymmetric_quadratic_ref(v, u) += bias; }" in hn,
         "abc.h: add_quadratic(u, v, bias) off-diagonal branch changed")
    need("auto it = std::lower_bound(neighborhood.begin(), neighborhood.end(), v); "
         "if (it == neighborhood.end() || it->v != v) {" in hn and "it = neighborhood.emplace(it, v, 0);" in hn,
         "abc.h: asymmetric_quadratic_ref changed")
    need("} else { (*adj_ptr_)[u].emplace_back(v, bias); (*adj_ptr_)[v].emplace_back(u, bias); }" in hn
         and "default: { (*adj_ptr_)[u].emplace_back(v, bias); break; }" in hn,
         "abc.h: add_quadratic_back changed")
    L.append("Definition BQM_LOADER_PRIM : prim := PAddQuadratic.      (* via add_quadratic_from_arrays -> add_quadratic_from_coo *)")
    L.append(f"Definition BQM_CUT_INCLUSIVE : bool := {'true' if side == 'right' else 'false'}.   (* searchsorted side='{side}' *)")
    L.append("Definition BQM_LOOP : loop := RowsThenEntries.")
    # ---------------------------------------------------------------- QM
    tq = ast.parse(read(build, "dimod/quadratic/quadratic_model.py", inputs))
    ff = method(tq, "QuadraticModel", "from_file")
    calls = adj_calls(ff)
    need(len(calls) == 1 and ast.unparse(calls[0]) == "obj.data._ilower_triangle_load(vi, *NeighborhoodSection.load(file_like))",
         f"QM.from_file: adjacency calls changed: {[ast.unparse(c) for c in calls]}")
    loops = [n for n in ast.walk(ff) if isinstance(n, ast.For) and calls[0] in list(ast.walk(n))]
    need(len(loops) == 1 and ast.unparse(loops[0].target) == "vi" and ast.unparse(loops[0].iter) == "range(num_variables)",
         "QM.from_file: the adjacency call is not inside exactly `for vi in range(num_variables)`")
    cq = strip_comments(read(build, "dimod/quadratic/cyqm/cyqm_template.pyx.pxi", inputs))
    f = pyx_func(cq, "_ilower_triangle_load")
    prims = re.findall(r"self\.cppqm\.(\w+)\(", f)
    need(prims == ["add_quadratic_back"] and "self.cppqm.add_quadratic_back(ui, vi, bias)" in f
         and re.search(r"for i in range\(num_neighbors\):\s+memcpy\(&ui, &buff\[i\*itemsize\], index_itemsize\)", f),
         f"cyQM._ilower_triangle_load changed: {prims}")
    L.append("Definition QM_LOADER_PRIM : prim := PAddQuadraticBack.")
    L.append("Definition QM_LOOP : loop := RowsThenEntries.")
    # ---------------------------------------------------------------- expression
    ce = strip_comments(read(build, "dimod/constrained/cyexpression.pyx", inputs))
    f = pyx_func(ce, "_iquadratic_load")
    prims = re.findall(r"\)\.(add_\w+|set_\w+)\(", f)
    need(prims == ["add_quadratic_back"] and re.search(r"for i in range\(num_interactions\):\s+\(<cppQuadraticModelBase"
         r"\[bias_type, index_type\]\*>expression\)\.add_quadratic_back\(\s*irow\[i\], icol\[i\], qdata\[i\]\)", f),
         f"cyexpression._iquadratic_load changed: {prims}")
    L.append("Definition EXPR_LOADER_PRIM : prim := PAddQuadraticBack.")
    L.append("Definition EXPR_LOOP : loop := FlatRecords.")

    text = ("(* GENERATED by translators/codec_loaders.py - do not edit. *)\n"
            "Inductive prim := PAddQuadratic | PAddQuadraticBack.\n"
            "Inductive loop := RowsThenEntries | FlatRecords.\n\n" + "\n".join(L) + "\n")
    os.makedirs(out_dir, exist_ok=True)
    outp = os.path.join(out_dir, "Gen_Loaders.v")
    if not os.path.exists(outp) or open(outp).read() != text:
        with open(outp, "w") as fh:
            fh.write(text)
    for p, dig in inputs:
        print(f"INPUT {p} {dig}")


if __name__ == "__main__":
    try:
        main(sys.argv[1], sys.argv[2])
    except Fail as e:
        print("codec_loaders: " + str(e))
        sys.exit(1)
