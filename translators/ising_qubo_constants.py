#!/venv/bin/python
"""Fail-closed translator: dimod/utilities.py -> coq/theories/Gen/Gen_IsingQubo.v

Extracts, with Python's ast, every numeric factor of the two module-level functions
`ising_to_qubo` and `qubo_to_ising` and checks that the statements which consume them have
exactly the shape Model/IsingQubo.v (hand written) and Model/IsingQuboGen.v (parameterised by
the generated constants) mirror:

    def ising_to_qubo(h, J, offset=0.0):
        q = {(v, v): <lin> * bias for v, bias in h.items()}
        for (u, v), bias in J.items():
            if bias == 0.0:
                continue
            q[(u, v)] = <quad> * bias
            q[(u, u)] = q.setdefault((u, u), <default_u>) - <diag_u> * bias
            q[(v, v)] = q.setdefault((v, v), <default_v>) - <diag_v> * bias
        offset += [<off_J> *] sum(J.values()) +|- [<off_h> *] sum(h.values())
        return q, offset

    def qubo_to_ising(Q, offset=0.0):
        h = {}
        J = {}
        linear_offset = <lin_off_init>
        quadratic_offset = <quad_off_init>
        for (u, v), bias in Q.items():
            if u == v:
                if u in h: h[u] += <diag_h> * bias
                else:      h[u] = <diag_h> * bias          (the same factor in both branches)
                linear_offset += [<diag_off> *] bias
            else:
                if bias != 0.0:
                    J[(u, v)] = <J> * bias
                if u in h: h[u] += <hu> * bias
                else:      h[u] = <hu> * bias
                if v in h: h[v] += <hv> * bias
                else:      h[v] = <hv> * bias
                quadratic_offset += [<quad_off> *] bias
        offset += [<final_lin> *] linear_offset +|- [<final_quad> *] quadratic_offset
        return h, J, offset

Every statement of both bodies (after the docstring) must match; anything else is an error naming
the source line.  Only the <...> literals are free; in the two offset formulas a missing factor is 1
and a `-` between the two terms is folded into the second factor.  Float literals are dyadic, they are
converted exactly with fractions.Fraction(float); a factor that has no named Coq constant is an error.
Proofs/IsingQuboGenFacts.v proves that the hand-written model equals the parameterised one, so a changed
literal changes Gen_IsingQubo.v and breaks the proof build.

usage: ising_qubo_constants.py <build_dir> <out_dir>
"""
import ast
import hashlib
import os
import sys
from fractions import Fraction

NAMES = {Fraction(0): "0", Fraction(1): "1", Fraction(-1): "(- (1))",
         Fraction(2): "two", Fraction(-2): "(- two)",
         Fraction(1, 2): "half", Fraction(-1, 2): "(- half)",
         Fraction(4): "gq_four", Fraction(-4): "(- gq_four)",
         Fraction(1, 4): "gq_quarter", Fraction(-1, 4): "(- gq_quarter)"}


class Bad(Exception):
    pass


LINES = {}      # constant name -> source line it was read from


def put(c, key, value, node):
    c[key] = value
    LINES[key] = node.lineno


def seg(src, n):
    text = ast.get_source_segment(src, n) or ""
    lines = text.splitlines()
    return (lines[0] + " ...") if len(lines) > 1 else text


def expect(cond, s, src, what):
    if not cond:
        raise Bad(f"line {s.lineno}: expected `{what}`, found: {seg(src, s)}")


def is_name(n, ident):
    return isinstance(n, ast.Name) and n.id == ident


def is_pair(n, a, b):
    """(a, b) with plain names"""
    return isinstance(n, ast.Tuple) and len(n.elts) == 2 and is_name(n.elts[0], a) and is_name(n.elts[1], b)


def sub_slice(n):
    sl = n.slice
    if hasattr(ast, "Index") and isinstance(sl, getattr(ast, "Index")) and hasattr(sl, "value"):   # python < 3.9
        sl = sl.value
    return sl


def is_sub_name(n, base, idx):
    """base[idx]"""
    return isinstance(n, ast.Subscript) and is_name(n.value, base) and is_name(sub_slice(n), idx)


def is_sub_pair(n, base, a, b):
    """base[(a, b)]"""
    return isinstance(n, ast.Subscript) and is_name(n.value, base) and is_pair(sub_slice(n), a, b)


def is_method_call(n, base, meth, nargs=0):
    return (isinstance(n, ast.Call) and len(n.args) == nargs and not n.keywords and isinstance(n.func, ast.Attribute)
            and n.func.attr == meth and is_name(n.func.value, base))


def is_sum_values(n, base):
    """sum(base.values())"""
    return (isinstance(n, ast.Call) and is_name(n.func, "sum") and len(n.args) == 1 and not n.keywords
            and is_method_call(n.args[0], base, "values"))


def number(n, src):
    """exact value of a numeric literal (optionally signed)"""
    if isinstance(n, ast.UnaryOp) and isinstance(n.op, ast.USub):
        return -number(n.operand, src)
    if isinstance(n, ast.UnaryOp) and isinstance(n.op, ast.UAdd):
        return number(n.operand, src)
    if isinstance(n, ast.Constant) and type(n.value) in (int, float):
        if type(n.value) is float and (n.value != n.value or n.value in (float("inf"), float("-inf"))):
            raise Bad(f"line {n.lineno}: non-finite constant")
        return Fraction(n.value)
    raise Bad(f"line {n.lineno}: expected a numeric literal, found: {seg(src, n)}")


def product(n, var, src, what):
    """<number> * var  ->  the number"""
    if not (isinstance(n, ast.BinOp) and isinstance(n.op, ast.Mult) and is_name(n.right, var)):
        raise Bad(f"line {n.lineno}: expected `{what}`, found: {seg(src, n)}")
    return number(n.left, src)


def term(n, atom, src, what):
    """atom  |  <number> * atom   ->  the factor (1 when absent); atom is a predicate on nodes"""
    if atom(n):
        return Fraction(1)
    if isinstance(n, ast.BinOp) and isinstance(n.op, ast.Mult) and atom(n.right):
        return number(n.left, src)
    raise Bad(f"line {n.lineno}: expected `{what}`, found: {seg(src, n)}")


def two_terms(n, atom_a, atom_b, src, what):
    """term_a + term_b | term_a - term_b  ->  (factor_a, factor_b) with the sign folded into factor_b"""
    if not (isinstance(n, ast.BinOp) and isinstance(n.op, (ast.Add, ast.Sub))):
        raise Bad(f"line {n.lineno}: expected `{what}`, found: {seg(src, n)}")
    ka = term(n.left, atom_a, src, what)
    kb = term(n.right, atom_b, src, what)
    return ka, (kb if isinstance(n.op, ast.Add) else -kb)


def is_assign_to(s, pred):
    return isinstance(s, ast.Assign) and len(s.targets) == 1 and pred(s.targets[0])


def is_augadd_to(s, pred):
    return isinstance(s, ast.AugAssign) and isinstance(s.op, ast.Add) and pred(s.target)


def compare(t, op, left, right):
    """left <op> right with predicates on both sides"""
    return (isinstance(t, ast.Compare) and len(t.ops) == 1 and isinstance(t.ops[0], op) and len(t.comparators) == 1
            and left(t.left) and right(t.comparators[0]))


def is_zero_float(n):
    return isinstance(n, ast.Constant) and type(n.value) in (int, float) and n.value == 0


def check_items_loop(s, src, d):
    """for (u, v), bias in <d>.items():   (no else)"""
    t = s.target if isinstance(s, ast.For) else None
    expect(isinstance(s, ast.For) and isinstance(t, ast.Tuple) and len(t.elts) == 2 and is_pair(t.elts[0], "u", "v")
           and is_name(t.elts[1], "bias") and is_method_call(s.iter, d, "items") and not s.orelse,
           s, src, f"for (u, v), bias in {d}.items():")


def check_signature(fn, params, src):
    a = fn.args
    ok = (not fn.decorator_list and not getattr(a, "posonlyargs", []) and not a.kwonlyargs and a.vararg is None
          and a.kwarg is None and [x.arg for x in a.args] == params and len(a.defaults) == 1
          and isinstance(a.defaults[0], ast.Constant) and type(a.defaults[0].value) in (int, float)
          and a.defaults[0].value == 0 and all(x.annotation is None for x in a.args) and fn.returns is None)
    if not ok:
        raise Bad(f"line {fn.lineno}: expected `def {fn.name}({', '.join(params[:-1])}, offset=0.0):` without decorators")


def body_after_docstring(fn):
    body = list(fn.body)
    if body and isinstance(body[0], ast.Expr) and isinstance(body[0].value, ast.Constant) \
            and isinstance(body[0].value.value, str):
        body = body[1:]
    return body


def n_statements(stmts, n, where, what):
    if len(stmts) != n:
        extra = f" (first unexpected statement at line {stmts[n].lineno})" if len(stmts) > n else ""
        raise Bad(f"line {where}: {what} must have exactly {n} statements, found {len(stmts)}{extra}")


# ---------------------------------------------------------------- ising_to_qubo

def diag_update(s, src, w):
    """q[(w, w)] = q.setdefault((w, w), <default>) - <k> * bias  ->  (default, k)"""
    what = f"q[({w}, {w})] = q.setdefault(({w}, {w}), 0) - <number> * bias"
    expect(is_assign_to(s, lambda t: is_sub_pair(t, "q", w, w)), s, src, what)
    v = s.value
    expect(isinstance(v, ast.BinOp) and isinstance(v.op, ast.Sub) and is_method_call(v.left, "q", "setdefault", 2)
           and is_pair(v.left.args[0], w, w), s, src, what)
    return number(v.left.args[1], src), product(v.right, "bias", src, what)


def ising_to_qubo(fn, src):
    check_signature(fn, ["h", "J", "offset"], src)
    body = body_after_docstring(fn)
    n_statements(body, 4, fn.lineno, "ising_to_qubo")
    c = {}
    # 1. q = {(v, v): <lin> * bias for v, bias in h.items()}
    s = body[0]
    what = "q = {(v, v): <number> * bias for v, bias in h.items()}"
    dc = s.value if isinstance(s, ast.Assign) else None
    expect(is_assign_to(s, lambda t: is_name(t, "q")) and isinstance(dc, ast.DictComp) and is_pair(dc.key, "v", "v")
           and len(dc.generators) == 1 and is_pair(dc.generators[0].target, "v", "bias")
           and is_method_call(dc.generators[0].iter, "h", "items") and not dc.generators[0].ifs
           and not dc.generators[0].is_async, s, src, what)
    put(c, "i2q_lin", product(dc.value, "bias", src, what), s)
    # 2. the loop over J
    loop = body[1]
    check_items_loop(loop, src, "J")
    lb = loop.body
    n_statements(lb, 4, loop.lineno, "the loop over J.items()")
    s = lb[0]
    expect(isinstance(s, ast.If) and not s.orelse and len(s.body) == 1 and isinstance(s.body[0], ast.Continue)
           and compare(s.test, ast.Eq, lambda n: is_name(n, "bias"), is_zero_float), s, src, "if bias == 0.0: continue")
    s = lb[1]
    what = "q[(u, v)] = <number> * bias"
    expect(is_assign_to(s, lambda t: is_sub_pair(t, "q", "u", "v")), s, src, what)
    put(c, "i2q_quad", product(s.value, "bias", src, what), s)
    for s, w in ((lb[2], "u"), (lb[3], "v")):
        dflt, k = diag_update(s, src, w)
        put(c, "i2q_default_" + w, dflt, s)
        put(c, "i2q_diag_" + w, k, s)
    # 3. offset += sum(J.values()) - sum(h.values())
    s = body[2]
    what = "offset += sum(J.values()) - sum(h.values())"
    expect(is_augadd_to(s, lambda t: is_name(t, "offset")), s, src, what)
    kj, kh = two_terms(s.value, lambda n: is_sum_values(n, "J"), lambda n: is_sum_values(n, "h"), src, what)
    put(c, "i2q_off_J", kj, s)
    put(c, "i2q_off_h", kh, s)
    # 4. return q, offset
    s = body[3]
    expect(isinstance(s, ast.Return) and is_pair(s.value, "q", "offset"), s, src, "return q, offset")
    return c


# ---------------------------------------------------------------- qubo_to_ising

def h_add(s, src, w):
    """if w in h: h[w] += <k> * bias
       else:      h[w] = <k> * bias          ->  k (the same in both branches)"""
    what = f"if {w} in h: h[{w}] += <number> * bias  else: h[{w}] = <number> * bias"
    expect(isinstance(s, ast.If) and compare(s.test, ast.In, lambda n: is_name(n, w), lambda n: is_name(n, "h"))
           and len(s.body) == 1 and len(s.orelse) == 1, s, src, what)
    a, b = s.body[0], s.orelse[0]
    expect(is_augadd_to(a, lambda t: is_sub_name(t, "h", w)), a, src, f"h[{w}] += <number> * bias")
    expect(is_assign_to(b, lambda t: is_sub_name(t, "h", w)), b, src, f"h[{w}] = <number> * bias")
    ka = product(a.value, "bias", src, f"h[{w}] += <number> * bias")
    kb = product(b.value, "bias", src, f"h[{w}] = <number> * bias")
    if ka != kb:
        raise Bad(f"line {s.lineno}: the two branches of `if {w} in h` use different factors ({ka} and {kb})")
    return ka


def offset_add(s, src, name):
    what = f"{name} += bias"
    expect(is_augadd_to(s, lambda t: is_name(t, name)), s, src, what)
    return term(s.value, lambda n: is_name(n, "bias"), src, what)


def qubo_to_ising(fn, src):
    check_signature(fn, ["Q", "offset"], src)
    body = body_after_docstring(fn)
    n_statements(body, 7, fn.lineno, "qubo_to_ising")
    c = {}
    for s, d in zip(body[0:2], ("h", "J")):
        expect(is_assign_to(s, lambda t: is_name(t, d)) and isinstance(s.value, ast.Dict) and not s.value.keys
               and not s.value.values, s, src, d + " = {}")
    for s, nm, key in zip(body[2:4], ("linear_offset", "quadratic_offset"), ("q2i_lin_off_init", "q2i_quad_off_init")):
        expect(is_assign_to(s, lambda t: is_name(t, nm)), s, src, nm + " = 0.0")
        put(c, key, number(s.value, src), s)
    loop = body[4]
    check_items_loop(loop, src, "Q")
    n_statements(loop.body, 1, loop.lineno, "the loop over Q.items()")
    s = loop.body[0]
    expect(isinstance(s, ast.If) and compare(s.test, ast.Eq, lambda n: is_name(n, "u"), lambda n: is_name(n, "v")),
           s, src, "if u == v:")
    # diagonal branch
    n_statements(s.body, 2, s.lineno, "the `u == v` branch")
    put(c, "q2i_diag_h", h_add(s.body[0], src, "u"), s.body[0])
    put(c, "q2i_diag_off", offset_add(s.body[1], src, "linear_offset"), s.body[1])
    # off-diagonal branch
    if not s.orelse:
        raise Bad(f"line {s.lineno}: `if u == v:` has no else branch")
    n_statements(s.orelse, 4, s.orelse[0].lineno, "the else branch of `if u == v`")
    g = s.orelse[0]
    what = "if bias != 0.0: J[(u, v)] = <number> * bias"
    expect(isinstance(g, ast.If) and not g.orelse and len(g.body) == 1
           and compare(g.test, ast.NotEq, lambda n: is_name(n, "bias"), is_zero_float)
           and is_assign_to(g.body[0], lambda t: is_sub_pair(t, "J", "u", "v")), g, src, what)
    put(c, "q2i_J", product(g.body[0].value, "bias", src, "J[(u, v)] = <number> * bias"), g.body[0])
    put(c, "q2i_hu", h_add(s.orelse[1], src, "u"), s.orelse[1])
    put(c, "q2i_hv", h_add(s.orelse[2], src, "v"), s.orelse[2])
    put(c, "q2i_quad_off", offset_add(s.orelse[3], src, "quadratic_offset"), s.orelse[3])
    # offset += .5 * linear_offset + .25 * quadratic_offset
    s = body[5]
    what = "offset += <number> * linear_offset + <number> * quadratic_offset"
    expect(is_augadd_to(s, lambda t: is_name(t, "offset")), s, src, what)
    kl, kq = two_terms(s.value, lambda n: is_name(n, "linear_offset"), lambda n: is_name(n, "quadratic_offset"), src, what)
    put(c, "q2i_final_lin", kl, s)
    put(c, "q2i_final_quad", kq, s)
    s = body[6]
    expect(isinstance(s, ast.Return) and isinstance(s.value, ast.Tuple) and len(s.value.elts) == 3
           and is_name(s.value.elts[0], "h") and is_name(s.value.elts[1], "J") and is_name(s.value.elts[2], "offset"),
           s, src, "return h, J, offset")
    return c


# ---------------------------------------------------------------- module level

def bound_names(s):
    """names a module-level statement binds (conservative: every Name in Store context, defs, classes, imports)"""
    out = []
    if isinstance(s, (ast.FunctionDef, ast.AsyncFunctionDef, ast.ClassDef)):
        return [s.name]
    if isinstance(s, (ast.Import, ast.ImportFrom)):
        return [(a.asname or a.name).split(".")[0] for a in s.names]
    for n in ast.walk(s):
        if isinstance(n, ast.Name) and isinstance(n.ctx, (ast.Store, ast.Del)):
            out.append(n.id)
        elif isinstance(n, (ast.FunctionDef, ast.AsyncFunctionDef, ast.ClassDef)):
            out.append(n.name)
        elif isinstance(n, (ast.Import, ast.ImportFrom)):
            out += [(a.asname or a.name).split(".")[0] for a in n.names]
            if any(a.name == "*" for a in n.names):
                out.append("*")
    return out


def the_function(tree, name):
    fns = [n for n in tree.body if isinstance(n, ast.FunctionDef) and n.name == name]
    if len(fns) != 1:
        raise Bad(f"module-level function {name} not found (or defined twice)")
    for s in tree.body:
        if s is fns[0]:
            continue
        b = bound_names(s)
        if name in b or "sum" in b or "*" in b:
            raise Bad(f"line {s.lineno}: the module rebinds `{name}` or `sum` outside the one definition")
    return fns[0]


def name_of(key, k):
    if k not in NAMES:
        raise Bad(f"line {LINES[key]}: factor {k} (gen_{key}) has no named Coq constant (the source changed)")
    return NAMES[k]


ORDER = [
    ("ising_to_qubo (h, J, offset)", [
        ("i2q_lin", "q = {(v, v): <this> * bias for v, bias in h.items()}"),
        ("i2q_quad", "q[(u, v)] = <this> * bias"),
        ("i2q_default_u", "q[(u, u)] = q.setdefault((u, u), <this>) - ..."),
        ("i2q_diag_u", "q[(u, u)] = q.setdefault((u, u), _) - <this> * bias"),
        ("i2q_default_v", "q[(v, v)] = q.setdefault((v, v), <this>) - ..."),
        ("i2q_diag_v", "q[(v, v)] = q.setdefault((v, v), _) - <this> * bias"),
        ("i2q_off_J", "offset += <this> * sum(J.values()) + _ * sum(h.values())"),
        ("i2q_off_h", "offset += _ * sum(J.values()) + <this> * sum(h.values())      (a `-` is folded in)")]),
    ("qubo_to_ising (Q, offset)", [
        ("q2i_lin_off_init", "linear_offset = <this>"),
        ("q2i_quad_off_init", "quadratic_offset = <this>"),
        ("q2i_diag_h", "u == v:  if u in h: h[u] += <this> * bias  else: h[u] = <this> * bias"),
        ("q2i_diag_off", "u == v:  linear_offset += <this> * bias"),
        ("q2i_J", "u != v:  if bias != 0.0: J[(u, v)] = <this> * bias"),
        ("q2i_hu", "u != v:  if u in h: h[u] += <this> * bias  else: h[u] = <this> * bias"),
        ("q2i_hv", "u != v:  if v in h: h[v] += <this> * bias  else: h[v] = <this> * bias"),
        ("q2i_quad_off", "u != v:  quadratic_offset += <this> * bias"),
        ("q2i_final_lin", "offset += <this> * linear_offset + _ * quadratic_offset"),
        ("q2i_final_quad", "offset += _ * linear_offset + <this> * quadratic_offset   (a `-` is folded in)")]),
]


def main():
    build, out = sys.argv[1], sys.argv[2]
    path = os.path.join(build, "dimod", "utilities.py")
    src = open(path).read()
    print("INPUT %s %s" % (path, hashlib.sha256(src.encode()).hexdigest()))
    tree = ast.parse(src)
    c = {}
    c.update(ising_to_qubo(the_function(tree, "ising_to_qubo"), src))
    c.update(qubo_to_ising(the_function(tree, "qubo_to_ising"), src))

    lines = ["(* GENERATED by translators/ising_qubo_constants.py from dimod/utilities.py - do not edit *)",
             "From Coq Require Import QArith Qcanon.", "From Dimod Require Import Base.Util Model.Poly.",
             "Open Scope Qc_scope.", "",
             "Definition gq_four : Qc := two * two.", "Definition gq_quarter : Qc := half * half.", ""]
    seen = set()
    for title, items in ORDER:
        lines.append("(* %s *)" % title)
        for key, comment in items:
            lines.append("Definition gen_%s : Qc := %s.   (* %s *)" % (key, name_of(key, c[key]), comment))
            seen.add(key)
        lines.append("")
    if seen != set(c):
        raise Bad("internal: extracted and emitted constants differ: %s" % sorted(seen ^ set(c)))
    os.makedirs(out, exist_ok=True)
    p = os.path.join(out, "Gen_IsingQubo.v")
    new = "\n".join(lines)
    if not os.path.exists(p) or open(p).read() != new:
        open(p, "w").write(new)


if __name__ == "__main__":
    try:
        main()
    except Bad as e:
        print("ising_qubo_constants.py: " + str(e))
        sys.exit(1)
