#!/venv/bin/python
"""Fail-closed translator: dimod/sampleset.py (as_samples and its handlers) -> coq/theories/Gen/Gen_AsSamples.v

Reads, with Python's ast, the samples_like normalisation of dimod/sampleset.py:

  _sample_array, as_samples (the functools.singledispatch default), _as_samples_iterator,
  _as_samples_dict, _as_samples_tuple, _as_samples_sampleset

and checks

 (i)   the registrations `@as_samples.register(T)` found ANYWHERE in the module are exactly
       abc.Iterator -> _as_samples_iterator, abc.Mapping -> _as_samples_dict, tuple -> _as_samples_tuple,
       SampleSet -> _as_samples_sampleset (no `as_samples.register(...)` call elsewhere), and `as_samples` itself is
       decorated with functools.singledispatch only;
 (ii)  the default body (after the docstring) is
           if isinstance(samples_like, abc.Sequence) and any(isinstance(s, abc.Mapping) for s in samples_like):
               return as_samples(iter(samples_like), dtype=dtype, copy=copy, order=order, labels_type=labels_type)
           arr = _sample_array(samples_like, dtype=dtype, copy=copy, order=order)
           return arr, labels_type(range(arr.shape[1]))
 (iii) in _as_samples_iterator the loop body is `if labels != first_labels:` / `if set(labels) ^ first_set: raise ValueError`
       / `reindex = [labels.index(v) for v in first_labels]` / `samples = samples[:, reindex]`
       (the direction of the re-index is EXTRACTED: positions looked up in the later element's labels for each first
       label = FromLaterLabels; the inverse permutation `[first_labels.index(v) for v in labels]` is rejected);
 (iv)  in _as_samples_tuple the order of the branches: length-2 unpacking; the Mapping branch building
       `d[v] = array_like[v] for v in labels` (KeyError -> ValueError) and calling `as_samples(d)` (the argument is
       EXTRACTED: `as_samples(array_like)` is rejected); the Iterator TypeError; _sample_array; labels_type; the
       empty-array reshape; the final length check;
 (v)   every other statement of the six functions, their argument names and defaults (templates below, compared as
       ast dumps statement by statement).

Anything else is an error naming the source line.  Model/AsSamples.v uses the emitted constants.

usage: as_samples_dispatch.py <build_dir> <out_dir>
"""
import ast
import hashlib
import os
import sys
import textwrap


class Bad(Exception):
    pass


def seg(src, n):
    text = ast.get_source_segment(src, n) or ""
    lines = text.splitlines()
    return (lines[0] + " ...") if len(lines) > 1 else text


def strip_doc(body):
    return [s for s in body if not (isinstance(s, ast.Expr) and isinstance(s.value, ast.Constant)
                                    and isinstance(s.value.value, str))]


def dump(n):
    return ast.dump(n, annotate_fields=True, include_attributes=False)


def U(text):
    """normal form (ast.unparse) of a statement / expression given as text"""
    return ast.unparse(ast.parse(textwrap.dedent(text)).body[0])


def parse_body(text):
    return ast.parse(textwrap.dedent(text)).body


# (decorators, positional args, positional defaults, kwonly args, kwonly defaults, **kwarg, body)
STD_ARGS = ["samples_like", "dtype", "copy", "order", "labels_type"]
STD_DEFAULTS = ["None", "False", "'C'", "list"]

TEMPLATES = {
    "_sample_array": ([], ["array_like"], [], ["dtype", "copy"], ["None", "False"], "kwargs", """
        if dtype is None:
            dtype = getattr(array_like, 'dtype', None)
        if copy:
            arr = np.array(array_like, dtype=dtype, copy=True, **kwargs)
        else:
            arr = np.asarray(array_like, dtype=dtype, **kwargs)
        if arr.ndim < 2:
            if arr.size:
                arr = np.atleast_2d(arr)
            else:
                arr = arr.reshape((0, 0))
        elif arr.ndim > 2:
            raise ValueError("expected samples_like to be <= 2 dimensions")
        if dtype is None and np.issubdtype(arr.dtype, np.integer):
            max_ = max(-arr.min(initial=0), +arr.max(initial=0))
            try:
                dtype = next(tp for tp in (np.int8, np.int16, np.int32, np.int64)
                             if max_ <= np.iinfo(tp).max)
            except StopIteration:
                raise ValueError('`samples like contains entries that do not fit in np.int64')
            arr = np.asarray(arr, dtype=dtype)
        return arr
    """),
    "as_samples": (["functools.singledispatch"], STD_ARGS, STD_DEFAULTS, [], [], None, """
        if isinstance(samples_like, abc.Sequence) and any(isinstance(s, abc.Mapping) for s in samples_like):
            return as_samples(iter(samples_like),
                              dtype=dtype, copy=copy, order=order,
                              labels_type=labels_type)
        arr = _sample_array(samples_like, dtype=dtype, copy=copy, order=order)
        return arr, labels_type(range(arr.shape[1]))
    """),
    "_as_samples_iterator": (["as_samples.register(abc.Iterator)"], ["samples_like", "labels_type"], ["list"], [], [],
                             "kwargs", """
        stack = (as_samples(sl, **kwargs) for sl in samples_like)
        try:
            first_samples, first_labels = next(stack)
        except StopIteration:
            return np.empty((0, 0), dtype=np.int8), []
        samples_stack = [first_samples]
        first_set = set(first_labels)
        for samples, labels in stack:
            if labels != first_labels:
                if set(labels) ^ first_set:
                    raise ValueError
                reindex = [labels.index(v) for v in first_labels]
                samples = samples[:, reindex]
            samples_stack.append(samples)
        if not isinstance(first_labels, labels_type):
            first_labels = labels_type(first_labels)
        return np.vstack(samples_stack), first_labels
    """),
    "_as_samples_dict": (["as_samples.register(abc.Mapping)"], STD_ARGS, STD_DEFAULTS, [], [], None, """
        if samples_like:
            labels, samples = zip(*samples_like.items())
            return as_samples((samples, labels), dtype=dtype, copy=copy, order=order,
                              labels_type=labels_type)
        else:
            return np.empty((1, 0), dtype=dtype, order=order), labels_type()
    """),
    "_as_samples_tuple": (["as_samples.register(tuple)"], STD_ARGS, STD_DEFAULTS, [], [], None, """
        try:
            array_like, labels = samples_like
        except ValueError:
            raise ValueError("if a tuple is provided, it must be length 2") from None
        if isinstance(array_like, abc.Mapping):
            warnings.warn("support for (dict, labels) as a samples-like is deprecated "
                          "since dimod 0.10.13 and will be removed in 0.12.0",
                          DeprecationWarning, stacklevel=3)
            d = dict()
            try:
                for v in labels:
                    d[v] = array_like[v]
            except KeyError:
                raise ValueError("inconsistent labels")
            array_like, _ = as_samples(d)
        if isinstance(array_like, abc.Iterator):
            raise TypeError('samples_like cannot be an iterator when given as a tuple')
        arr = _sample_array(array_like, dtype=dtype, copy=copy, order=order)
        if not isinstance(labels, labels_type):
            labels = labels_type(labels)
        if not arr.size:
            arr.shape = (arr.shape[0], len(labels))
        if len(labels) != arr.shape[1]:
            raise ValueError("samples_like and labels dimensions do not match")
        return arr, labels
    """),
    "_as_samples_sampleset": (["as_samples.register(SampleSet)"], STD_ARGS, STD_DEFAULTS, [], [], None, """
        labels = labels_type(samples_like.variables)
        if dtype is None:
            arr = np.copy(samples_like.record.sample) if copy else samples_like.record.sample
            return arr, labels
        else:
            return samples_like.record.sample.astype(dtype, copy=copy), labels
    """),
}

# registered type -> (handler, Coq constructor)
REGISTERED = {"abc.Iterator": ("_as_samples_iterator", "BIterator"),
              "abc.Mapping": ("_as_samples_dict", "BMapping"),
              "tuple": ("_as_samples_tuple", "BTuple"),
              "SampleSet": ("_as_samples_sampleset", "BSampleSet")}


def check_signature(fn, key):
    decos, args, defaults, kwonly, kwdefaults, kwarg, _ = TEMPLATES[key]
    got = [ast.unparse(d) for d in fn.decorator_list]
    if got != decos:
        raise Bad(f"line {fn.lineno}: {key} is expected to be decorated with {decos or 'nothing'}, found {got}")
    a = fn.args
    names = [x.arg for x in a.args]
    if names != args or a.vararg or getattr(a, "posonlyargs", []):
        raise Bad(f"line {fn.lineno}: {key} is expected to take the arguments {args}, found {names}")
    got_defaults = [ast.unparse(x) for x in a.defaults]
    if got_defaults != defaults:
        raise Bad(f"line {fn.lineno}: {key} is expected to have the argument defaults {defaults}, found {got_defaults}")
    got_kwonly = [x.arg for x in a.kwonlyargs]
    got_kwdefaults = [ast.unparse(x) if x is not None else None for x in a.kw_defaults]
    if got_kwonly != kwonly or got_kwdefaults != kwdefaults:
        raise Bad(f"line {fn.lineno}: {key} is expected to take the keyword-only arguments {kwonly} = {kwdefaults}, "
                  f"found {got_kwonly} = {got_kwdefaults}")
    got_kwarg = a.kwarg.arg if a.kwarg else None
    if got_kwarg != kwarg:
        raise Bad(f"line {fn.lineno}: {key} is expected to take **{kwarg}, found **{got_kwarg}")


def same_stmts(got, want, where_line, what, src):
    """statement-by-statement comparison of two bodies (descending into compound statements for the message)"""
    for g, w in zip(got, want):
        if dump(g) != dump(w):
            # descend into compound statements for a precise line number
            if type(g) is type(w):
                for field in ("body", "orelse", "finalbody"):
                    gs, ws = getattr(g, field, None), getattr(w, field, None)
                    if isinstance(gs, list) and isinstance(ws, list) and gs and ws \
                            and all(isinstance(x, ast.stmt) for x in gs + ws):
                        same_stmts(gs, ws, g.lineno, what, src)
            raise Bad(f"line {g.lineno}: {what}: expected `{ast.unparse(w).splitlines()[0]}`, found: {seg(src, g)}")
    if len(got) != len(want):
        line = got[len(want)].lineno if len(got) > len(want) else where_line
        raise Bad(f"line {line}: {what}: expected exactly {len(want)} statements, found {len(got)}")


def check_template(fn, key, src):
    check_signature(fn, key)
    same_stmts(strip_doc(fn.body), parse_body(TEMPLATES[key][6]), fn.lineno, key, src)


# ----------------------------------------------------------------------------------------------
# extraction of the behaviour-carrying constants
# ----------------------------------------------------------------------------------------------
def registrations(tree, src):
    """all uses of as_samples.register in the module: must be decorators of top-level functions"""
    found = {}
    deco_nodes = set()
    for n in tree.body:
        if isinstance(n, ast.FunctionDef):
            for d in n.decorator_list:
                if (isinstance(d, ast.Call) and isinstance(d.func, ast.Attribute) and d.func.attr == "register"
                        and isinstance(d.func.value, ast.Name) and d.func.value.id == "as_samples"):
                    if len(d.args) != 1 or d.keywords:
                        raise Bad(f"line {d.lineno}: as_samples.register is expected to take one type, found: {seg(src, d)}")
                    t = ast.unparse(d.args[0])
                    if t in found:
                        raise Bad(f"line {d.lineno}: {t} is registered twice")
                    found[t] = (n.name, n)
                    for sub in ast.walk(d):
                        deco_nodes.add(id(sub))
    # no other mention of as_samples.register / .dispatch / .registry anywhere
    for n in ast.walk(tree):
        if (isinstance(n, ast.Attribute) and isinstance(n.value, ast.Name) and n.value.id == "as_samples"
                and id(n) not in deco_nodes):
            raise Bad(f"line {n.lineno}: unexpected use of as_samples.{n.attr} outside a top-level decorator")
    # as_samples must not be rebound
    for n in ast.walk(tree):
        if isinstance(n, (ast.Assign, ast.AugAssign, ast.AnnAssign)):
            targets = n.targets if isinstance(n, ast.Assign) else [n.target]
            for t in targets:
                for sub in ast.walk(t):
                    if isinstance(sub, ast.Name) and sub.id in ("as_samples", "_sample_array"):
                        raise Bad(f"line {n.lineno}: {sub.id} is re-bound")
    want = {t: h for t, (h, _) in REGISTERED.items()}
    got = {t: h for t, (h, _) in found.items()}
    if got != want:
        extra = sorted(set(got) - set(want))
        missing = sorted(set(want) - set(got))
        wrong = sorted(t for t in set(got) & set(want) if got[t] != want[t])
        line = found[extra[0]][1].lineno if extra else (found[wrong[0]][1].lineno if wrong else 0)
        raise Bad(f"line {line}: the registrations of as_samples are expected to be exactly {want}; "
                  f"unexpected {extra}, missing {missing}, differently named {wrong}")
    return found


def find_iterator_loop(fn, src):
    loops = [s for s in fn.body if isinstance(s, ast.For)]
    if len(loops) != 1:
        raise Bad(f"line {fn.lineno}: _as_samples_iterator is expected to contain exactly one top-level for loop")
    loop = loops[0]
    if ast.unparse(loop.target) != U("(samples, labels)") or ast.unparse(loop.iter) != "stack" or loop.orelse:
        raise Bad(f"line {loop.lineno}: expected `for samples, labels in stack:`, found: {seg(src, loop)}")
    if len(loop.body) != 2 or not isinstance(loop.body[0], ast.If):
        raise Bad(f"line {loop.lineno}: the loop body is expected to be `if labels != first_labels: ...` followed by "
                  f"`samples_stack.append(samples)`")
    outer = loop.body[0]
    if ast.unparse(outer.test) != U("labels != first_labels") or outer.orelse:
        raise Bad(f"line {outer.lineno}: expected `if labels != first_labels:` (list comparison BEFORE the set "
                  f"comparison), found: {seg(src, outer)}")
    if len(outer.body) != 3:
        raise Bad(f"line {outer.lineno}: expected exactly 3 statements under `if labels != first_labels:`, "
                  f"found {len(outer.body)}")
    chk, assign, take = outer.body
    if not (isinstance(chk, ast.If) and ast.unparse(chk.test) == U("set(labels) ^ first_set") and not chk.orelse
            and len(chk.body) == 1 and isinstance(chk.body[0], ast.Raise)
            and ast.unparse(chk.body[0]) == "raise ValueError"):
        raise Bad(f"line {chk.lineno}: expected `if set(labels) ^ first_set: raise ValueError`, found: {seg(src, chk)}")
    # reindex = [<src>.index(v) for v in <over>]
    ok = (isinstance(assign, ast.Assign) and len(assign.targets) == 1 and ast.unparse(assign.targets[0]) == "reindex"
          and isinstance(assign.value, ast.ListComp) and len(assign.value.generators) == 1)
    if ok:
        g = assign.value.generators[0]
        e = assign.value.elt
        ok = (not g.ifs and not g.is_async and isinstance(g.target, ast.Name) and isinstance(g.iter, ast.Name)
              and isinstance(e, ast.Call) and isinstance(e.func, ast.Attribute) and e.func.attr == "index"
              and isinstance(e.func.value, ast.Name) and len(e.args) == 1 and not e.keywords
              and isinstance(e.args[0], ast.Name) and e.args[0].id == g.target.id)
    if not ok:
        raise Bad(f"line {assign.lineno}: expected `reindex = [labels.index(v) for v in first_labels]`, "
                  f"found: {seg(src, assign)}")
    looked_in, over = e.func.value.id, g.iter.id
    if (looked_in, over) == ("labels", "first_labels"):
        direction = "FromLaterLabels"
    elif (looked_in, over) == ("first_labels", "labels"):
        direction = "FromFirstLabels"
    else:
        raise Bad(f"line {assign.lineno}: reindex is expected to be built from labels / first_labels, "
                  f"found: {seg(src, assign)}")
    if ast.unparse(take) != U("samples = samples[:, reindex]"):
        raise Bad(f"line {take.lineno}: expected `samples = samples[:, reindex]`, found: {seg(src, take)}")
    if direction != "FromLaterLabels":
        raise Bad(f"line {assign.lineno}: the re-index must look up each FIRST label in the LATER element's labels "
                  f"(`[labels.index(v) for v in first_labels]`); found the inverse permutation: {seg(src, assign)}")
    return direction


TUPLE_STEPS = ["TUnpack2", "TMappingCopy", "TIteratorTypeError", "TSampleArray", "TLabelsType", "TEmptyReshape",
               "TLenCheck", "TReturn"]


def classify_tuple_stmt(s, src):
    if isinstance(s, ast.Try) and len(s.body) == 1 and ast.unparse(s.body[0]) == U("array_like, labels = samples_like"):
        return "TUnpack2"
    if isinstance(s, ast.If):
        t = ast.unparse(s.test)
        if t == "isinstance(array_like, abc.Mapping)":
            return "TMappingCopy"
        if t == "isinstance(array_like, abc.Iterator)":
            return "TIteratorTypeError"
        if t == "not isinstance(labels, labels_type)":
            return "TLabelsType"
        if t == "not arr.size":
            return "TEmptyReshape"
        if t == "len(labels) != arr.shape[1]":
            return "TLenCheck"
    if isinstance(s, ast.Assign) and ast.unparse(s.targets[0]) == "arr" and ast.unparse(s.value).startswith("_sample_array("):
        return "TSampleArray"
    if isinstance(s, ast.Return):
        return "TReturn"
    raise Bad(f"line {s.lineno}: _as_samples_tuple: unexpected statement: {seg(src, s)}")


def read_tuple(fn, src):
    body = strip_doc(fn.body)
    steps = [classify_tuple_stmt(s, src) for s in body]
    if steps != TUPLE_STEPS:
        for s, got, want in zip(body, steps, TUPLE_STEPS):
            if got != want:
                raise Bad(f"line {s.lineno}: _as_samples_tuple: expected the step {want} here, found {got}: {seg(src, s)}")
        raise Bad(f"line {fn.lineno}: _as_samples_tuple: expected the steps {TUPLE_STEPS}, found {steps}")
    mapping = body[1]
    # the last statement of the Mapping branch: array_like, _ = as_samples(<arg>)
    last = mapping.body[-1]
    ok = (isinstance(last, ast.Assign) and len(last.targets) == 1 and ast.unparse(last.targets[0]) == U("(array_like, _)")
          and isinstance(last.value, ast.Call) and isinstance(last.value.func, ast.Name)
          and last.value.func.id == "as_samples" and len(last.value.args) == 1 and not last.value.keywords
          and isinstance(last.value.args[0], ast.Name))
    if not ok:
        raise Bad(f"line {last.lineno}: expected `array_like, _ = as_samples(d)`, found: {seg(src, last)}")
    arg = last.value.args[0].id
    # the copy loop
    tries = [s for s in mapping.body if isinstance(s, ast.Try)]
    if len(tries) != 1 or len(tries[0].body) != 1 or not isinstance(tries[0].body[0], ast.For):
        raise Bad(f"line {mapping.lineno}: expected one `try: for v in labels: d[v] = array_like[v]` in the Mapping branch")
    loop = tries[0].body[0]
    if (ast.unparse(loop.target), ast.unparse(loop.iter)) != ("v", "labels") or len(loop.body) != 1 \
            or ast.unparse(loop.body[0]) != U("d[v] = array_like[v]"):
        raise Bad(f"line {loop.lineno}: expected `for v in labels: d[v] = array_like[v]`, found: {seg(src, loop)}")
    h = tries[0].handlers
    if len(h) != 1 or ast.unparse(h[0].type) != "KeyError" or len(h[0].body) != 1 \
            or not ast.unparse(h[0].body[0]).startswith("raise ValueError("):
        raise Bad(f"line {tries[0].lineno}: expected `except KeyError: raise ValueError(...)`")
    if arg == "d":
        uses_copy = True
    elif arg == "array_like":
        uses_copy = False
    else:
        raise Bad(f"line {last.lineno}: as_samples is expected to be applied to the re-ordered copy `d`, "
                  f"found: {seg(src, last)}")
    if not uses_copy:
        raise Bad(f"line {last.lineno}: the deprecated (mapping, labels) form must convert the copy `d` made in the "
                  f"order of `labels` (`as_samples(d)`), found: {seg(src, last)}")
    return uses_copy, steps


def read_default(fn, src):
    body = strip_doc(fn.body)
    if len(body) != 3 or not isinstance(body[0], ast.If):
        raise Bad(f"line {fn.lineno}: as_samples: expected `if <mixed sequence>: return as_samples(iter(...))`, "
                  f"`arr = _sample_array(...)`, `return arr, labels_type(range(arr.shape[1]))`")
    t = ast.unparse(body[0].test)
    if t != U("isinstance(samples_like, abc.Sequence) and any(isinstance(s, abc.Mapping) for s in samples_like)"):
        raise Bad(f"line {body[0].lineno}: as_samples: expected the test `isinstance(samples_like, abc.Sequence) and "
                  f"any(isinstance(s, abc.Mapping) for s in samples_like)`, found: {seg(src, body[0].test)}")
    ret = body[0].body
    if body[0].orelse or len(ret) != 1 or not isinstance(ret[0], ast.Return) \
            or not ast.unparse(ret[0].value).startswith("as_samples(iter(samples_like), "):
        raise Bad(f"line {body[0].lineno}: as_samples: a mixed sequence must be re-dispatched as iter(samples_like)")
    if ast.unparse(body[2]) != U("return arr, labels_type(range(arr.shape[1]))"):
        raise Bad(f"line {body[2].lineno}: as_samples: expected `return arr, labels_type(range(arr.shape[1]))`, "
                  f"found: {seg(src, body[2])}")
    return True


def main():
    build, out = sys.argv[1], sys.argv[2]
    path = os.path.join(build, "dimod", "sampleset.py")
    src = open(path).read()
    print("INPUT %s %s" % (path, hashlib.sha256(src.encode()).hexdigest()))
    tree = ast.parse(src)

    fns = {}
    for n in ast.walk(tree):
        if isinstance(n, (ast.FunctionDef, ast.AsyncFunctionDef, ast.ClassDef)) and n.name in TEMPLATES:
            if n.name in fns:
                raise Bad(f"line {n.lineno}: {n.name} is defined twice")
            if n not in tree.body or not isinstance(n, ast.FunctionDef):
                raise Bad(f"line {n.lineno}: {n.name} is expected to be a top-level function")
            fns[n.name] = n
    for need in TEMPLATES:
        if need not in fns:
            raise Bad(f"function {need} not found")

    found = registrations(tree, src)
    mixed_to_iter = read_default(fns["as_samples"], src)
    direction = find_iterator_loop(fns["_as_samples_iterator"], src)
    uses_copy, steps = read_tuple(fns["_as_samples_tuple"], src)
    for key in TEMPLATES:
        check_template(fns[key], key, src)

    order = sorted(found, key=lambda t: found[t][1].lineno)
    lines = ["(* GENERATED by translators/as_samples_dispatch.py from dimod/sampleset.py - do not edit *)",
             "From Coq Require Import List Bool.",
             "Import ListNotations.", "",
             "(* the handlers of the functools.singledispatch function as_samples; BDefault = the undecorated body *)",
             "Inductive as_branch := BIterator | BMapping | BTuple | BSampleSet | BDefault.", "",
             "(* @as_samples.register(T), in source order: %s *)" % ", ".join(
                 "%s -> %s" % (t, found[t][0]) for t in order),
             "Definition gen_registered : list as_branch := [%s]." % "; ".join(REGISTERED[t][1] for t in order), "",
             "(* default body: `isinstance(samples_like, abc.Sequence) and any(isinstance(s, abc.Mapping) for s in",
             "   samples_like)` -> as_samples(iter(samples_like), ...) *)",
             "Definition gen_mixed_sequence_to_iterator : bool := %s." % ("true" if mixed_to_iter else "false"), "",
             "(* _as_samples_iterator: `reindex = [labels.index(v) for v in first_labels]`:",
             "   FromLaterLabels = each FIRST label is looked up in the LATER element's labels *)",
             "Inductive reindex_dir := FromLaterLabels | FromFirstLabels.",
             "Definition gen_reindex_source : reindex_dir := %s." % direction, "",
             "(* _as_samples_tuple, deprecated (mapping, labels) form: `array_like, _ = as_samples(d)` where d is the copy",
             "   built in the order of `labels` *)",
             "Definition gen_mapping_labels_uses_copy : bool := %s." % ("true" if uses_copy else "false"), "",
             "(* _as_samples_tuple: the order of the steps *)",
             "Inductive tuple_step := TUnpack2 | TMappingCopy | TIteratorTypeError | TSampleArray | TLabelsType",
             "                      | TEmptyReshape | TLenCheck | TReturn.",
             "Definition gen_tuple_steps : list tuple_step := [%s]." % "; ".join(steps), ""]
    os.makedirs(out, exist_ok=True)
    p = os.path.join(out, "Gen_AsSamples.v")
    new = "\n".join(lines)
    if not os.path.exists(p) or open(p).read() != new:
        open(p, "w").write(new)


if __name__ == "__main__":
    try:
        main()
    except Bad as e:
        print("as_samples_dispatch.py: " + str(e))
        sys.exit(1)
