#!/venv/bin/python
"""Fail-closed translator -> coq/theories/Gen/Gen_Penalty.v

Sources and what is extracted:
  dimod/binary/cybqm/cybqm_template.pyx.pxi   add_linear_equality_constraint: offset, BINARY / SPIN linear,
                                               SPIN offset and the i<j quadratic coefficient (regex on the
                                               Cython text, expressions parsed with ast)
  dimod/discrete/cydiscrete_quadratic_model.pyx  the same three coefficients of the DQM version
  dimod/binary/binary_quadratic_model.py      the pure-Python fallback of add_linear_equality_constraint (ast):
                                               diagonal (i == j), same-variable (u == v) and interaction branches
                                               per vartype; add_linear_inequality_constraint (ast): the bound
                                               tightening, the skip / refuse tests, the slack coefficients, the
                                               cross_zero bit and the 'unbalanced' terms
Every statement must have the expected shape and every expression must stay inside a small grammar
(names, + - * unary -, 2 ** x, min, max, int(.), comparisons, the literal int(np.floor(np.log2(x))));
anything else is an error naming the place, which the driver reports as a broken tie.

usage: penalty_formulas.py <build_dir> <out_dir>
"""
import ast
import hashlib
import os
import re
import sys


class Bad(Exception):
    pass


def nospace(s):
    return "".join(s.split())


# ----------------------------------------------------------------------------
# expressions
# ----------------------------------------------------------------------------

def trq(n, names, where):
    """rational (Qc) expression"""
    if isinstance(n, ast.Name) and n.id in names:
        return names[n.id]
    if isinstance(n, ast.Subscript) and nospace(ast.unparse(n)) in names:
        return names[nospace(ast.unparse(n))]
    if isinstance(n, ast.Constant) and isinstance(n.value, int) and not isinstance(n.value, bool):
        if n.value in (0, 1):
            return str(n.value)
        if n.value == 2:
            return "two"
        raise Bad(f"{where}: constant {n.value} outside the grammar")
    if isinstance(n, ast.UnaryOp) and isinstance(n.op, ast.USub):
        return f"(- {trq(n.operand, names, where)})"
    if isinstance(n, ast.BinOp) and isinstance(n.op, (ast.Add, ast.Sub, ast.Mult)):
        op = {ast.Add: "+", ast.Sub: "-", ast.Mult: "*"}[type(n.op)]
        return f"({trq(n.left, names, where)} {op} {trq(n.right, names, where)})"
    raise Bad(f"{where}: expression outside the grammar: {ast.unparse(n)}")


def trz(n, names, where):
    """integer (Z) expression"""
    if isinstance(n, ast.Name) and n.id in names:
        return names[n.id]
    if isinstance(n, ast.Constant) and isinstance(n.value, int) and not isinstance(n.value, bool):
        return str(n.value) if n.value >= 0 else f"({n.value})"
    if isinstance(n, ast.UnaryOp) and isinstance(n.op, ast.USub):
        return f"(- {trz(n.operand, names, where)})"
    if isinstance(n, ast.BinOp) and isinstance(n.op, (ast.Add, ast.Sub, ast.Mult)):
        op = {ast.Add: "+", ast.Sub: "-", ast.Mult: "*"}[type(n.op)]
        return f"({trz(n.left, names, where)} {op} {trz(n.right, names, where)})"
    if isinstance(n, ast.BinOp) and isinstance(n.op, ast.Pow) and isinstance(n.left, ast.Constant) and n.left.value == 2:
        return f"(2 ^ {trz(n.right, names, where)})"
    if isinstance(n, ast.Call) and isinstance(n.func, ast.Name) and not n.keywords:
        if n.func.id in ("min", "max") and len(n.args) == 2:
            return f"(Z.{n.func.id} {trz(n.args[0], names, where)} {trz(n.args[1], names, where)})"
        if n.func.id == "int" and len(n.args) == 1:
            if nospace(ast.unparse(n.args[0])).startswith("np.floor(np.log2(") and nospace(ast.unparse(n.args[0])).endswith("))"):
                inner = n.args[0].args[0].args[0]
                return f"(Z.log2 {trz(inner, names, where)})"
            return trz(n.args[0], names, where)
    raise Bad(f"{where}: integer expression outside the grammar: {ast.unparse(n)}")


def trb(n, names, where):
    """boolean test over integers"""
    if isinstance(n, ast.BoolOp):
        op = "&&" if isinstance(n.op, ast.And) else "||"
        return "(" + f" {op} ".join(trb(v, names, where) for v in n.values) + ")"
    if isinstance(n, ast.Compare) and len(n.ops) == 1:
        a, b = trz(n.left, names, where), trz(n.comparators[0], names, where)
        o = n.ops[0]
        if isinstance(o, ast.LtE):
            return f"({a} <=? {b})"
        if isinstance(o, ast.Lt):
            return f"({a} <? {b})"
        if isinstance(o, ast.GtE):
            return f"({b} <=? {a})"
        if isinstance(o, ast.Gt):
            return f"({b} <? {a})"
        if isinstance(o, ast.Eq):
            return f"({a} =? {b})"
    raise Bad(f"{where}: test outside the grammar: {ast.unparse(n)}")


def expr_of(text, where):
    try:
        return ast.parse(text.strip(), mode="eval").body
    except SyntaxError:
        raise Bad(f"{where}: cannot parse `{text.strip()}`")


# ----------------------------------------------------------------------------
# Cython sources (textual)
# ----------------------------------------------------------------------------

def cy_function(src, name, where):
    m = re.search(r"\n    def " + name + r"\(.*?(?=\n    (?:def|cpdef|cdef|@)\b)", src, re.S)
    if not m:
        raise Bad(f"{where}: {name} not found")
    body = re.sub(r"#.*", "", m.group(0))
    return " ".join(body.split())


def one(pattern, text, where, what):
    ms = re.findall(pattern, text)
    if len(ms) != 1:
        raise Bad(f"{where}: expected exactly one {what}, found {len(ms)}")
    return ms[0]


CY_NAMES = {"lagrange_multiplier": "lam", "constant": "c", "biases[i]": "a", "biases[j]": "b"}
DQ_NAMES = {"lagrange_multiplier": "lam", "constant": "c", "u_bias": "a", "v_bias": "b"}


def cy_bqm(src):
    w = "cybqm_template.pyx.pxi"
    f = cy_function(src, "add_linear_equality_constraint", w)
    m = re.search(r"^(.*?) if self\.cppbqm\.vartype\(\) == cppVartype\.BINARY: (.*?) elif self\.cppbqm\.vartype\(\) == cppVartype\.SPIN: (.*?) else: "
                  r"raise RuntimeError\(\"unexpected vartype\"\) (.*)$", f)
    if not m:
        raise Bad(f"{w}: the BINARY / SPIN / else-raise structure of add_linear_equality_constraint changed")
    head, binary, spin, tail = m.groups()
    out = {}
    out["cy_offset"] = one(r"self\.cppbqm\.add_offset\((.*?)\) ", head + " ", w, "add_offset before the vartype test")
    if nospace(binary) != nospace("for i in range(num_terms): self.cppbqm.add_linear( variables[i], X)".replace(
            "X", one(r"self\.cppbqm\.add_linear\( ?variables\[i\], (.*)\)$", binary, w, "BINARY add_linear"))):
        raise Bad(f"{w}: unexpected statements in the BINARY branch")
    out["cy_lin_binary"] = one(r"self\.cppbqm\.add_linear\( ?variables\[i\], (.*)\)$", binary, w, "BINARY add_linear")
    sm = re.match(r"^for i in range\(num_terms\): self\.cppbqm\.add_linear\( ?variables\[i\], (.*?)\) self\.cppbqm\.add_offset\((.*)\)$", spin)
    if not sm:
        raise Bad(f"{w}: unexpected statements in the SPIN branch")
    out["cy_lin_spin"], out["cy_off_spin"] = sm.groups()
    qm = re.match(r"^for i in range\(num_terms\): for j in range\(i \+ 1, num_terms\): self\.cppbqm\.add_quadratic\( ?variables\[i\], variables\[j\], (.*?) ?\)$", tail.strip())
    if not qm:
        raise Bad(f"{w}: the quadratic double loop (i < j) changed")
    out["cy_quad"] = qm.group(1)
    if "self.cppbqm.add_" in head.replace("self.cppbqm.add_offset(" + out["cy_offset"] + ")", ""):
        raise Bad(f"{w}: more native writes before the vartype test than the offset")
    return {k: trq(expr_of(v, w), CY_NAMES, f"{w}:{k}") for k, v in out.items()}


def cy_dqm(src):
    w = "cydiscrete_quadratic_model.pyx"
    f = cy_function(src, "add_linear_equality_constraint", w)
    out = {}
    out["dqm_offset"] = one(r"self\.cppbqm\.add_offset\((.*?)\) ", f, w, "add_offset")
    out["dqm_lin"] = one(r"lbias = (.*?) self\.cppbqm\.set_linear\(cu, lbias \+ self\.cppbqm\.linear\(cu\)\)", f, w, "lbias assignment followed by set_linear(cu, lbias + linear(cu))")
    out["dqm_quad"] = one(r"qbias = (.*?) self\.cppbqm\.add_quadratic\(cu, cv, qbias\)", f, w, "qbias assignment followed by add_quadratic(cu, cv, qbias)")
    for need in ("for i in range(num_terms):", "for j in range(i + 1, num_terms):", "if u == cppterms[j].variable: continue",
                 "sort_terms(cppterms)"):
        if need not in f:
            raise Bad(f"{w}: `{need}` not found in add_linear_equality_constraint")
    if len(re.findall(r"self\.cppbqm\.(?:add_|set_)", f)) != 3:
        raise Bad(f"{w}: unexpected number of native writes in add_linear_equality_constraint")
    return {k: trq(expr_of(v, w), DQ_NAMES, f"{w}:{k}") for k, v in out.items()}


# ----------------------------------------------------------------------------
# binary_quadratic_model.py (ast)
# ----------------------------------------------------------------------------

PY_NAMES = {"lagrange_multiplier": "lam", "constant": "c", "ubias": "a", "vbias": "b"}


def method(tree, cls, name):
    for c in tree.body:
        if isinstance(c, ast.ClassDef) and c.name == cls:
            for f in c.body:
                if isinstance(f, ast.FunctionDef) and f.name == name:
                    return f
    raise Bad(f"{cls}.{name} not found")


def nodoc(body):
    return [s for s in body if not (isinstance(s, ast.Expr) and isinstance(s.value, ast.Constant))]


def call_arg(s, attr, nargs, first, where):
    """statement `self.<attr>(first..., E)` -> E"""
    ok = (isinstance(s, ast.Expr) and isinstance(s.value, ast.Call) and isinstance(s.value.func, ast.Attribute)
          and s.value.func.attr == attr and isinstance(s.value.func.value, ast.Name) and s.value.func.value.id == "self"
          and len(s.value.args) == nargs and [ast.unparse(a) for a in s.value.args[:-1]] == first and not s.value.keywords)
    if not ok:
        raise Bad(f"{where}: expected self.{attr}({', '.join(first)}, <expr>), found `{ast.unparse(s)}`")
    return s.value.args[-1]


def offset_aug(s, where):
    ok = (isinstance(s, ast.AugAssign) and isinstance(s.op, ast.Add) and nospace(ast.unparse(s.target)) == "self.offset")
    if not ok:
        raise Bad(f"{where}: expected `self.offset += <expr>`, found `{ast.unparse(s)}`")
    return s.value


def spin_split(s, where):
    if not (isinstance(s, ast.If) and nospace(ast.unparse(s.test)) == "self.vartypeisVartype.SPIN"):
        raise Bad(f"{where}: expected `if self.vartype is Vartype.SPIN:`")
    return s.body, s.orelse


def py_fallback(tree):
    w = "binary_quadratic_model.py:add_linear_equality_constraint"
    fn = method(tree, "BinaryQuadraticModel", "add_linear_equality_constraint")
    body = nodoc(fn.body)
    if len(body) != 3 or not isinstance(body[0], ast.Try) or not isinstance(body[1], ast.For):
        raise Bad(f"{w}: body is not try / for / offset update")
    if nospace(ast.unparse(body[0])) != nospace(
            "try:\n    self.data.add_linear_equality_constraint(terms, lagrange_multiplier, constant)\n    return\n"
            "except NotImplementedError:\n    pass"):
        raise Bad(f"{w}: the delegation to the data back-end changed")
    loop = body[1]
    if nospace(ast.unparse(loop.iter)) != "itertools.combinations_with_replacement(enumerate(terms),2)" or loop.orelse:
        raise Bad(f"{w}: the loop is not over combinations_with_replacement(enumerate(terms), 2)")
    lb = loop.body
    if len(lb) != 2 or nospace(ast.unparse(lb[0])) != "(i,(u,ubias)),(j,(v,vbias))=pair":
        raise Bad(f"{w}: the pair unpacking changed")
    top = lb[1]
    if not (isinstance(top, ast.If) and nospace(ast.unparse(top.test)) == "i==j" and len(top.orelse) == 1
            and isinstance(top.orelse[0], ast.If) and nospace(ast.unparse(top.orelse[0].test)) == "u==v"):
        raise Bad(f"{w}: expected `if i == j: .. elif u == v: .. else: ..`")
    out = {}
    sp, bn = spin_split(top.body[0], w + " (i == j)") if len(top.body) == 1 else (None, None)
    if sp is None or len(sp) != 2 or len(bn) != 1:
        raise Bad(f"{w}: unexpected statements in the i == j branch")
    out["py_diag_spin_lin"] = call_arg(sp[0], "add_linear", 2, ["u"], w)
    out["py_diag_spin_off"] = offset_aug(sp[1], w)
    out["py_diag_binary_lin"] = call_arg(bn[0], "add_linear", 2, ["u"], w)
    same = top.orelse[0]
    sp, bn = spin_split(same.body[0], w + " (u == v)") if len(same.body) == 1 else (None, None)
    if sp is None or len(sp) != 1 or len(bn) != 1:
        raise Bad(f"{w}: unexpected statements in the u == v branch")
    out["py_same_spin_off"] = offset_aug(sp[0], w)
    out["py_same_binary_lin"] = call_arg(bn[0], "add_linear", 2, ["u"], w)
    if len(same.orelse) != 1:
        raise Bad(f"{w}: unexpected statements in the interaction branch")
    out["py_quad"] = call_arg(same.orelse[0], "add_quadratic", 3, ["u", "v"], w)
    out["py_offset"] = offset_aug(body[2], w)
    return {k: trq(v, PY_NAMES, f"{w}:{k}") for k, v in out.items()}


def py_inequality(tree):
    w = "binary_quadratic_model.py:add_linear_inequality_constraint"
    fn = method(tree, "BinaryQuadraticModel", "add_linear_inequality_constraint")
    body = nodoc(fn.body)
    texts = [nospace(ast.unparse(s)) for s in body]

    def find_assign(name):
        hits = [s for s in ast.walk(fn) if isinstance(s, ast.Assign) and len(s.targets) == 1
                and isinstance(s.targets[0], ast.Name) and s.targets[0].id == name]
        if len(hits) != 1:
            raise Bad(f"{w}: expected exactly one assignment to {name}, found {len(hits)}")
        return hits[0].value
    if nospace(ast.unparse(find_assign("terms_upper_bound"))) != "sum((vfor_,vintermsifv>0))":
        raise Bad(f"{w}: terms_upper_bound is no longer the sum of the positive biases")
    if nospace(ast.unparse(find_assign("terms_lower_bound"))) != "sum((vfor_,vintermsifv<0))":
        raise Bad(f"{w}: terms_lower_bound is no longer the sum of the negative biases")
    N = {"terms_upper_bound": "tu", "terms_lower_bound": "tl", "ub": "ub", "lb": "lb", "constant": "const",
         "ub_c": "ubc", "lb_c": "lbc", "slack_upper_bound": "U", "num_slack": "k", "j": "j"}
    out = {}
    out["ubc"] = trz(find_assign("ub_c"), N, w)
    out["lbc"] = trz(find_assign("lb_c"), N, w)
    # top-level order: ... bounds, skip test, refuse test, method dispatch
    ifs = [s for s in body if isinstance(s, ast.If)]
    tests = [nospace(ast.unparse(s.test)) for s in ifs]
    try:
        i_skip = tests.index("terms_upper_bound<=ub_candterms_lower_bound>=lb_c")
    except ValueError:
        raise Bad(f"{w}: the always-feasible test changed")
    skip, refuse, disp = ifs[i_skip], ifs[i_skip + 1] if len(ifs) > i_skip + 1 else None, ifs[i_skip + 2] if len(ifs) > i_skip + 2 else None
    if not (isinstance(skip.body[-1], ast.Return) and nospace(ast.unparse(skip.body[-1])) == "return[]" and not skip.orelse):
        raise Bad(f"{w}: the always-feasible branch does not `return []`")
    out["always_feasible"] = trb(skip.test, N, w)
    if refuse is None or not (len(refuse.body) == 1 and isinstance(refuse.body[0], ast.Raise) and not refuse.orelse
                              and "ValueError" in ast.unparse(refuse.body[0])):
        raise Bad(f"{w}: the refusal (raise ValueError) does not directly follow the always-feasible test")
    out["infeasible"] = trb(refuse.test, N, w)
    if disp is None or nospace(ast.unparse(disp.test)) != "penalization_method=='slack'":
        raise Bad(f"{w}: expected `if penalization_method == \"slack\":` after the refusal")
    sl = disp.body
    if not (len(sl) == 4 and isinstance(sl[0], ast.Assign) and isinstance(sl[1], ast.If)):
        raise Bad(f"{w}: slack branch is not: slack_upper_bound = ..; if ..: ..; add_linear_equality_constraint(..); return slack_terms")
    out["slack_ub"] = trz(find_assign("slack_upper_bound"), N, w)
    eqif = sl[1]
    out["is_equality"] = trb(eqif.test, N, w)
    if not (len(eqif.body) == 2 and nospace(ast.unparse(eqif.body[1])) == "return[]"):
        raise Bad(f"{w}: the equality shortcut changed")
    out["eq_constant"] = trz(call_arg(eqif.body[0], "add_linear_equality_constraint", 3, ["terms", "lagrange_multiplier"], w), N, w)
    els = eqif.orelse
    et = [nospace(ast.unparse(s)) for s in els]
    want_prefix = ["slack_terms=[]", "zero_constraint=False"]
    if et[:2] != want_prefix or not isinstance(els[2], ast.If) or nospace(ast.unparse(els[2].test)) != "cross_zero":
        raise Bad(f"{w}: the slack construction no longer starts with slack_terms / zero_constraint / if cross_zero")
    cz = els[2]
    if not (len(cz.body) == 1 and isinstance(cz.body[0], ast.If) and len(cz.body[0].body) == 1 and isinstance(cz.body[0].body[0], ast.If)
            and nospace(ast.unparse(cz.body[0].body[0].body[0])) == "zero_constraint=True" and not cz.orelse
            and not cz.body[0].orelse and not cz.body[0].body[0].orelse):
        raise Bad(f"{w}: the cross_zero conditions changed shape")
    out["cz_outer"] = trb(cz.body[0].test, N, w)
    out["cz_inner"] = trb(cz.body[0].body[0].test, N, w)
    out["num_slack"] = trz(find_assign("num_slack"), N, w)
    comp = find_assign("slack_coefficients")
    if not (isinstance(comp, ast.ListComp) and len(comp.generators) == 1 and not comp.generators[0].ifs
            and nospace(ast.unparse(comp.generators[0].iter)) == "range(num_slack)" and ast.unparse(comp.generators[0].target) == "j"):
        raise Bad(f"{w}: slack_coefficients is not [<expr> for j in range(num_slack)]")
    out["pow_coeff"] = trz(comp.elt, N, w)
    guard = [s for s in els if isinstance(s, ast.If) and "slack_coefficients.append" in ast.unparse(s)]
    if len(guard) != 1 or guard[0].orelse or len(guard[0].body) != 1:
        raise Bad(f"{w}: the remainder coefficient is not appended under a single guard")
    out["rest_guard"] = trb(guard[0].test, N, w)
    app = guard[0].body[0]
    if not (isinstance(app, ast.Expr) and isinstance(app.value, ast.Call) and nospace(ast.unparse(app.value.func)) == "slack_coefficients.append"
            and len(app.value.args) == 1):
        raise Bad(f"{w}: unexpected statement under the remainder guard")
    out["rest_coeff"] = trz(app.value.args[0], N, w)
    if "forj,sinenumerate(slack_coefficients):sv=self.add_variable(f'slack_{label}_{j}')slack_terms.append((sv,s))" not in "".join(et):
        raise Bad(f"{w}: the loop creating one slack variable per coefficient changed")
    zc = [s for s in els if isinstance(s, ast.If) and nospace(ast.unparse(s.test)) == "zero_constraint"]
    if len(zc) != 1 or len(zc[0].body) != 2:
        raise Bad(f"{w}: the zero_constraint block changed")
    zapp = zc[0].body[1]
    if not (isinstance(zapp, ast.Expr) and nospace(ast.unparse(zapp.value.func)) == "slack_terms.append"
            and isinstance(zapp.value.args[0], ast.Tuple) and ast.unparse(zapp.value.args[0].elts[0]) == "sv"):
        raise Bad(f"{w}: the zero_constraint term changed")
    out["cz_coeff"] = trz(zapp.value.args[0].elts[1], N, w)
    out["slack_constant"] = trz(call_arg(sl[2], "add_linear_equality_constraint", 3, ["terms + slack_terms", "lagrange_multiplier"], w), N, w)
    if nospace(ast.unparse(sl[3])) != "returnslack_terms":
        raise Bad(f"{w}: the slack branch does not return slack_terms")
    # unbalanced
    if not (len(disp.orelse) == 1 and isinstance(disp.orelse[0], ast.If)
            and nospace(ast.unparse(disp.orelse[0].test)) == "penalization_method=='unbalanced'"):
        raise Bad(f"{w}: expected the 'unbalanced' branch")
    ub = disp.orelse[0].body
    if len(ub) != 5 or not isinstance(ub[1], ast.For) or nospace(ast.unparse(ub[1].target)) != "(v,bias)" \
            or nospace(ast.unparse(ub[1].iter)) != "terms" or len(ub[1].body) != 1 or nospace(ast.unparse(ub[4])) != "return[]":
        raise Bad(f"{w}: the 'unbalanced' branch changed shape")
    QN = {"lagrange_multiplier[0]": "lam0", "lagrange_multiplier[1]": "lam1", "bias": "bias", "ub_c": "ubc"}
    out["unb_lin"] = trq(call_arg(ub[1].body[0], "add_linear", 2, ["v"], w), QN, w)
    out["unb_offset"] = trq(offset_aug(ub[2], w), QN, w)
    e = ub[3]
    if not (isinstance(e, ast.Expr) and isinstance(e.value, ast.Call) and nospace(ast.unparse(e.value.func)) == "self.add_linear_equality_constraint"
            and len(e.value.args) == 3 and ast.unparse(e.value.args[0]) == "terms"):
        raise Bad(f"{w}: the 'unbalanced' equality call changed")
    out["unb_mult"] = trq(e.value.args[1], QN, w)
    out["unb_constant"] = trq(e.value.args[2], QN, w)
    return out


def main():
    build, outdir = sys.argv[1], sys.argv[2]
    paths = [os.path.join(build, "dimod", "binary", "cybqm", "cybqm_template.pyx.pxi"),
             os.path.join(build, "dimod", "discrete", "cydiscrete_quadratic_model.pyx"),
             os.path.join(build, "dimod", "binary", "binary_quadratic_model.py")]
    srcs = [open(p).read() for p in paths]
    for p, s in zip(paths, srcs):
        print("INPUT %s %s" % (p, hashlib.sha256(s.encode()).hexdigest()))
    cy = cy_bqm(srcs[0])
    dq = cy_dqm(srcs[1])
    tree = ast.parse(srcs[2])
    py = py_fallback(tree)
    iq = py_inequality(tree)
    L = ["(* GENERATED by translators/penalty_formulas.py from cybqm_template.pyx.pxi, cydiscrete_quadratic_model.pyx and",
         "   binary_quadratic_model.py - do not edit *)",
         "From Coq Require Import ZArith QArith Qcanon Bool.", "From Dimod Require Import Base.Util Model.Poly.", "",
         "Section Rational.", "Open Scope Qc_scope.",
         "(* native BQM add_linear_equality_constraint (a = biases[i], b = biases[j], i < j) *)",
         f"Definition gen_cy_offset (lam c : Qc) : Qc := {cy['cy_offset']}.",
         f"Definition gen_cy_lin_binary (lam c a : Qc) : Qc := {cy['cy_lin_binary']}.",
         f"Definition gen_cy_lin_spin (lam c a : Qc) : Qc := {cy['cy_lin_spin']}.",
         f"Definition gen_cy_off_spin (lam a : Qc) : Qc := {cy['cy_off_spin']}.",
         f"Definition gen_cy_quad (lam a b : Qc) : Qc := {cy['cy_quad']}.",
         "(* DQM add_linear_equality_constraint (a = u_bias, b = v_bias) *)",
         f"Definition gen_dqm_offset (lam c : Qc) : Qc := {dq['dqm_offset']}.",
         f"Definition gen_dqm_lin (lam c a : Qc) : Qc := {dq['dqm_lin']}.",
         f"Definition gen_dqm_quad (lam a b : Qc) : Qc := {dq['dqm_quad']}.",
         "(* pure-Python fallback (a = ubias, b = vbias; on the diagonal i == j both are the same term) *)",
         f"Definition gen_py_diag_spin_lin (lam c a b : Qc) : Qc := {py['py_diag_spin_lin']}.",
         f"Definition gen_py_diag_spin_off (lam c a b : Qc) : Qc := {py['py_diag_spin_off']}.",
         f"Definition gen_py_diag_binary_lin (lam c a b : Qc) : Qc := {py['py_diag_binary_lin']}.",
         f"Definition gen_py_same_spin_off (lam a b : Qc) : Qc := {py['py_same_spin_off']}.",
         f"Definition gen_py_same_binary_lin (lam a b : Qc) : Qc := {py['py_same_binary_lin']}.",
         f"Definition gen_py_quad (lam a b : Qc) : Qc := {py['py_quad']}.",
         f"Definition gen_py_offset (lam c : Qc) : Qc := {py['py_offset']}.",
         "(* penalization_method='unbalanced' *)",
         f"Definition gen_unb_lin (lam0 bias : Qc) : Qc := {iq['unb_lin']}.",
         f"Definition gen_unb_offset (ubc : Qc) : Qc := {iq['unb_offset']}.",
         f"Definition gen_unb_mult (lam0 lam1 : Qc) : Qc := {iq['unb_mult']}.",
         f"Definition gen_unb_constant (ubc : Qc) : Qc := {iq['unb_constant']}.",
         "End Rational.", "",
         "Section Integer.", "Open Scope Z_scope.",
         "(* add_linear_inequality_constraint: tu / tl = sum of the positive / negative biases *)",
         f"Definition gen_ubc (tu ub const : Z) : Z := {iq['ubc']}.",
         f"Definition gen_lbc (tl lb const : Z) : Z := {iq['lbc']}.",
         f"Definition gen_always_feasible (tu tl ubc lbc : Z) : bool := {iq['always_feasible']}.",
         f"Definition gen_infeasible (ubc lbc : Z) : bool := {iq['infeasible']}.",
         f"Definition gen_slack_ub (ubc lbc : Z) : Z := {iq['slack_ub']}.",
         f"Definition gen_is_equality (U : Z) : bool := {iq['is_equality']}.",
         f"Definition gen_eq_constant (ubc : Z) : Z := {iq['eq_constant']}.",
         f"Definition gen_num_slack (U : Z) : Z := {iq['num_slack']}.",
         f"Definition gen_pow_coeff (j : Z) : Z := {iq['pow_coeff']}.",
         f"Definition gen_rest_guard (U k : Z) : bool := {iq['rest_guard']}.",
         f"Definition gen_rest_coeff (U k : Z) : Z := {iq['rest_coeff']}.",
         f"Definition gen_slack_constant (ubc : Z) : Z := {iq['slack_constant']}.",
         "(* cross_zero: both tests must hold; the extra bit's coefficient *)",
         f"Definition gen_cz_outer (lbc ubc : Z) : bool := {iq['cz_outer']}.",
         f"Definition gen_cz_inner (ubc U : Z) : bool := {iq['cz_inner']}.",
         f"Definition gen_cz_coeff (ubc U : Z) : Z := {iq['cz_coeff']}.",
         "End Integer.", ""]
    os.makedirs(outdir, exist_ok=True)
    p = os.path.join(outdir, "Gen_Penalty.v")
    new = "\n".join(L)
    if not os.path.exists(p) or open(p).read() != new:
        open(p, "w").write(new)


if __name__ == "__main__":
    try:
        main()
    except Bad as e:
        print("penalty_formulas.py: " + str(e))
        sys.exit(1)
