#!/venv/bin/python
"""Fail-closed translator: dimod/higherorder/utils.py::_spin_product -> coq/theories/Gen/Gen_SpinProduct.v

usage: spin_product.py <build_dir> <out_dir>

_spin_product is the penalty make_quadratic uses for a SPIN product constraint.  Its body must be

    [docstring]
    multiplier, multiplicand, product, aux = variables
    return BinaryQuadraticModel({<name>: <number>, ...},
                                {(<name>, <name>): <number>, ...},
                                <number>,
                                Vartype.SPIN)

with <name> one of the four unpacked names and <number> an int/float literal (optionally negated).
The biases are emitted, in source order and over ARGUMENT POSITIONS 0..3, as exact rationals
(float literals are converted with fractions.Fraction(float)).  Proofs/GenPenalties.v proves that the
polynomial Model/Reduce.v uses in the C15 theorems is exactly this table, so a changed constant in the
source breaks the theorems.  Anything outside this shape is an error naming the source line.
"""
import ast
import hashlib
import os
import sys
from fractions import Fraction


class Bad(Exception):
    def __init__(self, node, why):
        self.node, self.why = node, why


def number(n):
    neg = False
    if isinstance(n, ast.UnaryOp) and isinstance(n.op, ast.USub):
        neg, n = True, n.operand
    if isinstance(n, ast.Constant) and type(n.value) in (int, float):
        f = Fraction(n.value)
        return -f if neg else f
    raise Bad(n, "numeric literal expected")


def qc(f):
    return f"(qc ({f.numerator}) {f.denominator})"


def main():
    build, out = sys.argv[1], sys.argv[2]
    src = os.path.join(build, "dimod", "higherorder", "utils.py")
    data = open(src, "rb").read()
    print("INPUT", src, hashlib.sha256(data).hexdigest())
    text = data.decode("utf-8")
    lines = text.splitlines()
    tree = ast.parse(text)
    try:
        fns = [n for n in tree.body if isinstance(n, ast.FunctionDef) and n.name == "_spin_product"]
        if len(fns) != 1:
            raise Bad(tree, "exactly one function _spin_product expected")
        fn = fns[0]
        if [a.arg for a in fn.args.args] != ["variables"] or fn.args.vararg or fn.args.kwarg or fn.args.kwonlyargs \
                or fn.decorator_list:
            raise Bad(fn, "signature _spin_product(variables) expected")
        body = fn.body
        if body and isinstance(body[0], ast.Expr) and isinstance(body[0].value, ast.Constant) \
                and isinstance(body[0].value.value, str):
            body = body[1:]
        if len(body) != 2:
            raise Bad(body[2] if len(body) > 2 else fn, "unpacking followed by a single return expected")
        un, ret = body
        ok = (isinstance(un, ast.Assign) and len(un.targets) == 1 and isinstance(un.targets[0], ast.Tuple)
              and len(un.targets[0].elts) == 4 and all(isinstance(e, ast.Name) for e in un.targets[0].elts)
              and isinstance(un.value, ast.Name) and un.value.id == "variables")
        if not ok:
            raise Bad(un, "`a, b, c, d = variables` expected")
        names = [e.id for e in un.targets[0].elts]
        if len(set(names)) != 4:
            raise Bad(un, "four distinct names expected")
        pos = {n: i for i, n in enumerate(names)}
        if not (isinstance(ret, ast.Return) and isinstance(ret.value, ast.Call)
                and isinstance(ret.value.func, ast.Name) and ret.value.func.id == "BinaryQuadraticModel"
                and len(ret.value.args) == 4 and not ret.value.keywords):
            raise Bad(ret, "`return BinaryQuadraticModel(linear, quadratic, offset, Vartype.SPIN)` expected")
        dl, dq, off, vt = ret.value.args
        if not (isinstance(vt, ast.Attribute) and isinstance(vt.value, ast.Name) and vt.value.id == "Vartype"
                and vt.attr == "SPIN"):
            raise Bad(vt, "Vartype.SPIN expected")
        if not isinstance(dl, ast.Dict) or not isinstance(dq, ast.Dict):
            raise Bad(ret, "dict literals expected")
        lin, quad = [], []
        for k, v in zip(dl.keys, dl.values):
            if not (isinstance(k, ast.Name) and k.id in pos):
                raise Bad(k or dl, "one of the unpacked names expected as key")
            lin.append((pos[k.id], number(v)))
        for k, v in zip(dq.keys, dq.values):
            if not (isinstance(k, ast.Tuple) and len(k.elts) == 2
                    and all(isinstance(e, ast.Name) and e.id in pos for e in k.elts)):
                raise Bad(k or dq, "a pair of the unpacked names expected as key")
            u, w = pos[k.elts[0].id], pos[k.elts[1].id]
            if u == w:
                raise Bad(k, "self interaction")
            quad.append((u, w, number(v)))
        if len({p for p, _ in lin}) != len(lin) or len({frozenset((u, w)) for u, w, _ in quad}) != len(quad):
            raise Bad(ret, "repeated key")
        offset = number(off)
    except Bad as e:
        ln = getattr(e.node, "lineno", 0)
        print(f"spin_product: {src}:{ln}: {e.why}")
        if ln:
            print("    " + lines[ln - 1].strip())
        return 2
    os.makedirs(out, exist_ok=True)
    new = "\n".join([
        "(* GENERATED by translators/spin_product.py from dimod/higherorder/utils.py::_spin_product - do not edit.",
        f"   source sha256 {hashlib.sha256(data).hexdigest()} *)",
        "From Coq Require Import List ZArith QArith Qcanon.",
        "From Dimod Require Import Base.Util.",
        "Import ListNotations.",
        "",
        f"Definition spin_product_offset : Qc := {qc(offset)}.",
        "Definition spin_product_lin : list (nat * Qc) := [" + "; ".join(f"({p}%nat, {qc(b)})" for p, b in lin) + "].",
        "Definition spin_product_quad : list (nat * nat * Qc) := ["
        + "; ".join(f"({u}%nat, {w}%nat, {qc(b)})" for u, w, b in quad) + "].",
        ""])
    dst = os.path.join(out, "Gen_SpinProduct.v")
    if not os.path.exists(dst) or open(dst).read() != new:
        with open(dst, "w") as fh:
            fh.write(new)
    return 0


if __name__ == "__main__":
    sys.exit(main())
