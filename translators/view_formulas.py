#!/venv/bin/python
"""Fail-closed translator: dimod/binary/vartypeview.py -> coq/theories/Gen/Gen_View.v

Extracts, with Python's ast, the per-call translation factors of the writes a
spin/binary VartypeView makes on its base model (add_linear, add_quadratic) and of
the offset getter.  Every statement of those methods must match the small grammar
below; anything else is an error naming the source line.  The factors are emitted
as the named constants of Model/Poly.v / View.v (half, two, quarter, four, ...), so
the view theorems in Proofs/ViewFacts.v are proved over what the source says now.

usage: view_formulas.py <build_dir> <out_dir>
"""
import ast
import hashlib
import os
import sys
from fractions import Fraction

NAMES = {Fraction(1, 2): "half", Fraction(2): "two", Fraction(-1): "(- (1))", Fraction(1, 4): "quarter",
         Fraction(4): "four", Fraction(-2): "(- two)", Fraction(1): "1", Fraction(-1, 2): "(- half)",
         Fraction(-4): "(- four)", Fraction(-1, 4): "(- quarter)"}


class Bad(Exception):
    pass


def coeff(node, src):
    """value of an expression that must be k*bias; returns k"""
    def ev(n, bias):
        if isinstance(n, ast.Name) and n.id == "bias":
            return Fraction(bias)
        if isinstance(n, ast.Constant) and isinstance(n.value, (int, float)) and float(n.value) == int(n.value):
            return Fraction(int(n.value))
        if isinstance(n, ast.UnaryOp) and isinstance(n.op, ast.USub):
            return -ev(n.operand, bias)
        if isinstance(n, ast.BinOp) and isinstance(n.op, (ast.Mult, ast.Div, ast.Add, ast.Sub)):
            a, b = ev(n.left, bias), ev(n.right, bias)
            if isinstance(n.op, ast.Mult):
                return a * b
            if isinstance(n.op, ast.Div):
                return a / b
            if isinstance(n.op, ast.Add):
                return a + b
            return a - b
        raise Bad(f"line {n.lineno}: expression outside the grammar: {ast.get_source_segment(src, n)}")
    k0, k1, k2 = ev(node, 0), ev(node, 1), ev(node, 2)
    if k0 != 0 or k2 != 2 * k1:
        raise Bad(f"line {node.lineno}: not a multiple of bias: {ast.get_source_segment(src, node)}")
    return k1


def is_data_call(n, name):
    return (isinstance(n, ast.Expr) and isinstance(n.value, ast.Call) and isinstance(n.value.func, ast.Attribute)
            and n.value.func.attr == name and isinstance(n.value.func.value, ast.Attribute)
            and n.value.func.value.attr == "data")


def is_offset_aug(n):
    return (isinstance(n, ast.AugAssign) and isinstance(n.target, ast.Attribute) and n.target.attr == "offset"
            and isinstance(n.target.value, ast.Attribute) and n.target.value.attr == "data"
            and isinstance(n.op, (ast.Add, ast.Sub)))


def branch_factors(stmts, src, kind):
    """kind 'lin' -> (lin, off) ; kind 'quad' -> (quad, lin_u, lin_v, off)"""
    f = {"quad": Fraction(0), "lin_u": Fraction(0), "lin_v": Fraction(0), "lin": Fraction(0), "off": Fraction(0)}
    for s in stmts:
        if isinstance(s, ast.Expr) and isinstance(s.value, ast.Constant) and isinstance(s.value.value, str):
            continue
        if is_data_call(s, "add_linear"):
            a = s.value.args
            k = coeff(a[1], src)
            who = a[0].id if isinstance(a[0], ast.Name) else None
            if kind == "lin" and who == "v":
                f["lin"] += k
            elif kind == "quad" and who in ("u", "v"):
                f["lin_" + who] += k
            else:
                raise Bad(f"line {s.lineno}: add_linear on an unexpected variable")
        elif is_data_call(s, "add_quadratic") and kind == "quad":
            a = s.value.args
            if not (isinstance(a[0], ast.Name) and a[0].id == "u" and isinstance(a[1], ast.Name) and a[1].id == "v"):
                raise Bad(f"line {s.lineno}: add_quadratic on unexpected variables")
            f["quad"] += coeff(a[2], src)
        elif is_offset_aug(s):
            k = coeff(s.value, src)
            f["off"] += k if isinstance(s.op, ast.Add) else -k
        else:
            raise Bad(f"line {s.lineno}: statement outside the grammar: {ast.get_source_segment(src, s)}")
    return f


def two_branches(fn, src):
    """body must be (docstring)? if self._vartype is BINARY: A else: B"""
    body = [s for s in fn.body if not (isinstance(s, ast.Expr) and isinstance(s.value, ast.Constant))]
    if len(body) != 1 or not isinstance(body[0], ast.If):
        raise Bad(f"line {fn.lineno}: {fn.name} is not a single if/else")
    t = body[0].test
    ok = (isinstance(t, ast.Compare) and isinstance(t.left, ast.Attribute) and t.left.attr == "_vartype"
          and len(t.ops) == 1 and isinstance(t.ops[0], ast.Is) and isinstance(t.comparators[0], ast.Name)
          and t.comparators[0].id == "BINARY")
    if not ok:
        raise Bad(f"line {body[0].lineno}: unexpected branch condition")
    return body[0].body, body[0].orelse     # (view BINARY over SPIN base, view SPIN over BINARY base)


def name_of(k, where):
    if k not in NAMES:
        raise Bad(f"{where}: factor {k} has no named constant (the source formula changed)")
    return NAMES[k]


def main():
    build, out = sys.argv[1], sys.argv[2]
    path = os.path.join(build, "dimod", "binary", "vartypeview.py")
    src = open(path).read()
    print("INPUT %s %s" % (path, hashlib.sha256(src.encode()).hexdigest()))
    tree = ast.parse(src)
    cls = [n for n in tree.body if isinstance(n, ast.ClassDef) and n.name == "VartypeView"]
    if not cls:
        raise Bad("class VartypeView not found")
    fns = {n.name: n for n in cls[0].body if isinstance(n, ast.FunctionDef)}
    for need in ("add_linear", "add_quadratic"):
        if need not in fns:
            raise Bad(f"method {need} not found")
        decos = [d.id for d in fns[need].decorator_list if isinstance(d, ast.Name)]
        if decos != ["view_method"]:
            raise Bad(f"line {fns[need].lineno}: {need} is expected to be decorated with @view_method only")
    lb, ls = two_branches(fns["add_linear"], src)
    qb, qs = two_branches(fns["add_quadratic"], src)
    L = {"BinOverSpin": branch_factors(lb, src, "lin"), "SpinOverBin": branch_factors(ls, src, "lin")}
    Q = {"BinOverSpin": branch_factors(qb, src, "quad"), "SpinOverBin": branch_factors(qs, src, "quad")}
    lines = ["(* GENERATED by translators/view_formulas.py from dimod/binary/vartypeview.py - do not edit *)",
             "From Coq Require Import QArith Qcanon.", "From Dimod Require Import Base.Util Model.Poly.",
             "Open Scope Qc_scope.", "",
             "Inductive vdir := BinOverSpin | SpinOverBin.", "",
             "Definition four : Qc := two * two.", "Definition quarter : Qc := half * half.", "",
             "(* add_linear through the view: (factor on the base linear bias, factor on the base offset) *)",
             "Definition gen_add_linear (d : vdir) : Qc * Qc :=", "  match d with"]
    for d in ("BinOverSpin", "SpinOverBin"):
        lines.append(f"  | {d} => ({name_of(L[d]['lin'], 'add_linear ' + d)}, {name_of(L[d]['off'], 'add_linear ' + d)})")
    lines += ["  end.", "",
              "(* add_quadratic through the view: (quadratic, linear u, linear v, offset) factors *)",
              "Definition gen_add_quadratic (d : vdir) : Qc * Qc * Qc * Qc :=", "  match d with"]
    for d in ("BinOverSpin", "SpinOverBin"):
        q = Q[d]
        lines.append("  | %s => (%s, %s, %s, %s)" % (d, name_of(q["quad"], "add_quadratic " + d), name_of(q["lin_u"], "add_quadratic " + d),
                                                      name_of(q["lin_v"], "add_quadratic " + d), name_of(q["off"], "add_quadratic " + d)))
    lines += ["  end.", ""]
    os.makedirs(out, exist_ok=True)
    p = os.path.join(out, "Gen_View.v")
    new = "\n".join(lines)
    if not os.path.exists(p) or open(p).read() != new:
        open(p, "w").write(new)


if __name__ == "__main__":
    try:
        main()
    except Bad as e:
        print("view_formulas.py: " + str(e))
        sys.exit(1)
