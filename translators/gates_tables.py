#!/venv/bin/python
"""Fail-closed translator: dimod/generators/gates.py -> coq/theories/Gen/Gen_Gates.v

usage: python gates_tables.py <build_dir> <out_dir>

Reads the gate generators with `ast` and emits, for and/or/halfadder/fulladder/xor,
the integer linear and quadratic coefficient tables over ARGUMENT POSITIONS
(position i = i-th positional parameter of the generator).  Grammar accepted for
the body of a table gate (in this order):

    [docstring]
    bqm = BinaryQuadraticModel(Vartype.BINARY)
    ( bqm.add_variable(<param>[, bias=<int>]) | bqm.add_quadratic(<param>, <param>, <int>) )*
    if strength <= 0: raise ValueError(<anything>)
    bqm.scale(strength)
    return bqm

and for a delegating gate (xor):

    [docstring]
    return <table gate>(<param>, ..., strength=strength)

Anything else is an error: the offending source line is printed and the exit
status is non-zero, so the proofs over Gen_Gates.v are not re-checked against a
source the translator does not understand.
"""
import ast
import hashlib
import os
import sys

TABLE_GATES = ['and_gate', 'or_gate', 'halfadder_gate', 'fulladder_gate']
DELEGATING = ['xor_gate']


class Unsupported(Exception):
    def __init__(self, node, why):
        self.node, self.why = node, why


def is_name(n, name=None):
    return isinstance(n, ast.Name) and (name is None or n.id == name)


def int_const(n):
    if isinstance(n, ast.Constant) and type(n.value) is int:
        return n.value
    if isinstance(n, ast.UnaryOp) and isinstance(n.op, ast.USub) and isinstance(n.operand, ast.Constant) \
            and type(n.operand.value) is int:
        return -n.operand.value
    raise Unsupported(n, "integer literal expected")


def params_of(fn):
    a = fn.args
    if a.vararg or a.kwarg or a.posonlyargs or a.defaults:
        raise Unsupported(fn, "unexpected parameter form")
    if [k.arg for k in a.kwonlyargs] != ['strength']:
        raise Unsupported(fn, "exactly one keyword-only parameter `strength` expected")
    d = a.kw_defaults[0]
    if not (isinstance(d, ast.Constant) and d.value == 1.0):
        raise Unsupported(fn, "default strength 1.0 expected")
    names = [x.arg for x in a.args]
    if len(set(names)) != len(names) or 'bqm' in names or 'strength' in names:
        raise Unsupported(fn, "parameter names")
    return names


def strip_doc(body):
    if body and isinstance(body[0], ast.Expr) and isinstance(body[0].value, ast.Constant) \
            and isinstance(body[0].value.value, str):
        return body[1:]
    return body


def bqm_call(stmt, method):
    """stmt is `bqm.<method>(...)` as an expression statement -> the Call node, else None"""
    if isinstance(stmt, ast.Expr) and isinstance(stmt.value, ast.Call):
        f = stmt.value.func
        if isinstance(f, ast.Attribute) and is_name(f.value, 'bqm') and f.attr == method:
            return stmt.value
    return None


def table_gate(fn):
    names = params_of(fn)
    pos = {n: i for i, n in enumerate(names)}
    body = strip_doc(fn.body)
    if len(body) < 4:
        raise Unsupported(fn, "body too short")
    # bqm = BinaryQuadraticModel(Vartype.BINARY)
    s0 = body[0]
    ok = (isinstance(s0, ast.Assign) and len(s0.targets) == 1 and is_name(s0.targets[0], 'bqm')
          and isinstance(s0.value, ast.Call) and is_name(s0.value.func, 'BinaryQuadraticModel')
          and len(s0.value.args) == 1 and not s0.value.keywords
          and isinstance(s0.value.args[0], ast.Attribute) and is_name(s0.value.args[0].value, 'Vartype')
          and s0.value.args[0].attr == 'BINARY')
    if not ok:
        raise Unsupported(s0, "`bqm = BinaryQuadraticModel(Vartype.BINARY)` expected")
    lin, quad = [], []
    i = 1
    while i < len(body):
        st = body[i]
        c = bqm_call(st, 'add_variable')
        if c is not None:
            if len(c.args) != 1 or not is_name(c.args[0]) or c.args[0].id not in pos:
                raise Unsupported(st, "add_variable(<parameter>[, bias=<int>]) expected")
            b = 0
            if c.keywords:
                if len(c.keywords) != 1 or c.keywords[0].arg != 'bias':
                    raise Unsupported(st, "only the keyword `bias` is understood")
                b = int_const(c.keywords[0].value)
            lin.append((pos[c.args[0].id], b))
            i += 1
            continue
        c = bqm_call(st, 'add_quadratic')
        if c is not None:
            if len(c.args) != 3 or c.keywords or not all(is_name(x) and x.id in pos for x in c.args[:2]):
                raise Unsupported(st, "add_quadratic(<parameter>, <parameter>, <int>) expected")
            u, v = pos[c.args[0].id], pos[c.args[1].id]
            if u == v:
                raise Unsupported(st, "self interaction")
            quad.append((u, v, int_const(c.args[2])))
            i += 1
            continue
        break
    rest = body[i:]
    if len(rest) != 3:
        raise Unsupported(rest[0] if rest else fn, "expected: strength guard, bqm.scale(strength), return bqm")
    g, sc, ret = rest
    ok = (isinstance(g, ast.If) and not g.orelse and isinstance(g.test, ast.Compare)
          and is_name(g.test.left, 'strength') and len(g.test.ops) == 1 and isinstance(g.test.ops[0], ast.LtE)
          and len(g.test.comparators) == 1 and isinstance(g.test.comparators[0], ast.Constant)
          and g.test.comparators[0].value == 0 and type(g.test.comparators[0].value) is int
          and len(g.body) == 1 and isinstance(g.body[0], ast.Raise) and isinstance(g.body[0].exc, ast.Call)
          and is_name(g.body[0].exc.func, 'ValueError'))
    if not ok:
        raise Unsupported(g, "`if strength <= 0: raise ValueError(...)` expected")
    c = bqm_call(sc, 'scale')
    if c is None or len(c.args) != 1 or c.keywords or not is_name(c.args[0], 'strength'):
        raise Unsupported(sc, "`bqm.scale(strength)` expected")
    if not (isinstance(ret, ast.Return) and is_name(ret.value, 'bqm')):
        raise Unsupported(ret, "`return bqm` expected")
    mentioned = {p for p, _ in lin} | {u for u, _, _ in quad} | {v for _, v, _ in quad}
    if mentioned != set(range(len(names))):
        raise Unsupported(fn, "every parameter must be mentioned by an add_variable/add_quadratic")
    return {"n": len(names), "lin": lin, "quad": quad}


def delegating_gate(fn, tables):
    names = params_of(fn)
    pos = {n: i for i, n in enumerate(names)}
    body = strip_doc(fn.body)
    if len(body) != 1 or not isinstance(body[0], ast.Return) or not isinstance(body[0].value, ast.Call):
        raise Unsupported(body[0] if body else fn, "`return <gate>(<parameters>, strength=strength)` expected")
    c = body[0].value
    if not (is_name(c.func) and c.func.id in tables):
        raise Unsupported(body[0], "delegation to a table gate expected")
    callee = tables[c.func.id]
    if len(c.args) != callee["n"] or not all(is_name(x) and x.id in pos for x in c.args):
        raise Unsupported(body[0], "positional parameters expected")
    if len(c.keywords) != 1 or c.keywords[0].arg != 'strength' or not is_name(c.keywords[0].value, 'strength'):
        raise Unsupported(body[0], "`strength=strength` expected")
    m = [pos[x.id] for x in c.args]          # callee position -> caller position
    if sorted(m) != list(range(len(names))):
        raise Unsupported(body[0], "the parameters must be passed on one-to-one")
    return {"n": len(names), "lin": [(m[p], b) for p, b in callee["lin"]],
            "quad": [(m[u], m[v], b) for u, v, b in callee["quad"]], "via": c.func.id}


def z(n):
    return f"({n})%Z"


def emit(name, t):
    lin = "; ".join(f"({p}%nat, {z(b)})" for p, b in t["lin"])
    quad = "; ".join(f"({u}%nat, {v}%nat, {z(b)})" for u, v, b in t["quad"])
    return (f"Definition {name}_nargs : nat := {t['n']}%nat.\n"
            f"Definition {name}_lin : list (nat * Z) := [{lin}].\n"
            f"Definition {name}_quad : list (nat * nat * Z) := [{quad}].\n")


def main():
    build, out = sys.argv[1], sys.argv[2]
    src = os.path.join(build, "dimod", "generators", "gates.py")
    data = open(src, "rb").read()
    print("INPUT", src, hashlib.sha256(data).hexdigest())
    text = data.decode("utf-8")
    lines = text.splitlines()
    tree = ast.parse(text)
    fns = {n.name: n for n in tree.body if isinstance(n, ast.FunctionDef)}
    try:
        tables = {}
        for g in TABLE_GATES + DELEGATING:
            if g not in fns:
                raise Unsupported(tree, f"function {g} not found")
            if fns[g].decorator_list:
                raise Unsupported(fns[g], "decorators are not understood")
        for g in TABLE_GATES:
            tables[g] = table_gate(fns[g])
        for g in DELEGATING:
            tables[g] = delegating_gate(fns[g], tables)
    except Unsupported as e:
        ln = getattr(e.node, "lineno", 0)
        print(f"gates_tables: {src}:{ln}: {e.why}")
        if ln:
            print("    " + lines[ln - 1].strip())
        return 2
    os.makedirs(out, exist_ok=True)
    body = ["(* GENERATED by translators/gates_tables.py from dimod/generators/gates.py - do not edit.",
            f"   source sha256 {hashlib.sha256(data).hexdigest()} *)",
            "From Coq Require Import List ZArith.", "Import ListNotations.", ""]
    for g in TABLE_GATES + DELEGATING:
        body.append(emit(g, tables[g]))
    new = "\n".join(body)
    dst = os.path.join(out, "Gen_Gates.v")
    if not os.path.exists(dst) or open(dst).read() != new:      # keep the timestamp when unchanged
        with open(dst, "w") as fh:
            fh.write(new)
        drop_stale_dependents(os.path.dirname(os.path.abspath(out)), "Gen_Gates")
    return 0


def drop_stale_dependents(theories, module):
    """The tables changed: remove the compiled files of everything that (transitively) imports the
    generated module, so that a proof that no longer goes through cannot be mistaken for a checked one
    (make -k leaves the old .vo of a failed target in place)."""
    import re
    deps = {}
    for d, _, fn in os.walk(theories):
        for f in fn:
            if f.endswith(".v"):
                txt = open(os.path.join(d, f), encoding="utf-8").read()
                txt = re.sub(r"\(\*.*?\*\)", "", txt, flags=re.S)
                mods = set()
                for m in re.finditer(r"Require\s+(?:Import\s+|Export\s+)?(.*?)\.(?=\s|$)", txt, flags=re.S):
                    for tok in m.group(1).split():
                        mods.add(tok.split(".")[-1])
                deps[os.path.join(d, f)] = mods
    stale, changed = {module}, True
    while changed:
        changed = False
        for path, mods in deps.items():
            name = os.path.basename(path)[:-2]
            if name not in stale and mods & stale:
                stale.add(name)
                changed = True
    for path in deps:
        name = os.path.basename(path)[:-2]
        if name in stale and name != module:
            for ext in (".vo", ".vok", ".vos", ".glob"):
                try:
                    os.remove(path[:-2] + ext)
                except OSError:
                    pass


if __name__ == "__main__":
    sys.exit(main())
