#!/venv/bin/python
"""Regenerates coq/theories/Gen/Gen_LP.v from the LP writer and the bundled LP reader.

    python lp_grammar.py <build_dir> <out_dir>

Extracted (fail-closed: any source shape that is not exactly the expected one aborts with exit
status 1 and writes nothing):

* dimod/lp.py: LABEL_VALID_CHARS and LABEL_INVALID_FIRST_CHARS (sets built from string.ascii_letters,
  string.digits and string literals), the maximal label length tested by _validate_label, and of
  _WidthLimitedFile: TARGET_LINE_LEN, the break condition `self._line_len + pos > self.TARGET_LINE_LEN - 1`,
  the break string written and the line length it leaves.
* dimod/lp.py dump (+ _sign, _sense, _abs) and dimod/sym.py Sense: the FIXED WORDS the writer emits - every literal
  piece of every `f.write(...)` of dump, split at blanks, plus the values of _sign, _sense and the section names
  of the Binary/General loop; a literal glued to a formatted value may only be the colon behind a label
  (`{label}:`), and the formatted values may only be the known ones (labels, _sign/_abs/_sense calls, rhs, bounds).
* extern/filereaderlp/reader.cpp: the section keyword table `sectionkeywordmap`, and of
  Reader::readnexttoken the single-character tokens, the characters that discard the rest of the
  line (comment / line end), the blanks, the use of strtod for numbers and the delimiter set that
  ends an identifier; for every single-character token also the RawTokenType it is given (SINGLE_CHAR_KINDS).
* extern/filereaderlp/def.hpp: LP_KEYWORD_INF, LP_KEYWORD_FREE.
"""
import ast
import hashlib
import os
import re
import string
import sys


class Fail(Exception):
    pass


def need(cond, msg):
    if not cond:
        raise Fail(msg)


def read(build, rel, inputs):
    p = os.path.join(build, rel)
    need(os.path.exists(p), f"missing source file {rel}")
    data = open(p, "rb").read()
    inputs.append((p, hashlib.sha256(data).hexdigest()))
    return data.decode("utf-8")


def coq_text(s):
    return "[" + "; ".join(str(ord(c)) for c in s) + "]%N"


# ----------------------------------------------------------------------------
# lp.py

def eval_chars(node):
    """string.ascii_letters / string.digits / 'literal', joined by +"""
    if isinstance(node, ast.BinOp):
        need(isinstance(node.op, ast.Add), "character set is not built with +")
        return eval_chars(node.left) + eval_chars(node.right)
    if isinstance(node, ast.Constant) and isinstance(node.value, str):
        return node.value
    if isinstance(node, ast.Attribute) and isinstance(node.value, ast.Name) and node.value.id == "string":
        need(node.attr in ("ascii_letters", "digits"), f"unexpected string.{node.attr}")
        return getattr(string, node.attr)
    raise Fail("unexpected expression in a character set: " + ast.dump(node))


def module_charset(tree, name):
    found = [n for n in tree.body if isinstance(n, ast.Assign) and len(n.targets) == 1
             and isinstance(n.targets[0], ast.Name) and n.targets[0].id == name]
    need(len(found) == 1, f"expected exactly one assignment of {name}")
    v = found[0].value
    need(isinstance(v, ast.Call) and isinstance(v.func, ast.Name) and v.func.id == "set" and len(v.args) == 1
         and not v.keywords, f"{name} is not set(<expr>)")
    chars = eval_chars(v.args[0])
    return sorted(set(chars), key=ord)


def func(tree_or_class, name):
    found = [n for n in tree_or_class.body if isinstance(n, ast.FunctionDef) and n.name == name]
    need(len(found) == 1, f"expected exactly one def {name}")
    return found[0]


def lp_py(src):
    tree = ast.parse(src)
    out = {}
    out["valid"] = module_charset(tree, "LABEL_VALID_CHARS")
    out["invalid_first"] = module_charset(tree, "LABEL_INVALID_FIRST_CHARS")
    # _validate_label: isinstance str / len == 0 / len > N / all(c in VALID) / any(startswith(c) for c in INVALID_FIRST)
    vl = func(tree, "_validate_label")
    gts = [n for n in ast.walk(vl) if isinstance(n, ast.Compare) and len(n.ops) == 1 and isinstance(n.ops[0], ast.Gt)]
    need(len(gts) == 1, "_validate_label: expected exactly one `>` comparison")
    g = gts[0]
    need(ast.dump(g.left) == ast.dump(ast.parse("len(label)", mode="eval").body) and len(g.comparators) == 1
         and isinstance(g.comparators[0], ast.Constant) and isinstance(g.comparators[0].value, int),
         "_validate_label: the length test is not `len(label) > <int>`")
    out["max_len"] = g.comparators[0].value
    text = ast.unparse(vl)
    for frag in ("isinstance(label, str)", "not len(label)", "all((c in LABEL_VALID_CHARS for c in label))",
                 "any((label.startswith(c) for c in LABEL_INVALID_FIRST_CHARS))"):
        need(frag in text, f"_validate_label: missing test `{frag}`")
    need(len([n for n in ast.walk(vl) if isinstance(n, ast.If)]) == 5, "_validate_label: expected exactly five tests")
    # _WidthLimitedFile
    classes = [n for n in tree.body if isinstance(n, ast.ClassDef) and n.name == "_WidthLimitedFile"]
    need(len(classes) == 1, "class _WidthLimitedFile not found")
    cls = classes[0]
    tl = [n for n in cls.body if isinstance(n, ast.Assign) and len(n.targets) == 1 and isinstance(n.targets[0], ast.Name)
          and n.targets[0].id == "TARGET_LINE_LEN"]
    need(len(tl) == 1 and isinstance(tl[0].value, ast.Constant) and isinstance(tl[0].value.value, int),
         "TARGET_LINE_LEN is not an int literal")
    out["target"] = tl[0].value.value
    w = func(cls, "write")
    ifs = [n for n in w.body if isinstance(n, ast.If)]
    need(len(ifs) == 2, "_WidthLimitedFile.write: expected two top-level ifs")
    brk = ifs[0]
    need(ast.unparse(brk.test) == "self._line_len + pos > self.TARGET_LINE_LEN - 1",
         "_WidthLimitedFile.write: unexpected break condition " + ast.unparse(brk.test))
    need(len(brk.body) == 2 and not brk.orelse, "_WidthLimitedFile.write: unexpected break body")
    m = re.fullmatch(r"self\.fp\.write\((.+)\)", ast.unparse(brk.body[0]))
    need(m is not None, "_WidthLimitedFile.write: the break does not write a literal")
    out["break"] = ast.literal_eval(m.group(1))
    need(isinstance(out["break"], str), "break string is not a str")
    m = re.fullmatch(r"self\._line_len = (\d+)", ast.unparse(brk.body[1]))
    need(m is not None, "_WidthLimitedFile.write: the break does not reset _line_len to a literal")
    out["break_len"] = int(m.group(1))
    body = [b for b in w.body if not (isinstance(b, ast.Expr) and isinstance(b.value, ast.Constant))]   # drop the docstring
    need(len(body) == 4, "_WidthLimitedFile.write: expected try / if / write / if")
    need(ast.unparse(body[0]) == "try:\n    pos = s.index('\\n')\n    rpos = s.rindex('\\n')\nexcept ValueError:\n    pos = len(s)\n    rpos = None",
         "_WidthLimitedFile.write: unexpected computation of pos/rpos")
    need(body[1] is ifs[0] and ast.unparse(body[2]) == "self.fp.write(s)" and body[3] is ifs[1],
         "_WidthLimitedFile.write: unexpected statement order")
    need(ast.unparse(ifs[1]) == "if rpos is not None:\n    self._line_len = len(s) - 1 - rpos\nelse:\n    self._line_len += len(s)",
         "_WidthLimitedFile.write: unexpected update of _line_len")
    return out


# ----------------------------------------------------------------------------
# lp.py dump: the words of the output language

PLACEHOLDERS = {"_sign(bias)", "_abs(bias)", "var", "_abs(2 * bias)", "u", "v", "_sign(offset)", "_abs(offset)", "label",
                "_sense(constraint.sense)", "rhs", "cqm.lower_bound(v)", "cqm.upper_bound(v)", "section"}
HOLE = "\x00"


def writer_words(src, sym_src):
    tree = ast.parse(src)
    dump = func(tree, "dump")
    fixed, templates, holes = set(), set(), set()
    calls = [n for n in ast.walk(dump) if isinstance(n, ast.Call) and isinstance(n.func, ast.Attribute)
             and n.func.attr == "write" and isinstance(n.func.value, ast.Name) and n.func.value.id == "f"]
    need(len(calls) >= 20, "dump: fewer f.write calls than expected")
    for c in calls:
        need(len(c.args) == 1 and not c.keywords, "dump: f.write with other than one argument at line %d" % c.lineno)
        a = c.args[0]
        if isinstance(a, ast.Constant) and isinstance(a.value, str):
            pattern = a.value
        elif isinstance(a, ast.JoinedStr):
            pattern = ""
            for part in a.values:
                if isinstance(part, ast.Constant) and isinstance(part.value, str):
                    pattern += part.value
                elif isinstance(part, ast.FormattedValue):
                    need(part.conversion == -1 and part.format_spec is None,
                         "dump: formatted value with conversion/format at line %d" % c.lineno)
                    e = ast.unparse(part.value)
                    need(e in PLACEHOLDERS, f"dump: unexpected formatted value {{{e}}} at line {c.lineno}")
                    holes.add(e)
                    pattern += HOLE
                else:
                    raise Fail("dump: unexpected f-string part at line %d" % c.lineno)
        else:
            raise Fail("dump: f.write argument is neither a literal nor an f-string at line %d" % c.lineno)
        need(HOLE + HOLE not in pattern, "dump: two formatted values without a blank between them at line %d" % c.lineno)
        for w in pattern.split():
            if HOLE in w:
                need(w in (HOLE, HOLE + ":"), f"dump: literal glued to a formatted value: {w!r} at line {c.lineno}")
                templates.add(w)
            else:
                fixed.add(w)
    # the section names of the loop that writes the Binary / General lists
    loops = [n for n in ast.walk(dump) if isinstance(n, ast.For) and ast.unparse(n.target) == "(section, vartype_)"]
    need(len(loops) == 1 and isinstance(loops[0].iter, ast.Tuple), "dump: the section loop is not over a literal tuple")
    for el in loops[0].iter.elts:
        need(isinstance(el, ast.Tuple) and len(el.elts) == 2 and isinstance(el.elts[0], ast.Constant)
             and isinstance(el.elts[0].value, str) and len(el.elts[0].value.split()) == 1,
             "dump: unexpected element in the section loop")
        fixed.add(el.elts[0].value)
    # _sign, _sense, _abs
    need(ast.unparse(func(tree, "_sign").body[-1]) == "return '-' if bias < 0 else '+'", "_sign: unexpected body")
    fixed.update(["-", "+"])
    need(ast.unparse(func(tree, "_sense").body[-1]) == "return '=' if s.value == '==' else s.value", "_sense: unexpected body")
    sym = ast.parse(sym_src)
    sense = [n for n in sym.body if isinstance(n, ast.ClassDef) and n.name == "Sense"]
    need(len(sense) == 1, "sym.py: class Sense not found")
    vals = [n.value.value for n in sense[0].body if isinstance(n, ast.Assign) and isinstance(n.value, ast.Constant)
            and isinstance(n.value.value, str)]
    need(sorted(vals) == ["<=", "==", ">="], f"sym.py: unexpected Sense values {vals}")
    fixed.update(["=" if v == "==" else v for v in vals])
    need(ast.unparse(func(tree, "_abs").body[-1]) ==
         "return repr(abs(int(bias))) if int(bias) == bias else repr(abs(float(bias)))", "_abs: unexpected body")
    need(templates == {HOLE, HOLE + ":"}, "dump: unexpected set of word templates")
    return sorted(fixed), sorted(holes)


# ----------------------------------------------------------------------------
# reader.cpp / def.hpp

C_ESC = {"t": "\t", "n": "\n", "\\": "\\", "0": "\0", "'": "'", '"': '"', "r": "\r"}


def c_unescape(s):
    out, i = [], 0
    while i < len(s):
        if s[i] == "\\":
            need(i + 1 < len(s) and s[i + 1] in C_ESC, f"unknown C escape in {s!r}")
            out.append(C_ESC[s[i + 1]])
            i += 2
        else:
            out.append(s[i])
            i += 1
    return "".join(out)


def reader_cpp(src, defs):
    out = {}
    m = re.search(r"sectionkeywordmap\s*\{(.*?)\};", src, re.S)
    need(m is not None, "sectionkeywordmap not found")
    body = m.group(1)
    entries = re.findall(r'\{\s*"([^"]+)"\s*,\s*LpSectionKeyword::(\w+)\s*\}', body)
    need(entries and len(entries) == body.count('{"') == body.count("LpSectionKeyword::"), "sectionkeywordmap: unparsed entry")
    en = re.search(r"enum class LpSectionKeyword\s*\{(.*?)\};", src, re.S)
    need(en is not None, "enum LpSectionKeyword not found")
    kinds = [k.strip() for k in en.group(1).split(",") if k.strip()]
    need(all(k in kinds for _, k in entries), "sectionkeywordmap uses an unknown section")
    need(all(w == w.lower() for w, _ in entries), "section keywords are expected in lower case")
    need("tolower(svalue_lc)" in src and "parsesectionkeyword(svalue_lc)" in src,
         "the reader no longer lower-cases a word before the keyword lookup")
    out["kinds"] = kinds
    out["keywords"] = entries
    # readnexttoken
    m = re.search(r"bool Reader::readnexttoken\(RawToken& t\) \{(.*?)\n\}\s*(?:\n|\Z)", src, re.S)
    need(m is not None, "Reader::readnexttoken not found")
    fn = m.group(1)
    sw = re.search(r"switch \(nextchar\) \{(.*?)\n  \}\n", fn, re.S)
    need(sw is not None, "switch (nextchar) not found")
    groups = re.findall(r"((?:\s*(?://[^\n]*\n\s*)*case '(?:\\.|[^'])':(?:\s*//[^\n]*)?\n)+)(.*?)(?=\n\s*(?://[^\n]*\n\s*)*case '|\Z)", sw.group(1), re.S)
    single, skip, blank, empty, single_kinds = [], [], [], [], []
    seen = 0
    for labels, stmts in groups:
        chars = [c_unescape(c) for c in re.findall(r"case '((?:\\.|[^'])+)':", labels)]
        seen += len(chars)
        code = re.sub(r"//[^\n]*", "", stmts)
        code = " ".join(code.split())
        mk = re.fullmatch(r"t = RawTokenType::(\w+); this->linebufferpos\+\+; return true;", code)
        if mk:
            single += chars
            single_kinds += [(c, mk.group(1)) for c in chars]
        elif code == "this->linebufferpos = this->linebuffer.size(); return false;":
            skip += chars
        elif code == "this->linebufferpos++; return false;":
            blank += chars
        elif code == "assert(this->linebufferpos == this->linebuffer.size()); return false;":
            empty += chars
        else:
            raise Fail(f"readnexttoken: unrecognised action for {chars!r}: {code}")
    need(seen == len(re.findall(r"case '", sw.group(1))), "readnexttoken: a case label was not parsed")
    need(empty == ["\0"], "readnexttoken: unexpected empty-line case")
    out["single"], out["skip"], out["blank"] = single, skip, blank
    need(all(len(c) == 1 for c, _ in single_kinds), "readnexttoken: a single-character token is not one character")
    out["single_kinds"] = single_kinds
    after = fn[sw.end():]
    need(len(re.findall(r"strtod\(startptr, &endptr\)", after)) == 1 and "if (endptr != startptr)" in after,
         "readnexttoken: numbers are no longer recognised by strtod")
    d = re.findall(r'find_first_of\("((?:\\.|[^"])*)",\s*this->linebufferpos\)', after)
    need(len(d) == 1, "readnexttoken: identifier delimiter set not found")
    out["delims"] = c_unescape(d[0])
    need(after.index("strtod(") < after.index("find_first_of("), "readnexttoken: identifiers are tried before numbers")
    # def.hpp
    for name in ("INF", "FREE"):
        m = re.search(r"const std::string LP_KEYWORD_%s\[\] = \{([^}]*)\};" % name, defs)
        n = re.search(r"const unsigned int LP_KEYWORD_%s_N = (\d+);" % name, defs)
        need(m is not None and n is not None, f"LP_KEYWORD_{name} not found")
        words = re.findall(r'"([^"]*)"', m.group(1))
        need(len(words) == int(n.group(1)) and all(w == w.lower() for w in words), f"LP_KEYWORD_{name}: inconsistent table")
        out[name.lower()] = words
    return out


def main():
    build, outdir = sys.argv[1], sys.argv[2]
    inputs = []
    try:
        lp_src = read(build, "dimod/lp.py", inputs)
        py = lp_py(lp_src)
        words, holes = writer_words(lp_src, read(build, "dimod/sym.py", inputs))
        cpp = reader_cpp(read(build, "extern/filereaderlp/reader.cpp", inputs).replace("\r\n", "\n"),
                         read(build, "extern/filereaderlp/def.hpp", inputs).replace("\r\n", "\n"))
    except Fail as e:
        print("lp_grammar.py: " + str(e))
        sys.exit(1)
    L = ["(* GENERATED by translators/lp_grammar.py - do not edit. *)",
         "From Coq Require Import List NArith.", "Import ListNotations.", "",
         "(* dimod/lp.py *)",
         f"Definition LABEL_VALID_CHARS : list N := {coq_text(py['valid'])}.",
         f"Definition LABEL_INVALID_FIRST_CHARS : list N := {coq_text(py['invalid_first'])}.",
         f"Definition LABEL_MAX_LEN : nat := {py['max_len']}.",
         f"Definition TARGET_LINE_LEN : nat := {py['target']}.",
         f"Definition WRAP_BREAK : list N := {coq_text(py['break'])}.",
         f"Definition WRAP_BREAK_LINE_LEN : nat := {py['break_len']}.",
         "(* the fixed words of dump's output: literal pieces of its f.write calls, _sign, _sense, section names;",
         "   every other word is a formatted value (" + ", ".join(holes) + "), a label possibly followed by ':' *)",
         "Definition WRITER_FIXED_WORDS : list (list N) := [" + "; ".join(coq_text(w) for w in words) + "].", "",
         "(* extern/filereaderlp/reader.cpp, def.hpp *)",
         "Inductive lpsection := " + " | ".join("SEC_" + k for k in cpp["kinds"]) + ".",
         "Definition SECTION_KEYWORDS : list (list N * lpsection) := [",
         ";\n".join(f"  ({coq_text(w)}, SEC_{k})  (* {w} *)" for w, k in cpp["keywords"]) if False else
         ";\n".join(f"  ({coq_text(w)}, SEC_{k})" for w, k in cpp["keywords"]),
         "].",
         f"Definition KEYWORD_INF : list (list N) := [{'; '.join(coq_text(w) for w in cpp['inf'])}].",
         f"Definition KEYWORD_FREE : list (list N) := [{'; '.join(coq_text(w) for w in cpp['free'])}].",
         f"Definition SINGLE_CHAR_TOKENS : list N := {coq_text(cpp['single'])}.",
         "(* the raw token each single character stands for (the switch of readnexttoken) *)",
         "Inductive rawkind := " + " | ".join("RK_" + k for k in dict.fromkeys(k for _, k in cpp["single_kinds"])) + ".",
         "Definition SINGLE_CHAR_KINDS : list (N * rawkind) := ["
         + "; ".join(f"({ord(c)}, RK_{k})" for c, k in cpp["single_kinds"]) + "]%N.",
         f"Definition SKIP_LINE_CHARS : list N := {coq_text(cpp['skip'])}.",
         f"Definition BLANK_CHARS : list N := {coq_text(cpp['blank'])}.",
         f"Definition IDENT_DELIMS : list N := {coq_text(cpp['delims'])}.",
         "(* numbers are recognised by C strtod before identifiers are tried *)",
         "Definition NUMBERS_BY_STRTOD : bool := true.", ""]
    os.makedirs(outdir, exist_ok=True)
    with open(os.path.join(outdir, "Gen_LP.v"), "w") as fh:
        fh.write("\n".join(L))
    for p, h in inputs:
        print(f"INPUT {p} sha256={h}")


if __name__ == "__main__":
    main()
