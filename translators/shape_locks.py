#!/venv/bin/python
"""Fail-closed translator (shape locks): dimod/generators/{quadratic_assignment,magic_square,gates,anti_crossing}.py -> coq/theories/Gen/Gen_Shapes.v

usage: shape_locks.py <build_dir> <out_dir>

Model/Qap.v, Model/Magic.v and Model/MultCircuit.v are hand-written mirrors of quadratic_assignment, magic_square and
multiplication_circuit (the wiring and naming functions); anti_crossing_clique / anti_crossing_loops are
monitored by the worker against their docstrings.  This translator compares each of these functions statement
by statement with the shape recorded below when the mirror was written (docstrings and annotations ignored, error
messages ignored, every integer literal a hole) and emits the literals in source order; Proofs/ShapeLocks.v proves
them equal to the values the mirrors were written for.  Any change of these functions therefore breaks either the
translator (shape) or the theorem (literal), and the mirror has to be looked at again.
"""
import ast
import copy
import hashlib
import os
import sys

SHAPES = {'quadratic_assignment': ('quadratic_assignment.py', ['distance_matrix', 'flow_matrix'], 'distance_matrix = np.atleast_2d(np.asarray(distance_matrix))\nflow_matrix = np.atleast_2d(np.asarray(flow_matrix))\nif distance_matrix.shape != flow_matrix.shape:\n    raise ValueError("\'distance_matrix\' and \'flow_matrix\' must have the same shape")\nif distance_matrix.shape[0] != distance_matrix.shape[1]:\n    raise ValueError("\'distance_matrix\' must be square")\nif distance_matrix.ndim != 2:\n    raise ValueError("\'distance_matrix\' must be 2-dimensional")\nnum_locations = distance_matrix.shape[0]\nmodel = ConstrainedQuadraticModel()\nobj = BinaryQuadraticModel(vartype=\'BINARY\')\nx = {(i, j): obj.add_variable(f\'x_{i}_{j}\') for i in range(num_locations) for j in range(num_locations)}\nfor i, j, k, l in product(range(num_locations), repeat=4):\n    if (i, j) != (k, l):\n        obj.set_quadratic(x[i, j], x[k, l], flow_matrix[i][k] * distance_matrix[j][l] + flow_matrix[k][i] * distance_matrix[j][l])\nmodel.set_objective(obj)\nfor i in range(num_locations):\n    constraint_vars = [x[i, j] for j in range(num_locations)]\n    model.add_discrete(constraint_vars, label=f\'discrete_constraint_{i}\')\nfor j in range(num_locations):\n    constraint = [(x[i, j], 1) for i in range(num_locations)] + [(-1,)]\n    model.add_constraint(constraint, sense=\'==\', label=f\'facility_constraint_{j}\')\nreturn model'), 'magic_square': ('magic_square.py', ['size', 'power'], "if power not in [1, 2]:\n    raise ValueError(f'power must be either 1 or 2, recieved {power}')\nvariables = {}\nfor i, j in product(range(size), range(size)):\n    variables[i, j] = Integer(f'var_{i}_{j}', lower_bound=1)\nconstraint_sum = Integer('sum', lower_bound=1)\ncqm = ConstrainedQuadraticModel()\nfor i in range(size):\n    if power == 1:\n        cqm.add_constraint_from_comparison(quicksum((variables[i, j] for j in range(size))) - constraint_sum == 0, label=f'row_{i}')\n        cqm.add_constraint_from_comparison(quicksum((variables[j, i] for j in range(size))) - constraint_sum == 0, label=f'col_{i}')\n    else:\n        cqm.add_constraint_from_comparison(quicksum((variables[i, j] ** power for j in range(size))) - constraint_sum == 0, label=f'row_{i}')\n        cqm.add_constraint_from_comparison(quicksum((variables[j, i] ** power for j in range(size))) - constraint_sum == 0, label=f'col_{i}')\nif power == 1:\n    cqm.add_constraint_from_comparison(quicksum((variables[i, i] for i in range(size))) - constraint_sum == 0, label='diagonal')\n    cqm.add_constraint_from_comparison(quicksum((variables[i, size - 1 - i] for i in range(size))) - constraint_sum == 0, label='antidiagonal')\nelse:\n    cqm.add_constraint_from_comparison(quicksum((variables[i, i] ** power for i in range(size))) - constraint_sum == 0, label='diagonal')\n    cqm.add_constraint_from_comparison(quicksum((variables[i, size - 1 - i] ** power for i in range(size))) - constraint_sum == 0, label='antidiagonal')\ncqm.add_constraint_from_comparison(quicksum((variables[i, j] ** 2 + variables[k, l] ** 2 - 2 * variables[i, j] * variables[k, l] for i, j, k, l in product(range(size), repeat=4) if k > i and l == j or l > j)) >= (size ** 4 - size ** 2) / 2, label='uniqueness')\nreturn cqm"), 'multiplication_circuit': ('gates.py', ['num_arg1_bits', 'num_arg2_bits'], "if num_arg1_bits < 1:\n    raise ValueError('num_arg1_bits must be a positive integer')\nnum_arg2_bits = num_arg2_bits or num_arg1_bits\nif num_arg2_bits < 1:\n    raise ValueError('the arg2 must have a positive size')\nnum_product_bits = num_arg1_bits + num_arg2_bits\ndef AND(i, j):\n    return f'and{i},{j}' if i or j else 'p0'\ndef SUM(i, j):\n    return f'p{i}' if j == 0 else f'p{i + j}' if i == num_arg1_bits - 1 else f'sum{i},{j}'\ndef CARRY(i, j):\n    return f'p{num_product_bits - 1}' if i + j == num_product_bits - 2 else f'carry{i},{j}'\ndef gate(i, j):\n    inputs = [AND(i, j)]\n    bqm = and_gate(f'a{i}', f'b{j}', inputs[0])\n    if i > 0:\n        if j < num_arg2_bits - 1:\n            inputs.append(SUM(i - 1, j + 1) if i > 1 else AND(0, j + 1))\n        elif i > 1:\n            inputs.append(CARRY(i - 1, j))\n        if j > 0:\n            inputs.append(CARRY(i, j - 1))\n    l = len(inputs)\n    if l > 1:\n        outputs = (SUM(i, j), CARRY(i, j))\n        bqm.update((halfadder_gate if l == 2 else fulladder_gate)(*inputs, *outputs))\n    return bqm\nreturn quicksum(starmap(gate, product(range(num_arg1_bits), range(num_arg2_bits))))"), 'anti_crossing_clique': ('anti_crossing.py', ['num_variables'], "if num_variables % 2 or num_variables < 6:\n    raise ValueError('num_variables must be an even number >= 6')\nbqm = BinaryQuadraticModel(Vartype.SPIN)\nhf = int(num_variables / 2)\nfor n in range(hf):\n    for m in range(n + 1, hf):\n        bqm.add_quadratic(n, m, -1)\n    bqm.add_quadratic(n, n + hf, -1)\n    bqm.add_linear(n, 1)\n    bqm.add_linear(n + hf, -1)\nbqm.set_linear(1, 0)\nreturn bqm"), 'anti_crossing_loops': ('anti_crossing.py', ['num_variables'], "if num_variables % 2 or num_variables < 8:\n    raise ValueError('num_variables must be an even number >= 8')\nbqm = BinaryQuadraticModel(Vartype.SPIN)\nhf = int(num_variables / 4)\nfor n in range(hf):\n    if n % 2 == 1:\n        bqm.set_quadratic(n, n + hf, -1)\n    bqm.set_quadratic(n, (n + 1) % hf, -1)\n    bqm.set_quadratic(n + hf, (n + 1) % hf + hf, -1)\n    bqm.set_quadratic(n, n + 2 * hf, -1)\n    bqm.set_quadratic(n + hf, n + 3 * hf, -1)\n    bqm.add_linear(n, 1)\n    bqm.add_linear(n + hf, 1)\n    bqm.add_linear(n + 2 * hf, -1)\n    bqm.add_linear(n + 3 * hf, -1)\nbqm.set_linear(0, 0)\nbqm.set_linear(hf, 0)\nreturn bqm")}


class Bad(Exception):
    def __init__(self, node, why):
        self.node, self.why = node, why


class Holes(ast.NodeTransformer):
    def __init__(self):
        self.values = []

    def visit_Constant(self, n):
        if type(n.value) is int:
            self.values.append(n.value)
            return ast.copy_location(ast.Name(id="NUM", ctx=ast.Load()), n)
        return n

    def visit_Raise(self, n):          # the text of an error message is not part of the construction
        return ast.copy_location(ast.Raise(exc=ast.Name(id="ERR", ctx=ast.Load()), cause=None), n)


def normal(stmts):
    h = Holes()
    return [ast.dump(h.visit(copy.deepcopy(s))) for s in stmts], h.values


def main():
    build, out = sys.argv[1], sys.argv[2]
    lits = {}
    digest = hashlib.sha256()
    for name, (fname, params, shape) in SHAPES.items():
        src = os.path.join(build, "dimod", "generators", fname)
        data = open(src, "rb").read()
        print("INPUT", src, hashlib.sha256(data).hexdigest())
        digest.update(data)
        text = data.decode("utf-8")
        lines = text.splitlines()
        tree = ast.parse(text)
        try:
            fns = [n for n in tree.body if isinstance(n, ast.FunctionDef) and n.name == name]
            if len(fns) != 1:
                raise Bad(tree, f"exactly one function {name} expected")
            fn = fns[0]
            if [a.arg for a in fn.args.args] != params or fn.args.vararg or fn.args.kwarg or fn.args.kwonlyargs \
                    or fn.decorator_list:
                raise Bad(fn, f"signature of {name} changed")
            body = fn.body
            if body and isinstance(body[0], ast.Expr) and isinstance(body[0].value, ast.Constant) \
                    and isinstance(body[0].value.value, str):
                body = body[1:]
            got, vals = normal(body)
            want, _ = normal(ast.parse(shape).body)
            if len(got) != len(want):
                raise Bad(fn, f"{name}: {len(got)} statements, expected {len(want)}")
            for st, g, w in zip(body, got, want):
                if g != w:
                    raise Bad(st, f"{name}: statement shape changed since the Coq mirror was written")
            lits[name] = vals
        except Bad as e:
            ln = getattr(e.node, "lineno", 0)
            print(f"shape_locks: {src}:{ln}: {e.why}")
            if ln:
                print("    " + lines[ln - 1].strip())
            return 2
    os.makedirs(out, exist_ok=True)
    body = ["(* GENERATED by translators/shape_locks.py - do not edit.",
            f"   sources sha256 {digest.hexdigest()} *)",
            "From Coq Require Import List ZArith.", "Import ListNotations.", ""]
    for name, vals in lits.items():
        body.append(f"Definition {name}_literals : list Z := [" + "; ".join(f"({v})%Z" for v in vals) + "].")
    body.append("")
    new = "\n".join(body)
    dst = os.path.join(out, "Gen_Shapes.v")
    if not os.path.exists(dst) or open(dst).read() != new:
        with open(dst, "w") as fh:
            fh.write(new)
    return 0


if __name__ == "__main__":
    sys.exit(main())
