#!/venv/bin/python
"""Regenerates coq/theories/Gen/Gen_CqmLegacy.v: the SHAPE of ConstrainedQuadraticModel._from_file_legacy (the reader of
CQM serialization versions 1.0 - 1.3) that Model/CqmFile.v is parameterised by.  Fail-closed.

    python cqm_legacy_reader.py <build_dir> <out_dir>

Recognised shape of constrained.py (anything else aborts with exit status 1, naming the place):
* ConstrainedQuadraticModel.from_file dispatches `if header_info.version < (2, 0): return cls._from_file_legacy(...)`
* _from_file_legacy: `cqm = cls()`, then one `with zipfile.ZipFile(file_like, mode='r') as zf:` block whose top-level
  statements are, in SOME order (the order is what is generated):
      cqm.set_objective(load(zf.read("objective")))                                   -> LSetObjective
      constraint_labels = set()                                                       (ignored)
      for arch in zf.namelist(): match = re.match(<REGEX>, arch) ... add(match.group(1))   (REGEX is generated)
      for constraint in constraint_labels: ... cqm.add_constraint(lhs, rhs=..., ...)  -> LConstraints
  inside the constraint loop every `zf.read(f"constraints/{constraint}/<leaf>")`: leaves read outside a try are
  REQUIRED (KeyError propagates), leaves read inside `try: ... except KeyError:` are OPTIONAL
* label = deserialize_variable(json.loads(constraint)); `if discrete: cqm.discrete.add(label)`
"""
import ast
import hashlib
import os
import re
import sys

PROPERTIES = ["C09"]


class Fail(Exception):
    pass


def need(c, msg):
    if not c:
        raise Fail(msg)


def coq_str(s):
    return '"' + s.replace('"', '""') + '"'


def main(build, out_dir):
    rel = "dimod/constrained/constrained.py"
    p = os.path.join(build, rel)
    need(os.path.exists(p), f"missing source file {rel}")
    data = open(p, "rb").read()
    tree = ast.parse(data.decode("utf-8"))
    cls = [n for n in tree.body if isinstance(n, ast.ClassDef) and n.name == "ConstrainedQuadraticModel"]
    need(len(cls) == 1, "class ConstrainedQuadraticModel not found")
    meth = {f.name: f for f in cls[0].body if isinstance(f, ast.FunctionDef)}
    need("_from_file_legacy" in meth and "from_file" in meth, "from_file / _from_file_legacy not found")

    # ---- dispatch
    ff = meth["from_file"]
    disp = [n for n in ast.walk(ff) if isinstance(n, ast.If) and "_from_file_legacy" in ast.unparse(n.body)]
    need(len(disp) == 1 and ast.unparse(disp[0].test) == "header_info.version < (2, 0)"
         and ast.unparse(disp[0].body[0]) == "return cls._from_file_legacy(file_like, header_info, check_header=check_header)",
         "from_file: dispatch to _from_file_legacy changed")

    # ---- the reader
    fl = meth["_from_file_legacy"]
    body = [s for s in fl.body if not (isinstance(s, ast.Expr) and isinstance(s.value, ast.Constant))]
    need(ast.unparse(body[0]) == "cqm = cls()", "_from_file_legacy: does not start with `cqm = cls()`")
    withs = [s for s in body if isinstance(s, ast.With)]
    need(len(withs) == 1 and ast.unparse(withs[0].items[0]) == "zipfile.ZipFile(file_like, mode='r') as zf",
         "_from_file_legacy: expected exactly one `with zipfile.ZipFile(file_like, mode='r') as zf:` block")
    # nothing outside the with block may touch the model's content
    for s in body[1:]:
        if s is withs[0]:
            continue
        txt = ast.unparse(s)
        need(not re.search(r"cqm\.(set_objective|add_constraint|add_variable|discrete|relabel)", txt),
             "_from_file_legacy: the model is modified outside the zip block: " + txt[:80])
    steps, regex, leaves = [], None, None
    for s in withs[0].body:
        txt = ast.unparse(s)
        if txt == "cqm.set_objective(load(zf.read('objective')))":
            steps.append("LSetObjective")
        elif txt == "constraint_labels = set()":
            pass
        elif isinstance(s, ast.For) and ast.unparse(s.iter) == "zf.namelist()":
            m = [n for n in ast.walk(s) if isinstance(n, ast.Call) and ast.unparse(n.func) == "re.match"]
            need(len(m) == 1 and isinstance(m[0].args[0], ast.Constant) and ast.unparse(m[0].args[1]) == ast.unparse(s.target),
                 "_from_file_legacy: member-name loop: re.match call not recognised")
            regex = m[0].args[0].value
            need("constraint_labels.add(match.group(1))" in txt, "_from_file_legacy: member-name loop does not add match.group(1)")
        elif isinstance(s, ast.For) and ast.unparse(s.iter) == "constraint_labels" and ast.unparse(s.target) == "constraint":
            steps.append("LConstraints")
            need(len([n for n in ast.walk(s) if isinstance(n, ast.Call) and ast.unparse(n.func) == "cqm.add_constraint"]) == 1,
                 "_from_file_legacy: constraint loop: expected exactly one cqm.add_constraint call")
            need("cqm.add_constraint(lhs, rhs=rhs, sense=sense, label=label, weight=weight, penalty=penalty, copy=False)" in txt,
                 "_from_file_legacy: arguments of cqm.add_constraint changed")
            need("label = deserialize_variable(json.loads(constraint))" in txt, "_from_file_legacy: label decoding changed")
            need("lhs = load(zf.read(f'constraints/{constraint}/lhs'))" in txt, "_from_file_legacy: lhs loading changed")
            need(re.search(r"if discrete:\s+cqm\.discrete\.add\(label\)", txt), "_from_file_legacy: discrete marking changed")
            need("discrete = any(zf.read(f'constraints/{constraint}/discrete'))" in txt, "_from_file_legacy: discrete flag changed")
            tries = [n for n in s.body if isinstance(n, ast.Try)]
            need(len(tries) == 1 and len(tries[0].handlers) == 1 and ast.unparse(tries[0].handlers[0].type) == "KeyError",
                 "_from_file_legacy: expected one try/except KeyError in the constraint loop")
            in_try = set(id(n) for n in ast.walk(tries[0]))
            req, opt = [], []
            for n in ast.walk(s):
                if isinstance(n, ast.Call) and ast.unparse(n.func) == "zf.read":
                    a = n.args[0]
                    need(isinstance(a, ast.JoinedStr), "_from_file_legacy: zf.read argument is not an f-string: " + ast.unparse(a))
                    mm = re.fullmatch(r"f'constraints/\{constraint\}/(\w+)'", ast.unparse(a))
                    need(mm, "_from_file_legacy: member name not recognised: " + ast.unparse(a))
                    (opt if id(n) in in_try else req).append(mm.group(1))
            leaves = (sorted(req), sorted(opt))
        else:
            raise Fail("_from_file_legacy: unrecognised statement in the zip block: " + txt[:100])
    need(sorted(steps) == ["LConstraints", "LSetObjective"], f"_from_file_legacy: steps found: {steps}")
    need(regex is not None and leaves is not None, "_from_file_legacy: member-name loop or constraint loop missing")

    text = ("(* GENERATED by translators/cqm_legacy_reader.py from dimod/constrained/constrained.py - do not edit. *)\n"
            "From Coq Require Import List String.\nImport ListNotations.\nLocal Open Scope string_scope.\n\n"
            "Inductive lstep := LSetObjective | LConstraints.\n\n"
            "(* top-level statements of the zip block of _from_file_legacy that add variables, in source order *)\n"
            f"Definition LEGACY_STEPS : list lstep := [{'; '.join(steps)}].\n"
            f"Definition LEGACY_DIR_REGEX : string := {coq_str(regex)}.\n"
            f"Definition LEGACY_REQUIRED : list string := [{'; '.join(coq_str(x) for x in leaves[0])}].\n"
            f"Definition LEGACY_OPTIONAL : list string := [{'; '.join(coq_str(x) for x in leaves[1])}].\n")
    os.makedirs(out_dir, exist_ok=True)
    outp = os.path.join(out_dir, "Gen_CqmLegacy.v")
    if not os.path.exists(outp) or open(outp).read() != text:
        with open(outp, "w") as fh:
            fh.write(text)
    print(f"INPUT {p} {hashlib.sha256(data).hexdigest()}")


if __name__ == "__main__":
    try:
        main(sys.argv[1], sys.argv[2])
    except Fail as e:
        print("cqm_legacy_reader: " + str(e))
        sys.exit(1)
