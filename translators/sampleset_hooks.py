#!/venv/bin/python
"""Fail-closed translator: the deferred-result (future) hooks of dimod/sampleset.py
-> coq/theories/Gen/Gen_Hooks.v

Reads SampleSet.from_future, resolve, relabel_variables and the head of change_vartype and demands exactly the
shapes mirrored by coq/theories/Model/Alias.v:

  from_future:        default hook `return future.result()`
  resolve:            `samples = self._result_hook(self._future)` then
                      `self.__init__(samples.record, samples.variables, samples.info, samples.vartype)`  (the record is SHARED)
  relabel_variables:  done = self.done()
                      if inplace and done:  self.variables._relabel(mapping); return self
                      elif done:            new = self.copy(); new._info = copy.deepcopy(new.info);
                                            return new.relabel_variables(mapping, inplace=True)
                      elif inplace:         mapping = dict(mapping); old_hook = self._result_hook
                                            def new_hook(future): sampleset = old_hook(future); sampleset.resolve();
                                                                  return sampleset.relabel_variables(mapping, inplace=<A>)
                                            self._result_hook = new_hook; return self
                      else:                 mapping = dict(mapping)
                                            def hook(sampleset): sampleset.resolve();
                                                                 return sampleset.relabel_variables(mapping, inplace=<B>)
                                            return self.from_future(self, hook)
  change_vartype:     if not inplace: new = self.copy(); new._info = copy.deepcopy(new.info);
                                      return new.change_vartype(vartype, energy_offset, inplace=True)
                      if not self.done(): def hook(sampleset): sampleset.resolve();
                                                               return sampleset.change_vartype(vartype, energy_offset)   (inplace = its default <C>)
                                          return self.from_future(self, hook)

The constants <A>, <B>, <C> (and the defaults of the two `inplace` parameters) are extracted and emitted; every other
deviation is an error naming the line.

usage: sampleset_hooks.py <build_dir> <out_dir>
"""
import ast
import hashlib
import os
import re
import sys

PROPERTIES = ["C14", "C19"]


class Bad(Exception):
    pass


def norm(node):
    return re.sub(r"\s+", "", ast.unparse(node))


def expect(cond, node, what, where):
    if not cond:
        txt = ast.unparse(node)[:140] if isinstance(node, ast.AST) else str(node)
        raise Bad(f"{where} line {getattr(node, 'lineno', '?')}: expected {what}, found `{txt}`")


def body_nodoc(fn):
    b = list(fn.body)
    if b and isinstance(b[0], ast.Expr) and isinstance(getattr(b[0], "value", None), ast.Constant) and isinstance(b[0].value.value, str):
        b = b[1:]
    return b


def bool_const(node, where):
    expect(isinstance(node, ast.Constant) and isinstance(node.value, bool), node, "a literal True/False", where)
    return node.value


def default_of(fn, name, where):
    args = fn.args.args
    defaults = [None] * (len(args) - len(fn.args.defaults)) + list(fn.args.defaults)
    for a, d in zip(args, defaults):
        if a.arg == name:
            expect(d is not None, fn, f"a default for `{name}`", where)
            return bool_const(d, where)
    raise Bad(f"{where}: no parameter `{name}`")


def hook_def(node, argname, inner_call, where):
    """def <name>(<argname>): [<pre>;] sampleset.resolve(); return sampleset.<inner_call>(...)  -> the Call node"""
    expect(isinstance(node, ast.FunctionDef) and [a.arg for a in node.args.args] == [argname], node,
           f"a hook `def ...({argname})`", where)
    return node


def main():
    build, out = sys.argv[1], sys.argv[2]
    path = os.path.join(build, "dimod", "sampleset.py")
    src = open(path).read()
    print("INPUT %s %s" % (path, hashlib.sha256(src.encode()).hexdigest()))
    tree = ast.parse(src)
    cls = [n for n in tree.body if isinstance(n, ast.ClassDef) and n.name == "SampleSet"]
    if len(cls) != 1:
        raise Bad("class SampleSet not found (or defined twice)")
    meth = {}
    for n in cls[0].body:
        if isinstance(n, ast.FunctionDef):
            if n.name in meth:
                raise Bad(f"SampleSet.{n.name} defined twice")
            meth[n.name] = n
    for m in ("from_future", "resolve", "relabel_variables", "change_vartype", "copy", "done"):
        if m not in meth:
            raise Bad(f"SampleSet.{m} not found")

    # ---- from_future
    w = "SampleSet.from_future"
    b = body_nodoc(meth["from_future"])
    expect(len(b) == 5, meth["from_future"], "five statements", w)
    expect(norm(b[0]) == "obj=cls.__new__(cls)" and norm(b[1]) == "obj._future=future", b[0], "`obj = cls.__new__(cls); obj._future = future`", w)
    iff = b[2]
    expect(isinstance(iff, ast.If) and norm(iff.test) == "result_hookisNone" and len(iff.body) == 1, iff, "`if result_hook is None: def result_hook(future): ...`", w)
    dh = iff.body[0]
    expect(isinstance(dh, ast.FunctionDef) and dh.name == "result_hook" and [a.arg for a in dh.args.args] == ["future"]
           and len(dh.body) == 1 and norm(dh.body[0]) == "returnfuture.result()", dh, "`def result_hook(future): return future.result()`", w)
    expect(norm(b[3]) == "obj._result_hook=result_hook" and norm(b[4]) == "returnobj", b[3], "`obj._result_hook = result_hook; return obj`", w)

    # ---- resolve
    w = "SampleSet.resolve"
    b = body_nodoc(meth["resolve"])
    expect(len(b) == 1 and isinstance(b[0], ast.If) and norm(b[0].test) == "hasattr(self,'_future')" and not b[0].orelse, meth["resolve"],
           "a single `if hasattr(self, '_future'):`", w)
    rb = b[0].body
    expect(len(rb) == 5, b[0], "five statements in the body", w)
    expect(norm(rb[0]) == "samples=self._result_hook(self._future)", rb[0], "`samples = self._result_hook(self._future)`", w)
    expect(norm(rb[1]) == "self.__init__(samples.record,samples.variables,samples.info,samples.vartype)", rb[1],
           "`self.__init__(samples.record, samples.variables, samples.info, samples.vartype)`", w)
    expect(isinstance(rb[2], ast.If) and "wait_id" in norm(rb[2].test), rb[2], "the wait_id caching block", w)
    expect(norm(rb[3]) == "delself._future" and norm(rb[4]) == "delself._result_hook", rb[3], "`del self._future; del self._result_hook`", w)

    # ---- copy
    w = "SampleSet.copy"
    b = body_nodoc(meth["copy"])
    expect(len(b) == 1 and norm(b[0]) == "returnself.__class__(self.record.copy(),self.variables,self.info.copy(),self.vartype)", meth["copy"],
           "`return self.__class__(self.record.copy(), self.variables, self.info.copy(), self.vartype)`", w)

    # ---- relabel_variables
    w = "SampleSet.relabel_variables"
    fn = meth["relabel_variables"]
    expect([a.arg for a in fn.args.args] == ["self", "mapping", "inplace"], fn, "parameters (self, mapping, inplace)", w)
    relabel_default = default_of(fn, "inplace", w)
    # the resolved branches use the mapping immediately; neither branch may assign to it elsewhere
    assigns = [n for n in ast.walk(fn) if isinstance(n, (ast.Assign, ast.AugAssign, ast.AnnAssign))
               and any(isinstance(t, ast.Name) and t.id == "mapping" for t in (n.targets if isinstance(n, ast.Assign) else [n.target]))]
    expect(len(assigns) == 2, fn, "exactly the two `mapping = dict(mapping)` assignments", w)
    b = body_nodoc(fn)
    expect(len(b) == 2 and norm(b[0]) == "done=self.done()" and isinstance(b[1], ast.If), fn, "`done = self.done()` and one if/elif chain", w)
    i1 = b[1]
    expect(norm(i1.test) == "inplaceanddone" and [norm(x) for x in i1.body] == ["self.variables._relabel(mapping)", "returnself"], i1,
           "`if inplace and done: self.variables._relabel(mapping); return self`", w)
    expect(len(i1.orelse) == 1 and isinstance(i1.orelse[0], ast.If), i1, "an elif", w)
    i2 = i1.orelse[0]
    expect(norm(i2.test) == "done" and [norm(x) for x in i2.body] == ["new=self.copy()", "new._info=copy.deepcopy(new.info)",
                                                                      "returnnew.relabel_variables(mapping,inplace=True)"], i2,
           "`elif done: new = self.copy(); new._info = copy.deepcopy(new.info); return new.relabel_variables(mapping, inplace=True)`", w)
    expect(len(i2.orelse) == 1 and isinstance(i2.orelse[0], ast.If), i2, "an elif", w)
    i3 = i2.orelse[0]
    expect(norm(i3.test) == "inplace" and len(i3.body) == 5, i3, "`elif inplace:` with five statements", w)
    # the mapping is copied at call time, so the hook cannot see later changes to the caller's dict
    expect(norm(i3.body[0]) == "mapping=dict(mapping)", i3.body[0], "`mapping = dict(mapping)`", w)
    i3.body = i3.body[1:]
    expect(norm(i3.body[0]) == "old_hook=self._result_hook", i3.body[0], "`old_hook = self._result_hook`", w)
    nh = hook_def(i3.body[1], "future", "relabel_variables", w)
    expect(nh.name == "new_hook" and len(nh.body) == 3 and norm(nh.body[0]) == "sampleset=old_hook(future)"
           and norm(nh.body[1]) == "sampleset.resolve()", nh, "`sampleset = old_hook(future); sampleset.resolve(); return ...`", w)
    r = nh.body[2]
    expect(isinstance(r, ast.Return) and isinstance(r.value, ast.Call) and norm(r.value.func) == "sampleset.relabel_variables"
           and [norm(a) for a in r.value.args] == ["mapping"] and [k.arg for k in r.value.keywords] == ["inplace"], r,
           "`return sampleset.relabel_variables(mapping, inplace=<const>)`", w)
    A = bool_const(r.value.keywords[0].value, w)
    expect(norm(i3.body[2]) == "self._result_hook=new_hook" and norm(i3.body[3]) == "returnself", i3.body[2],
           "`self._result_hook = new_hook; return self`", w)
    e = i3.orelse
    expect(len(e) == 3 and norm(e[0]) == "mapping=dict(mapping)", i3, "an else branch `mapping = dict(mapping)`, a hook and a return", w)
    e = e[1:]
    hk = hook_def(e[0], "sampleset", "relabel_variables", w)
    expect(hk.name == "hook" and len(hk.body) == 2 and norm(hk.body[0]) == "sampleset.resolve()", hk, "`sampleset.resolve(); return ...`", w)
    r = hk.body[1]
    expect(isinstance(r, ast.Return) and isinstance(r.value, ast.Call) and norm(r.value.func) == "sampleset.relabel_variables"
           and [norm(a) for a in r.value.args] == ["mapping"] and [k.arg for k in r.value.keywords] == ["inplace"], r,
           "`return sampleset.relabel_variables(mapping, inplace=<const>)`", w)
    B = bool_const(r.value.keywords[0].value, w)
    expect(norm(e[1]) == "returnself.from_future(self,hook)", e[1], "`return self.from_future(self, hook)`", w)


    # ---- change_vartype (head)
    w = "SampleSet.change_vartype"
    fn = meth["change_vartype"]
    expect([a.arg for a in fn.args.args] == ["self", "vartype", "energy_offset", "inplace"], fn, "parameters (self, vartype, energy_offset, inplace)", w)
    chvt_default = default_of(fn, "inplace", w)
    b = body_nodoc(fn)
    expect(len(b) >= 3, fn, "at least three statements", w)
    c1, c2 = b[0], b[1]
    expect(isinstance(c1, ast.If) and norm(c1.test) == "notinplace" and not c1.orelse
           and [norm(x) for x in c1.body] == ["new=self.copy()", "new._info=copy.deepcopy(new.info)",
                                              "returnnew.change_vartype(vartype,energy_offset,inplace=True)"], c1,
           "`if not inplace: new = self.copy(); new._info = copy.deepcopy(new.info); return new.change_vartype(vartype, energy_offset, inplace=True)`", w)
    expect(isinstance(c2, ast.If) and norm(c2.test) == "notself.done()" and not c2.orelse and len(c2.body) == 2, c2, "`if not self.done():` hook + return", w)
    hk = hook_def(c2.body[0], "sampleset", "change_vartype", w)
    expect(hk.name == "hook" and len(hk.body) == 2 and norm(hk.body[0]) == "sampleset.resolve()", hk, "`sampleset.resolve(); return ...`", w)
    r = hk.body[1]
    expect(isinstance(r, ast.Return) and isinstance(r.value, ast.Call) and norm(r.value.func) == "sampleset.change_vartype"
           and [norm(a) for a in r.value.args] == ["vartype", "energy_offset"], r, "`return sampleset.change_vartype(vartype, energy_offset[, inplace=<const>])`", w)
    kws = r.value.keywords
    expect(len(kws) <= 1 and all(k.arg == "inplace" for k in kws), r, "at most the keyword `inplace`", w)
    C = bool_const(kws[0].value, w) if kws else chvt_default
    expect(norm(c2.body[1]) == "returnself.from_future(self,hook)", c2.body[1], "`return self.from_future(self, hook)`", w)

    cb = lambda x: "true" if x else "false"
    lines = ["(* GENERATED by translators/sampleset_hooks.py from dimod/sampleset.py (SampleSet.from_future, resolve, copy,",
             "   relabel_variables, change_vartype) - do not edit.  The statement shapes were matched exactly; these are the",
             "   constants found in them. *)", "",
             "(* `inplace=` passed to relabel_variables by the hook composed on an unresolved receiver (inplace=True call) *)",
             f"Definition gen_relabel_composed_hook_inplace : bool := {cb(A)}.",
             "(* `inplace=` passed to relabel_variables by the hook of the wrapper returned for inplace=False *)",
             f"Definition gen_relabel_wrapper_hook_inplace : bool := {cb(B)}.",
             "(* effective `inplace` of the change_vartype call made by the hook of the wrapper returned for an unresolved receiver *)",
             f"Definition gen_change_vartype_wrapper_hook_inplace : bool := {cb(C)}.",
             "(* defaults of the `inplace` parameters *)",
             f"Definition gen_relabel_inplace_default : bool := {cb(relabel_default)}.",
             f"Definition gen_change_vartype_inplace_default : bool := {cb(chvt_default)}.",
             "(* resolve() passes the hook result's own record object on (no copy); copy() copies the record *)",
             "Definition gen_resolve_shares_record : bool := true.",
             "Definition gen_copy_copies_record : bool := true.",
             "(* both branches taken for an unresolved receiver start with `mapping = dict(mapping)`: the hook keeps the mapping",
             "   as it was at call time *)",
             "Definition gen_relabel_pending_copies_mapping : bool := true.", ""]
    os.makedirs(out, exist_ok=True)
    p = os.path.join(out, "Gen_Hooks.v")
    new = "\n".join(lines)
    if not os.path.exists(p) or open(p).read() != new:
        open(p, "w").write(new)


if __name__ == "__main__":
    try:
        main()
    except Bad as e:
        print("sampleset_hooks.py: " + str(e))
        sys.exit(1)
