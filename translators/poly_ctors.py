#!/venv/bin/python
"""Fail-closed translator: the constructors / exporters of BinaryPolynomial -> coq/theories/Gen/Gen_PolyCtor.v

  dimod/higherorder/polynomial.py   BinaryPolynomial.__init__, __setitem__, __getitem__, __contains__, copy,
                                    from_hising, to_hising, from_hubo, to_hubo, asfrozenset

Each function body (docstring and comments dropped) is re-printed with ast.unparse and must equal the template below
exactly, up to the parts that are TRANSLATED:
  * from_hubo: the right-hand side of `poly[()] = <expr>` is translated by a small expression translator
    (sums of `offset`, `poly.get((), <number>)` and numbers) into the Coq function gen_from_hubo_const;
  * from_hising: the order in which the three parts (h, J, offset) are put into the list, and the vartype;
  * __init__: the modulus of `term.count(v) % N` and the vartype of the branch;
  * to_hubo: the default of the constant; to_hising: the initial offset and the two length thresholds.
Model/PolyCtor.v mirrors these functions by hand; Proofs/PolyCtorGenFacts.v proves (by unfolding) that the mirrors use
exactly what is generated here, so a changed expression / order / constant breaks a C15 theorem.

usage: poly_ctors.py <build_dir> <out_dir>
"""
import ast
import hashlib
import os
import re
import sys
from fractions import Fraction

PROPERTIES = ["C15"]

NUM = r"\(?([+-]?(?:\d+\.?\d*|\.\d+))\)?"


class Bad(Exception):
    pass


INIT = """if isinstance(poly, abc.Mapping):
    poly = poly.items()
self._terms = terms = {}
for term, bias in poly:
    fsterm = asfrozenset(term)
    if len(fsterm) < len(term) and vartype is Vartype.VARTYPE:
        new = set()
        term = tuple(term)
        for v in fsterm:
            if term.count(v) % NUM:
                new.add(v)
        fsterm = frozenset(new)
    if fsterm in terms:
        terms[fsterm] += bias
    else:
        terms[fsterm] = bias
self.vartype = vartype"""

SETITEM = "self._terms[asfrozenset(term)] = bias"
GETITEM = "return self._terms[asfrozenset(term)]"
CONTAINS = "return asfrozenset(term) in self._terms"
COPY = "return type(self)(self, self.vartype)"
ASFROZENSET = "return term if isinstance(term, frozenset) else frozenset(term)"

TO_HISING = """if self.vartype is Vartype.BINARY:
    return self.to_spin().to_hising()
h = {}
J = {}
offset = NUM
for term, bias in self.items():
    if len(term) == NUM:
        offset += bias
    elif len(term) == NUM:
        v, = term
        h[v] = bias
    else:
        J[tuple(term)] = bias
return (h, J, offset)"""

TO_HUBO = """if self.vartype is Vartype.SPIN:
    return self.to_binary().to_hubo()
H = {tuple(term): bias for term, bias in self.items() if term}
offset = self[tuple()] if tuple() in self else NUM
return (H, offset)"""

# from_hising: the statements that add a part to the list, by part
HISING_PARTS = {
    "poly = [((k,), v) for k, v in h.items()]": "PartH",
    "poly.extend([((k,), v) for k, v in h.items()])": "PartH",
    "poly = list(J.items())": "PartJ",
    "poly.extend(J.items())": "PartJ",
    "if offset is not None:\n    poly.append((frozenset([]), offset))": "PartOffset",
}


def body_stmts(fn):
    return [s for s in fn.body if not (isinstance(s, ast.Expr) and isinstance(s.value, ast.Constant) and isinstance(s.value.value, str))]


def body_text(fn):
    return "\n".join(ast.unparse(s) for s in body_stmts(fn))


def match(fn, template, args, where, decorators=()):
    if ast.unparse(fn.args) != args:
        raise Bad(f"line {fn.lineno}: {where}: signature ({ast.unparse(fn.args)}) is not ({args})")
    if [ast.unparse(d) for d in fn.decorator_list] != list(decorators):
        raise Bad(f"line {fn.lineno}: {where}: decorators {[ast.unparse(d) for d in fn.decorator_list]} are not {list(decorators)}")
    text = body_text(fn)

    def rx_of(a):
        out = ""
        for piece in re.split(r"(NUM|VARTYPE)", a):
            out += NUM if piece == "NUM" else r"(SPIN|BINARY)" if piece == "VARTYPE" else re.escape(piece)
        return "^" + out + "$"
    m = re.match(rx_of(template), text)
    if not m:
        tl, xl = template.split("\n"), text.split("\n")
        for i, (a, b) in enumerate(zip(tl + [""] * len(xl), xl + [""] * len(tl))):
            if not re.match(rx_of(a), b):
                raise Bad(f"line {fn.lineno}+{i + 1}: {where}: expected `{a.strip()}`, found `{b.strip()}`")
        raise Bad(f"line {fn.lineno}: {where}: body does not have the expected shape")
    return list(m.groups())


def cqc(x, where):
    try:
        f = Fraction(str(x))
    except Exception:
        raise Bad(f"{where}: `{x}` is not a number")
    if f.denominator & (f.denominator - 1):
        raise Bad(f"{where}: constant {x} is not dyadic")
    return "0" if f == 0 else "1" if f == 1 else f"(qc ({f.numerator}) {f.denominator})"


def tr_const_expr(e, where):
    """the value stored under () by from_hubo: sums / differences of `offset`, `poly.get((), c)` and numbers"""
    if isinstance(e, ast.BinOp) and isinstance(e.op, (ast.Add, ast.Sub)):
        op = "+" if isinstance(e.op, ast.Add) else "-"
        return f"({tr_const_expr(e.left, where)} {op} {tr_const_expr(e.right, where)})"
    if isinstance(e, ast.Name) and e.id == "offset":
        return "o"
    if isinstance(e, ast.Constant) and isinstance(e.value, (int, float)) and not isinstance(e.value, bool):
        return cqc(e.value, where)
    if (isinstance(e, ast.Call) and ast.unparse(e.func) == "poly.get" and len(e.args) == 2 and not e.keywords
            and ast.unparse(e.args[0]) == "()" and isinstance(e.args[1], ast.Constant)
            and isinstance(e.args[1].value, (int, float)) and not isinstance(e.args[1].value, bool)):
        return f"(get {cqc(e.args[1].value, where)})"
    if isinstance(e, ast.Subscript) and ast.unparse(e) == "poly[()]":
        raise Bad(f"line {e.lineno}: {where}: `poly[()]` raises KeyError when H has no constant; not translated")
    raise Bad(f"line {e.lineno}: {where}: expression `{ast.unparse(e)}` is outside the translated fragment "
              "(sums of offset, poly.get((), <number>), numbers)")


def tr_from_hubo(fn):
    where = "BinaryPolynomial.from_hubo"
    if ast.unparse(fn.args) != "cls, H, offset=None" or [ast.unparse(d) for d in fn.decorator_list] != ["classmethod"]:
        raise Bad(f"line {fn.lineno}: {where}: signature / decorators changed")
    st = body_stmts(fn)
    if len(st) != 3:
        raise Bad(f"line {fn.lineno}: {where}: expected 3 statements, found {len(st)}")
    m = re.match(r"^poly = cls\(H, Vartype\.(SPIN|BINARY)\)$", ast.unparse(st[0]))
    if not m:
        raise Bad(f"line {st[0].lineno}: {where}: expected `poly = cls(H, Vartype.<V>)`, found `{ast.unparse(st[0])}`")
    vt = m.group(1)
    s1 = st[1]
    if not (isinstance(s1, ast.If) and ast.unparse(s1.test) == "offset is not None" and not s1.orelse and len(s1.body) == 1
            and isinstance(s1.body[0], ast.Assign) and len(s1.body[0].targets) == 1
            and ast.unparse(s1.body[0].targets[0]) == "poly[()]"):
        raise Bad(f"line {s1.lineno}: {where}: expected `if offset is not None: poly[()] = <expr>`, found `{ast.unparse(s1)}`")
    expr = tr_const_expr(s1.body[0].value, where)
    if ast.unparse(st[2]) != "return poly":
        raise Bad(f"line {st[2].lineno}: {where}: expected `return poly`, found `{ast.unparse(st[2])}`")
    return vt, expr


def tr_from_hising(fn):
    where = "BinaryPolynomial.from_hising"
    if ast.unparse(fn.args) != "cls, h, J, offset=None" or [ast.unparse(d) for d in fn.decorator_list] != ["classmethod"]:
        raise Bad(f"line {fn.lineno}: {where}: signature / decorators changed")
    st = body_stmts(fn)
    if len(st) < 2:
        raise Bad(f"line {fn.lineno}: {where}: too few statements")
    m = re.match(r"^return cls\(poly, Vartype\.(SPIN|BINARY)\)$", ast.unparse(st[-1]))
    if not m:
        raise Bad(f"line {st[-1].lineno}: {where}: expected `return cls(poly, Vartype.<V>)`, found `{ast.unparse(st[-1])}`")
    parts = []
    for i, s in enumerate(st[:-1]):
        text = ast.unparse(s)
        if text not in HISING_PARTS:
            raise Bad(f"line {s.lineno}: {where}: statement `{text}` is not one of the recognised list-building statements")
        if (i == 0) != text.startswith("poly = "):
            raise Bad(f"line {s.lineno}: {where}: the list must be created by the first statement and extended by the others")
        parts.append(HISING_PARTS[text])
    if sorted(parts) != ["PartH", "PartJ", "PartOffset"]:
        raise Bad(f"line {fn.lineno}: {where}: parts {parts} are not exactly h, J and the offset")
    return m.group(1), parts


def main():
    build, out = sys.argv[1], sys.argv[2]
    p1 = os.path.join(build, "dimod", "higherorder", "polynomial.py")
    s1 = open(p1).read()
    print("INPUT %s %s" % (p1, hashlib.sha256(s1.encode()).hexdigest()))
    t1 = ast.parse(s1)
    cls = [n for n in t1.body if isinstance(n, ast.ClassDef) and n.name == "BinaryPolynomial"]
    if len(cls) != 1:
        raise Bad("class BinaryPolynomial not found")
    meth = {}
    for n in cls[0].body:
        if isinstance(n, ast.FunctionDef):
            if n.name in meth:
                raise Bad(f"line {n.lineno}: {n.name} defined twice")
            meth[n.name] = n
    top = [n for n in t1.body if isinstance(n, ast.FunctionDef) and n.name == "asfrozenset"]
    if len(top) != 1:
        raise Bad("asfrozenset not found exactly once")
    for need in ("__init__", "__setitem__", "__getitem__", "__contains__", "copy", "from_hising", "to_hising", "from_hubo", "to_hubo"):
        if need not in meth:
            raise Bad(f"BinaryPolynomial.{need} not found")
    for forbidden in ("get", "setdefault", "update", "pop", "items"):
        if forbidden in meth:
            raise Bad(f"line {meth[forbidden].lineno}: BinaryPolynomial.{forbidden} is overridden (the model assumes the MutableMapping mixin)")
    match(top[0], ASFROZENSET, "term", "asfrozenset")
    ivt, imod = match(meth["__init__"], INIT, "self, poly, vartype", "BinaryPolynomial.__init__", ["vartype_argument('vartype')"])
    if Fraction(imod) != 2:
        raise Bad(f"BinaryPolynomial.__init__: `term.count(v) % {imod}` - the model keeps the variables of ODD multiplicity")
    match(meth["__setitem__"], SETITEM, "self, term, bias", "BinaryPolynomial.__setitem__")
    match(meth["__getitem__"], GETITEM, "self, term", "BinaryPolynomial.__getitem__")
    match(meth["__contains__"], CONTAINS, "self, term", "BinaryPolynomial.__contains__")
    match(meth["copy"], COPY, "self", "BinaryPolynomial.copy")
    off0, l0, l1 = match(meth["to_hising"], TO_HISING, "self", "BinaryPolynomial.to_hising")
    if Fraction(l0) != 0 or Fraction(l1) != 1:
        raise Bad(f"BinaryPolynomial.to_hising: the length tests are {l0}, {l1}, not 0, 1")
    (hubo_default,) = match(meth["to_hubo"], TO_HUBO, "self", "BinaryPolynomial.to_hubo")
    hubo_vt, hubo_expr = tr_from_hubo(meth["from_hubo"])
    hising_vt, parts = tr_from_hising(meth["from_hising"])
    lines = ["(* GENERATED by translators/poly_ctors.py from dimod/higherorder/polynomial.py - do not edit *)",
             "From Coq Require Import List QArith Qcanon.", "From Dimod Require Import Base.Util Model.Poly.",
             "Import ListNotations.", "Open Scope Qc_scope.", "",
             "(* __init__: repeated variables are reduced by parity when the vartype is *)",
             f"Definition gen_init_parity_vartype : vartype := {ivt}.",
             "(* from_hubo: cls(H, Vartype.V) ; if offset is not None: poly[()] = <this>   (get d = poly.get((), d)) *)",
             f"Definition gen_from_hubo_vartype : vartype := {hubo_vt}.",
             f"Definition gen_from_hubo_const (get : Qc -> Qc) (o : Qc) : Qc := {hubo_expr}.",
             "(* from_hising: the order of the parts in the list given to cls(poly, Vartype.V) *)",
             "Inductive hising_part := PartH | PartJ | PartOffset.",
             f"Definition gen_from_hising_vartype : vartype := {hising_vt}.",
             f"Definition gen_from_hising_parts : list hising_part := [{'; '.join(parts)}].",
             "(* to_hubo: offset = self[tuple()] if tuple() in self else <this> ; to_hising: offset = <this> *)",
             f"Definition gen_to_hubo_default : Qc := {cqc(hubo_default, 'to_hubo')}.",
             f"Definition gen_to_hising_offset_init : Qc := {cqc(off0, 'to_hising')}.", ""]
    os.makedirs(out, exist_ok=True)
    p = os.path.join(out, "Gen_PolyCtor.v")
    new = "\n".join(lines)
    if not os.path.exists(p) or open(p).read() != new:
        open(p, "w").write(new)


if __name__ == "__main__":
    try:
        main()
    except Bad as e:
        print("poly_ctors.py: " + str(e))
        sys.exit(1)
