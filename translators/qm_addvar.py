#!/venv/bin/python
"""Fail-closed translator: the existing-label branch of cyQM_template.add_variable
(dimod/quadratic/cyqm/cyqm_template.pyx.pxi)  ->  coq/theories/Gen/Gen_AddVar.v

QuadraticModel.__mul__ assembles its result by calling add_variable for every variable of both operands,
so for a label the two operands share it is THIS branch that decides whether conflicting vartypes / bounds
are rejected.  The branch is read statement by statement (logical lines, indentation significant):

    vi = self.variables.index(label)
    if self.cppqm.vartype(vi) != cppvartype:            raise <Exn>(...)
    if cppvartype != cppVartype.A and cppvartype != cppVartype.B:      (the vartypes whose bounds are ignored)
        if <lower_bound GUARD>:  lb = lower_bound ; if lb != self.cppqm.lower_bound(vi): raise <Exn>(...)
        if <upper_bound GUARD>:  ub = upper_bound ; if ub != self.cppqm.upper_bound(vi): raise <Exn>(...)
    return label

GUARD is `X is not None` (AvGiven) or plain truthiness `X` (AvTruthy: given and non-zero); both are
translated faithfully - whether the resulting rule still rejects every conflict is for the theorem
`gen_mul_err_eq` (Proofs/AddVarFacts.v) to decide.  Anything else is an error naming the line.

usage: qm_addvar.py <build_dir> <out_dir>
"""
import hashlib
import os
import re
import sys

PROPERTIES = ["C06"]
REL = "dimod/quadratic/cyqm/cyqm_template.pyx.pxi"
VT = {"BINARY", "SPIN", "INTEGER", "REAL"}
EXN = {"TypeError": "XType", "ValueError": "XValue"}


class Bad(Exception):
    pass


def logical_lines(src, first, last):
    """(lineno, indent, text) of the logical lines first..last (1-based, inclusive): comments and blank lines
    dropped, lines joined while a parenthesis is open"""
    out, buf, depth, start, ind = [], "", 0, None, 0
    lines = src.splitlines()
    for no in range(first, last + 1):
        raw = lines[no - 1]
        code = re.sub(r"#.*$", "", raw) if '"' not in raw and "'" not in raw else raw
        if not code.strip() and depth == 0:
            continue
        if depth == 0:
            start, ind, buf = no, len(code) - len(code.lstrip()), code.strip()
        else:
            buf += " " + code.strip()
        # parentheses outside string literals
        stripped = re.sub(r"(\"(?:[^\"\\]|\\.)*\"|'(?:[^'\\]|\\.)*')", "", code)
        depth += stripped.count("(") + stripped.count("[") - stripped.count(")") - stripped.count("]")
        if depth < 0:
            raise Bad(f"{REL}:{no}: unbalanced parenthesis")
        if depth == 0:
            out.append((start, ind, buf))
    if depth != 0:
        raise Bad(f"{REL}:{first}: parenthesis left open")
    return out


def main():
    build, out = sys.argv[1], sys.argv[2]
    path = os.path.join(build, REL)
    src = open(path).read()
    print("INPUT %s %s" % (path, hashlib.sha256(src.encode()).hexdigest()))
    lines = src.splitlines()
    heads = [i + 1 for i, l in enumerate(lines) if re.match(r"\s+def add_variable\(self, vartype, label=None, \*, "
                                                            r"lower_bound=None, upper_bound=None\):\s*$", l)]
    if len(heads) != 1:
        raise Bad(f"{REL}: expected exactly one `def add_variable(self, vartype, label=None, *, lower_bound=None, "
                  f"upper_bound=None)`, found {len(heads)}")
    h = heads[0]
    guard = [i + 1 for i in range(h, min(h + 40, len(lines)))
             if lines[i].strip() == "if label is not None and self.variables.count(label):"]
    if len(guard) != 1:
        raise Bad(f"{REL}:{h}: the existing-label guard `if label is not None and self.variables.count(label):` "
                  "was not found in add_variable")
    g = guard[0]
    gi = len(lines[g - 1]) - len(lines[g - 1].lstrip())
    end = g
    while end < len(lines) and (not lines[end].strip() or len(lines[end]) - len(lines[end].lstrip()) > gi):
        end += 1
    ll = logical_lines(src, g + 1, end)
    pos = [0]

    def nxt(indent_more_than=None):
        if pos[0] >= len(ll):
            raise Bad(f"{REL}:{end}: the existing-label branch ends early")
        x = ll[pos[0]]
        pos[0] += 1
        return x

    def expect(rx, what):
        no, ind, t = nxt()
        m = re.fullmatch(rx, t)
        if not m:
            raise Bad(f"{REL}:{no}: expected {what}, found: {t[:100]}")
        return no, ind, m

    no, i0, _ = expect(r"vi = self\.variables\.index\(label\)", "`vi = self.variables.index(label)`")
    no, ind, _ = expect(r"if self\.cppqm\.vartype\(vi\) != cppvartype:", "the vartype comparison")
    if ind != i0:
        raise Bad(f"{REL}:{no}: unexpected indentation")
    no, ind2, m = expect(r"raise (\w+)\(.*\)", "a raise statement")
    if ind2 <= ind or m.group(1) not in EXN:
        raise Bad(f"{REL}:{no}: unexpected raise {m.group(1)}")
    vt_exn = EXN[m.group(1)]
    no, ind, m = expect(r"if cppvartype != cppVartype\.(\w+) and cppvartype != cppVartype\.(\w+):",
                        "`if cppvartype != cppVartype.X and cppvartype != cppVartype.Y:`")
    if ind != i0 or not {m.group(1), m.group(2)} <= VT:
        raise Bad(f"{REL}:{no}: unexpected bounds guard")
    skip = [m.group(1), m.group(2)]
    checks = []
    i1 = None
    while pos[0] < len(ll) and ll[pos[0]][1] > i0:
        no, ind, t = nxt()
        if i1 is None:
            i1 = ind
        if ind != i1:
            raise Bad(f"{REL}:{no}: unexpected indentation inside the bounds block: {t[:80]}")
        m = re.fullmatch(r"if (lower_bound|upper_bound) is not None:", t)
        cond = "AvGiven"
        if not m:
            m = re.fullmatch(r"if (lower_bound|upper_bound):", t)
            cond = "AvTruthy"
        if not m:
            raise Bad(f"{REL}:{no}: a bound's guard must be `X is not None` or `X`, found: {t[:100]}")
        which = m.group(1)
        loc = {"lower_bound": "lb", "upper_bound": "ub"}[which]
        no, inda, _ = expect(rf"{loc} = {which}", f"`{loc} = {which}`")
        no, indb, _ = expect(rf"if {loc} != self\.cppqm\.{which}\(vi\):", f"`if {loc} != self.cppqm.{which}(vi):`")
        no, indc, m2 = expect(r"raise (\w+)\(.*\)", "a raise statement")
        if not (inda == indb > i1 and indc > indb) or m2.group(1) not in EXN:
            raise Bad(f"{REL}:{no}: unexpected shape of the {which} comparison")
        checks.append(({"lower_bound": "AvLower", "upper_bound": "AvUpper"}[which], cond, EXN[m2.group(1)]))
    no, ind, _ = expect(r"return label", "`return label`")
    if ind != i0 or pos[0] != len(ll):
        raise Bad(f"{REL}:{no}: statements after `return label` in the existing-label branch")
    if sorted(c[0] for c in checks) != ["AvLower", "AvUpper"]:
        raise Bad(f"{REL}:{g}: expected one comparison per bound, found {[c[0] for c in checks]}")
    text = "\n".join([
        "(* GENERATED by translators/qm_addvar.py from the existing-label branch of add_variable in",
        f"   {REL}:{g} - do not edit *)",
        "From Coq Require Import List.", "From Dimod Require Import Model.Poly Model.OpsLang.",
        "Import ListNotations.", "",
        "(* the exception of `self.cppqm.vartype(vi) != cppvartype` *)",
        f"Definition gen_addvar_vt_exn : exnk := {vt_exn}.",
        "(* the vartypes for which the bounds block is skipped *)",
        f"Definition gen_addvar_bounds_skip : list vartype := [{'; '.join(skip)}].",
        "(* the comparisons of the bounds block, in source order: which bound, under which guard, which exception *)",
        "Definition gen_addvar_checks : list (av_bound * av_cond * exnk) :=",
        "  [" + "; ".join(f"({b}, {c}, {x})" for b, c, x in checks) + "].", ""])
    os.makedirs(out, exist_ok=True)
    with open(os.path.join(out, "Gen_AddVar.v"), "w") as fh:
        fh.write(text)


if __name__ == "__main__":
    try:
        main()
    except Bad as e:
        print("qm_addvar: " + str(e))
        sys.exit(1)
