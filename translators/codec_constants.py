#!/venv/bin/python
"""Regenerates coq/theories/Gen/Gen_Codec.v from the serialization sources.

    python codec_constants.py <build_dir> <out_dir>

Extracted (fail-closed: anything that cannot be found in exactly the expected
syntactic shape aborts with exit status 1 and writes nothing):

* fileview.py: every `Section` subclass' 4-byte `magic`, `NUM_LENGTH_BYTES` of the base
  class and every override, the alignment modulus used by `Section.dumps` and by
  `make_header` (all occurrences must agree), the width of the header length field
  (`struct.pack('<I', ...)` / `bytes(4)` / `read(4)`), the number of version bytes read.
* the model modules: `*_MAGIC_PREFIX`, `CQM_SERIALIZATION_VERSION`, the version tuples
  accepted by `BinaryQuadraticModel.to_file`, the version written by `QuadraticModel.to_file`
  / `DiscreteQuadraticModel.to_file`, the bounds tested by every `from_file`.
* include/dimod/vartypes.h: numeric values of the `Vartype` enumerators (VTYP payload).
"""
import ast
import hashlib
import os
import re
import sys


class Fail(Exception):
    pass


def need(cond, msg):
    if not cond:
        raise Fail(msg)


def read(build, rel, inputs):
    p = os.path.join(build, rel)
    need(os.path.exists(p), f"missing source file {rel}")
    data = open(p, "rb").read()
    inputs.append((p, hashlib.sha256(data).hexdigest()))
    return data.decode("utf-8")


def coq_bytes(b):
    return "[" + "; ".join(str(x) for x in b) + "]%N"


def module_bytes_const(tree, name):
    found = []
    for node in tree.body:
        if isinstance(node, ast.Assign) and len(node.targets) == 1 and isinstance(node.targets[0], ast.Name) \
                and node.targets[0].id == name:
            need(isinstance(node.value, ast.Constant) and isinstance(node.value.value, bytes),
                 f"{name} is not a bytes literal")
            found.append(node.value.value)
    need(len(found) == 1, f"expected exactly one assignment of {name}, found {len(found)}")
    return found[0]


def tuple_const(node):
    need(isinstance(node, ast.Tuple) and len(node.elts) == 2 and
         all(isinstance(e, ast.Constant) and isinstance(e.value, int) for e in node.elts),
         "version is not a literal (major, minor) tuple")
    return tuple(e.value for e in node.elts)


def find_func(tree, cls, name):
    for node in ast.walk(tree):
        if isinstance(node, ast.ClassDef) and node.name == cls:
            for f in node.body:
                if isinstance(f, ast.FunctionDef) and f.name == name:
                    return f
    raise Fail(f"{cls}.{name} not found")


def version_compares(func, attr_ok):
    """all comparisons `<something version-like> OP (a, b)` inside func -> list of (op, (a, b))"""
    out = []
    for node in ast.walk(func):
        if isinstance(node, ast.Compare) and len(node.ops) == 1 and isinstance(node.comparators[0], ast.Tuple):
            left = ast.unparse(node.left)
            if attr_ok(left):
                out.append((type(node.ops[0]).__name__, tuple_const(node.comparators[0])))
    return out


def main(build, out_dir):
    inputs = []
    L = []
    # ------------------------------------------------------------------ fileview.py
    src = read(build, "dimod/serialization/fileview.py", inputs)
    tree = ast.parse(src)
    classes = {n.name: n for n in tree.body if isinstance(n, ast.ClassDef)}
    need("Section" in classes, "class Section not found")
    magics, nlens = {}, {}
    for name, c in classes.items():
        is_section = name == "Section" or any(isinstance(b, ast.Name) and b.id == "Section" for b in c.bases)
        if not is_section:
            continue
        for st in c.body:
            if isinstance(st, ast.Assign) and len(st.targets) == 1 and isinstance(st.targets[0], ast.Name):
                t = st.targets[0].id
                if t == "magic":
                    need(isinstance(st.value, ast.Constant) and isinstance(st.value.value, bytes)
                         and len(st.value.value) == 4, f"{name}.magic is not a 4-byte literal")
                    magics[name] = st.value.value
                elif t == "NUM_LENGTH_BYTES":
                    need(isinstance(st.value, ast.Constant) and isinstance(st.value.value, int),
                         f"{name}.NUM_LENGTH_BYTES is not an int literal")
                    nlens[name] = st.value.value
    want = {"IndicesSection": "INDX", "LinearSection": "LINB", "NeighborhoodSection": "NEIG",
            "OffsetSection": "OFFS", "QuadraticSection": "QUAD", "VariablesSection": "VARS",
            "VartypesSection": "VTYP"}
    for cname in want:
        need(cname in magics, f"{cname}.magic not found")
    need(set(magics) == set(want), f"unexpected Section subclasses with a magic: {sorted(set(magics) - set(want))}")
    need("Section" in nlens, "Section.NUM_LENGTH_BYTES not found")
    need(set(nlens) <= {"Section", "QuadraticSection"}, f"unexpected NUM_LENGTH_BYTES overrides: {sorted(nlens)}")
    need(len(set(magics.values())) == len(magics), "section magics are not distinct")
    for cname, short in want.items():
        L.append(f"Definition MAGIC_{short} : list N := {coq_bytes(magics[cname])}.  (* {cname}: {magics[cname]!r} *)")
        L.append(f"Definition NLEN_{short} : nat := {nlens.get(cname, nlens['Section'])}.")
    # alignment in Section.dumps and make_header
    dumps = find_func(tree, "Section", "dumps")
    mh = [n for n in tree.body if isinstance(n, ast.FunctionDef) and n.name == "make_header"]
    rh = [n for n in tree.body if isinstance(n, ast.FunctionDef) and n.name == "read_header"]
    need(len(mh) == 1 and len(rh) == 1, "make_header/read_header not found")
    mods = []
    for f in (dumps, mh[0]):
        here = []
        for node in ast.walk(f):
            if isinstance(node, ast.BinOp) and isinstance(node.op, ast.Mod):
                need(isinstance(node.right, ast.Constant) and isinstance(node.right.value, int),
                     "alignment modulus is not an int literal")
                here.append(node.right.value)
            if isinstance(node, ast.BinOp) and isinstance(node.op, ast.Sub) and isinstance(node.left, ast.Constant) \
                    and isinstance(node.left.value, int):
                here.append(node.left.value)
        need(len(here) >= 3, f"alignment arithmetic of {f.name} not recognised")
        mods += here
    need(len(set(mods)) == 1, f"alignment constants disagree: {sorted(set(mods))}")
    L.append(f"Definition ALIGN : nat := {mods[0]}.")
    # the pad byte
    pads = set(re.findall(r"b'(.)'\s*\*\s*\(?\s*(?:pad_length|64|\(64)", src))
    need(pads == {" "}, f"pad byte not recognised: {pads}")
    L.append("Definition PAD_BYTE : N := 32%N.")
    mhs = ast.unparse(mh[0])
    need("header += bytes(version)" in mhs and "header += bytes(4)" in mhs and "struct.pack('<I'" in mhs
         and "header += b'\\n'" in mhs and "sort_keys=True" in mhs, "make_header layout not recognised")
    rhs = ast.unparse(rh[0])
    need("file_like.read(2)" in rhs and "struct.unpack('<I', file_like.read(4))" in rhs, "read_header layout not recognised")
    L.append("Definition HEADER_LEN_BYTES : nat := 4.")
    L.append("Definition HEADER_VERSION_BYTES : nat := 2.")
    L.append("Definition HEADER_NEWLINE : N := 10%N.")
    neig = find_func(tree, "NeighborhoodSection", "dump_data")
    need("struct.pack('<q'" in ast.unparse(neig), "NEIG count is not '<q'")
    L.append("Definition NEIG_COUNT_BYTES : nat := 8.")

    # ------------------------------------------------------------------ model modules
    def prefix(rel, name, short, pyx=False):
        s = read(build, rel, inputs)
        if pyx:
            m = re.findall(r"^%s\s*=\s*b([\"'])([A-Z]+)\1\s*$" % name, s, flags=re.M)
            need(len(m) == 1, f"{name} not found in {rel}")
            val = m[0][1].encode()
            t = None
        else:
            t = ast.parse(s)
            val = module_bytes_const(t, name)
        L.append(f"Definition {short}_PREFIX : list N := {coq_bytes(val)}.  (* {val!r} *)")
        return s, t, val

    _, tb, pb = prefix("dimod/binary/binary_quadratic_model.py", "BQM_MAGIC_PREFIX", "BQM")
    _, tq, pq = prefix("dimod/quadratic/quadratic_model.py", "QM_MAGIC_PREFIX", "QM")
    sc, tc, pc = prefix("dimod/constrained/constrained.py", "CQM_MAGIC_PREFIX", "CQM")
    _, _, pe = prefix("dimod/constrained/cyexpression.pyx", "EXPRESSION_MAGIC_PREFIX", "EXPR", pyx=True)
    sd, td, pd = prefix("dimod/discrete/discrete_quadratic_model.py", "DQM_MAGIC_PREFIX", "DQM")
    val = module_bytes_const(td, "DATA_MAGIC_PREFIX")
    L.append(f"Definition DQM_DATA_MAGIC : list N := {coq_bytes(val)}.  (* {val!r} *)")
    allp = [pb, pq, pc, pe, pd]
    for a in allp:
        for b in allp:
            need(a is b or not b.startswith(a), f"prefix {a!r} is a prefix of {b!r}: fileview.load dispatch ambiguous")

    def vt(t):
        return f"({t[0]}%N, {t[1]}%N)"

    # BQM
    tf = find_func(tb, "BinaryQuadraticModel", "to_file")
    lists = [n for n in ast.walk(tf) if isinstance(n, ast.Compare) and isinstance(n.ops[0], ast.NotIn)
             and isinstance(n.comparators[0], ast.List)]
    need(len(lists) == 1, "accepted version list of BQM.to_file not found")
    vs = [tuple_const(e) for e in lists[0].comparators[0].elts]
    L.append("Definition BQM_WRITE_VERSIONS : list (N * N) := [" + "; ".join(vt(v) for v in vs) + "].")
    ff = find_func(tb, "BinaryQuadraticModel", "from_file")
    cmp_ = version_compares(ff, lambda s: s == "version")
    need(sorted(cmp_) == [("GtE", (3, 0)), ("Lt", (2, 0))], f"BQM.from_file version tests changed: {cmp_}")
    L.append(f"Definition BQM_REJECT_FROM : N * N := {vt((3, 0))}.   (* version >= this is rejected *)")
    L.append(f"Definition BQM_LABELS_IN_HEADER_BELOW : N * N := {vt((2, 0))}.")
    # QM
    tf = find_func(tq, "QuadraticModel", "to_file")
    wv = [tuple_const(k.value) for n in ast.walk(tf) if isinstance(n, ast.Call) and ast.unparse(n.func) == "write_header"
          for k in n.keywords if k.arg == "version"]
    need(len(wv) == 1, "version written by QM.to_file not found")
    L.append(f"Definition QM_WRITE_VERSION : N * N := {vt(wv[0])}.")
    ff = find_func(tq, "QuadraticModel", "from_file")
    cmp_ = version_compares(ff, lambda s: s.endswith("version"))
    need(cmp_ == [("Gt", (2, 0))], f"QM.from_file version tests changed: {cmp_}")
    L.append(f"Definition QM_REJECT_ABOVE : N * N := {vt((2, 0))}.   (* version > this is rejected *)")
    # CQM
    found = [n for n in tc.body if isinstance(n, ast.Assign) and isinstance(n.targets[0], ast.Name)
             and n.targets[0].id == "CQM_SERIALIZATION_VERSION"]
    need(len(found) == 1, "CQM_SERIALIZATION_VERSION not found")
    L.append(f"Definition CQM_WRITE_VERSION : N * N := {vt(tuple_const(found[0].value))}.")
    ff = find_func(tc, "ConstrainedQuadraticModel", "from_file")
    cmp_ = version_compares(ff, lambda s: s.endswith("version"))
    need(sorted(cmp_) == [("Gt", (2, 0)), ("Lt", (1, 0)), ("Lt", (2, 0))], f"CQM.from_file version tests changed: {cmp_}")
    L.append(f"Definition CQM_ACCEPT_FROM : N * N := {vt((1, 0))}.")
    L.append(f"Definition CQM_ACCEPT_TO : N * N := {vt((2, 0))}.")
    L.append(f"Definition CQM_LEGACY_BELOW : N * N := {vt((2, 0))}.")
    # DQM
    tf = find_func(td, "DiscreteQuadraticModel", "to_file")
    wv = [tuple_const(k.value) for n in ast.walk(tf) if isinstance(n, ast.Call) and ast.unparse(n.func) == "write_header"
          for k in n.keywords if k.arg == "version"]
    need(len(wv) == 1, "version written by DQM.to_file not found")
    L.append(f"Definition DQM_WRITE_VERSION : N * N := {vt(wv[0])}.")
    ff = find_func(td, "DiscreteQuadraticModel", "from_file")
    cmp_ = version_compares(ff, lambda s: s == "version")
    need(cmp_ == [("GtE", (2, 0))], f"DQM.from_file version tests changed: {cmp_}")
    L.append(f"Definition DQM_REJECT_FROM : N * N := {vt((2, 0))}.")

    # ------------------------------------------------------------------ vartypes.h
    h = read(build, "dimod/include/dimod/vartypes.h", inputs)
    m = re.search(r"enum\s+Vartype\s*\{(.*?)\};", h, flags=re.S)
    need(m, "enum Vartype not found")
    body = re.sub(r"///.*", "", m.group(1))
    names = [x.strip() for x in body.split(",") if x.strip()]
    need(all(re.fullmatch(r"[A-Z]+", x) for x in names), f"enumerators with explicit values are not supported: {names}")
    need(names == ["BINARY", "SPIN", "INTEGER", "REAL"], f"Vartype enumerators changed: {names}")
    for i, nme in enumerate(names):
        L.append(f"Definition VT_{nme} : N := {i}%N.")

    text = ("(* GENERATED by translators/codec_constants.py - do not edit. *)\n"
            "From Coq Require Import List NArith.\nImport ListNotations.\n\n" + "\n".join(L) + "\n")
    os.makedirs(out_dir, exist_ok=True)
    outp = os.path.join(out_dir, "Gen_Codec.v")
    if not os.path.exists(outp) or open(outp).read() != text:
        with open(outp, "w") as fh:
            fh.write(text)
    for p, dig in inputs:
        print(f"INPUT {p} {dig}")


if __name__ == "__main__":
    try:
        main(sys.argv[1], sys.argv[2])
    except Fail as e:
        print("codec_constants: " + str(e))
        sys.exit(1)
