#!/venv/bin/python
"""Fail-closed translator: dimod/binary/vartypeview.py -> coq/theories/Gen/Gen_ViewReads.v

Extracts, with Python's ast, everything Model/ViewOps.v needs from class VartypeView
beyond the two write tables of view_formulas.py:

 * the READ factors, per direction (BinOverSpin = view BINARY over a SPIN base = the
   `if self._vartype is BINARY` branches, SpinOverBin = the `else` branches):
     gen_get_linear        (factor on data.get_linear(v), factor on data.reduce_neighborhood(v, add, 0))
     gen_get_quadratic     factor on data.get_quadratic(u, v)
     gen_iter_neighborhood factor on the bias yielded by data.iter_neighborhood(v)
     gen_iter_quadratic    factor on the bias yielded by data.iter_quadratic()
     gen_offset            (factors on data.offset, data.reduce_linear(add, 0), data.reduce_quadratic(add, 0))
 * the SAMPLE maps of `energies` (the in-place steps applied to the sample array):
     gen_energies_steps    e.g. [SMul two; SAdd (- (1))]  /  [SAdd 1; SFloorDiv two]
 * the SHAPE (exact statement sequence, compared as ast dumps with the templates below)
   of view_method, __copy__, the offset setter, add_variable, energies, get_quadratic,
   reduce_linear / reduce_neighborhood / reduce_quadratic, remove_interaction,
   remove_variable, set_linear, set_quadratic - Model/ViewOps.v composes the writes
   exactly as these templates do, so any change there is an error here.

Every statement of the methods read must match; anything else is an error naming the
source line.

usage: view_reads.py <build_dir> <out_dir>
"""
import ast
import hashlib
import os
import sys
import textwrap
from fractions import Fraction

NAMES = {Fraction(1, 2): "half", Fraction(2): "two", Fraction(-1): "(- (1))", Fraction(1, 4): "quarter",
         Fraction(4): "four", Fraction(-2): "(- two)", Fraction(1): "1", Fraction(-1, 2): "(- half)",
         Fraction(-4): "(- four)", Fraction(-1, 4): "(- quarter)", Fraction(0): "0"}

DIRS = ("BinOverSpin", "SpinOverBin")


class Bad(Exception):
    pass


def seg(src, n):
    text = ast.get_source_segment(src, n) or ""
    lines = text.splitlines()
    return (lines[0] + " ...") if len(lines) > 1 else text


def strip_doc(body):
    return [s for s in body if not (isinstance(s, ast.Expr) and isinstance(s.value, ast.Constant)
                                    and isinstance(s.value.value, str))]


def dump(n):
    return ast.dump(n, annotate_fields=True, include_attributes=False)


# ----------------------------------------------------------------------------------------------
# shape templates: (decorators, argument names, body)
# ----------------------------------------------------------------------------------------------
TEMPLATES = {
    "__copy__": ([], ["self"], """
        new = copy.copy(self.data)
        new.change_vartype(self._vartype)
        return new
    """),
    "offset.setter": (["offset.setter"], ["self", "bias"], """
        if self._vartype == self.data.vartype():
            self.data.offset = bias
        elif self._vartype is BINARY and self.data.vartype() is SPIN:
            self.data.offset += bias - self.offset
        elif self._vartype is SPIN and self.data.vartype() is BINARY:
            self.data.offset += bias - self.offset
        else:
            raise RuntimeError("unexpected vartype combination")
    """),
    "add_variable": ([], ["self", "v", "bias"], """
        v = self.data.add_variable(v)
        self.add_linear(v, bias)
        return v
    """),
    "reduce_linear": ([], ["self", "function", "initializer"], """
        gen = (self.get_linear(v) for v in self.variables)
        if initializer is None:
            return functools.reduce(function, gen)
        else:
            return functools.reduce(function, gen, initializer)
    """),
    "reduce_neighborhood": ([], ["self", "v", "function", "initializer"], """
        gen = (b for _, b in self.iter_neighborhood(v))
        if initializer is None:
            return functools.reduce(function, gen)
        else:
            return functools.reduce(function, gen, initializer)
    """),
    "reduce_quadratic": ([], ["self", "function", "initializer"], """
        gen = (b for _, _, b in self.iter_quadratic())
        if initializer is None:
            return functools.reduce(function, gen)
        else:
            return functools.reduce(function, gen, initializer)
    """),
    "remove_interaction": (["view_method"], ["self", "u", "v"], """
        self.get_quadratic(u, v)
        self.set_quadratic(u, v, 0)
        self.data.remove_interaction(u, v)
    """),
    "remove_variable": (["view_method"], ["self", "v"], """
        if v is None:
            try:
                v = self.variables[-1]
            except IndexError:
                raise ValueError("cannot pop from an empty model")
        for u, _ in self.iter_neighborhood(v):
            self.set_quadratic(u, v, 0)
        self.set_linear(v, 0)
        return self.data.remove_variable(v)
    """),
    "set_linear": (["view_method"], ["self", "v", "bias"], """
        self.add_linear(v, 0)
        self.add_linear(v, bias - self.get_linear(v))
    """),
    "set_quadratic": ([], ["self", "u", "v", "bias"], """
        self.add_variable(u)
        self.add_variable(v)
        self.add_quadratic(u, v, 0)
        self.add_quadratic(u, v, bias - self.get_quadratic(u, v))
    """),
    "variables": (["property"], ["self"], """
        return self.data.variables
    """),
}

# module-level decorator: dispatch on the vartype combination
VIEW_METHOD = """
def view_method(f):
    @functools.wraps(f)
    def wrapper(obj, *args, **kwargs):
        if obj._vartype == obj.data.vartype():
            return getattr(obj.data, f.__name__)(*args, **kwargs)
        elif obj.data.vartype() is SPIN and obj._vartype is BINARY:
            return f(obj, *args, **kwargs)
        elif obj.data.vartype() is BINARY and obj._vartype is SPIN:
            return f(obj, *args, **kwargs)
        else:
            raise RuntimeError("unexpected vartype combination")
    return wrapper
"""

# energies: everything except the vartype branch (extracted separately) is a template
ENERGIES_HEAD = """
samples, labels = as_samples(samples_like, copy=True)
if samples.dtype.kind in 'bu':
    samples = samples.astype(np.promote_types(samples.dtype, np.int8))
"""
ENERGIES_TAIL = """
return self.data.energies((samples, labels), dtype=dtype)
"""

# get_quadratic: everything around the two `return` expressions
GET_QUADRATIC_HEAD = """
if u == v:
    raise ValueError(f"{u!r} cannot have an interaction with itself")
"""
GET_QUADRATIC_HANDLER = """
try:
    pass
except ValueError as err:
    if default is None:
        raise ValueError(f"{u!r} and {v!r} have no interaction") from None
    return default
"""


def parse_body(text):
    return ast.parse(textwrap.dedent(text)).body


def deco_name(d):
    if isinstance(d, ast.Name):
        return d.id
    if isinstance(d, ast.Attribute) and isinstance(d.value, ast.Name):
        return d.value.id + "." + d.attr
    return "?"


# default values of the trailing arguments (set_quadratic relies on add_variable's `bias=0`)
DEFAULTS = {"add_variable": ["None", "0"], "remove_variable": ["None"], "get_quadratic": ["None"],
            "energies": ["None"], "reduce_linear": ["None"], "reduce_neighborhood": ["None"],
            "reduce_quadratic": ["None"]}


def check_signature(fn, key, decos, args):
    want_defaults = DEFAULTS.get(key, [])
    got_defaults = [ast.unparse(x) for x in fn.args.defaults]
    if got_defaults != want_defaults:
        raise Bad(f"line {fn.lineno}: {key} is expected to have the argument defaults {want_defaults}, "
                  f"found {got_defaults}")
    got = [deco_name(d) for d in fn.decorator_list]
    if got != decos:
        raise Bad(f"line {fn.lineno}: {key} is expected to be decorated with {decos or 'nothing'}, found {got}")
    a = fn.args
    names = [x.arg for x in a.args]
    if names != args or a.vararg or a.kwarg or a.kwonlyargs or getattr(a, "posonlyargs", []):
        raise Bad(f"line {fn.lineno}: {key} is expected to take the arguments {args}, found {names}")


def same_stmts(got, want, where_line, what, src):
    """statement-by-statement comparison of two bodies"""
    for g, w in zip(got, want):
        if dump(g) != dump(w):
            raise Bad(f"line {g.lineno}: {what}: expected `{ast.unparse(w).splitlines()[0]}`, found: {seg(src, g)}")
    if len(got) != len(want):
        line = got[len(want)].lineno if len(got) > len(want) else where_line
        raise Bad(f"line {line}: {what}: expected exactly {len(want)} statements, found {len(got)}")


def check_template(fn, key, src):
    decos, args, text = TEMPLATES[key]
    check_signature(fn, key, decos, args)
    same_stmts(strip_doc(fn.body), parse_body(text), fn.lineno, key, src)


# ----------------------------------------------------------------------------------------------
# linear forms over named atoms
# ----------------------------------------------------------------------------------------------
def linear_form(node, atoms, src):
    """value of an expression that must be a linear combination (no constant term) of the atoms;
    atoms: list of (name, ast-dump of the atom expression); returns {name: Fraction}"""
    table = {d: name for name, d in atoms}

    def ev(n, env):
        d = dump(n)
        if d in table:
            return env[table[d]]
        if isinstance(n, ast.Constant) and type(n.value) in (int, float) and float(n.value) == int(n.value):
            return Fraction(int(n.value))
        if isinstance(n, ast.UnaryOp) and isinstance(n.op, ast.USub):
            return -ev(n.operand, env)
        if isinstance(n, ast.BinOp) and isinstance(n.op, (ast.Mult, ast.Div, ast.Add, ast.Sub)):
            a, b = ev(n.left, env), ev(n.right, env)
            if isinstance(n.op, ast.Mult):
                # a product of two atoms is not linear: the probes below catch it
                return a * b
            if isinstance(n.op, ast.Div):
                if not (isinstance(n.right, ast.Constant) or
                        (isinstance(n.right, ast.UnaryOp) and isinstance(n.right.operand, ast.Constant))):
                    raise Bad(f"line {n.lineno}: division by a non-constant: {seg(src, n)}")
                if b == 0:
                    raise Bad(f"line {n.lineno}: division by zero: {seg(src, n)}")
                return a / b
            if isinstance(n.op, ast.Add):
                return a + b
            return a - b
        raise Bad(f"line {n.lineno}: expression outside the grammar: {seg(src, n)}")

    names = [name for name, _ in atoms]
    zero = {k: Fraction(0) for k in names}
    if ev(node, zero) != 0:
        raise Bad(f"line {node.lineno}: constant term in: {seg(src, node)}")
    out = {}
    for k in names:
        e1 = dict(zero); e1[k] = Fraction(1)
        out[k] = ev(node, e1)
    # linearity probes: two generic points must agree with the extracted form
    for probe in ([Fraction(3), Fraction(-5), Fraction(7)], [Fraction(-2), Fraction(11), Fraction(13)]):
        env = {k: probe[i % 3] for i, k in enumerate(names)}
        if ev(node, env) != sum(out[k] * env[k] for k in names):
            raise Bad(f"line {node.lineno}: not a linear combination: {seg(src, node)}")
    return out


def expr_dump(text):
    return dump(ast.parse(text, mode="eval").body)


def is_vartype_is_binary(t):
    return (isinstance(t, ast.Compare) and isinstance(t.left, ast.Attribute) and t.left.attr == "_vartype"
            and isinstance(t.left.value, ast.Name) and t.left.value.id == "self"
            and len(t.ops) == 1 and isinstance(t.ops[0], ast.Is) and len(t.comparators) == 1
            and isinstance(t.comparators[0], ast.Name) and t.comparators[0].id == "BINARY")


def binary_else(stmt, what):
    """`if self._vartype is BINARY: A else: B` -> (A, B)"""
    if not (isinstance(stmt, ast.If) and is_vartype_is_binary(stmt.test)):
        raise Bad(f"line {stmt.lineno}: {what}: expected `if self._vartype is BINARY:`")
    if not stmt.orelse or (len(stmt.orelse) == 1 and isinstance(stmt.orelse[0], ast.If)):
        raise Bad(f"line {stmt.lineno}: {what}: expected a plain `else:` branch")
    return strip_doc(stmt.body), strip_doc(stmt.orelse)


def single_return(stmts, what, line):
    if len(stmts) != 1 or not isinstance(stmts[0], ast.Return) or stmts[0].value is None:
        bad = stmts[0].lineno if stmts else line
        raise Bad(f"line {bad}: {what}: the branch must be a single `return <expr>`")
    return stmts[0].value


def name_of(k, where):
    if k not in NAMES:
        raise Bad(f"{where}: factor {k} has no named constant (the source formula changed)")
    return NAMES[k]


# ----------------------------------------------------------------------------------------------
# the methods whose constants are extracted
# ----------------------------------------------------------------------------------------------
def read_get_linear(fn, src):
    check_signature(fn, "get_linear", ["view_method"], ["self", "v"])
    body = strip_doc(fn.body)
    if len(body) != 1:
        raise Bad(f"line {fn.lineno}: get_linear is not a single if/else")
    atoms = [("lin", expr_dump("self.data.get_linear(v)")),
             ("nb", expr_dump("self.data.reduce_neighborhood(v, add, 0)"))]
    out = {}
    for d, br in zip(DIRS, binary_else(body[0], "get_linear")):
        f = linear_form(single_return(br, "get_linear", body[0].lineno), atoms, src)
        out[d] = (f["lin"], f["nb"])
    return out


def read_get_quadratic(fn, src):
    check_signature(fn, "get_quadratic", ["view_method"], ["self", "u", "v", "default"])
    body = strip_doc(fn.body)
    head = parse_body(GET_QUADRATIC_HEAD)
    if len(body) != 2:
        raise Bad(f"line {fn.lineno}: get_quadratic: expected exactly 2 statements, found {len(body)}")
    same_stmts(body[:1], head, fn.lineno, "get_quadratic", src)
    t = body[1]
    want = parse_body(GET_QUADRATIC_HANDLER)[0]
    if not isinstance(t, ast.Try) or t.orelse or t.finalbody or len(t.handlers) != 1:
        raise Bad(f"line {t.lineno}: get_quadratic: expected try/except ValueError")
    if dump(t.handlers[0]) != dump(want.handlers[0]):
        raise Bad(f"line {t.handlers[0].lineno}: get_quadratic: the except clause is not the expected one")
    tb = strip_doc(t.body)
    if len(tb) != 1:
        raise Bad(f"line {t.lineno}: get_quadratic: the try body is not a single if/else")
    atoms = [("q", expr_dump("self.data.get_quadratic(u, v)"))]
    out = {}
    for d, br in zip(DIRS, binary_else(tb[0], "get_quadratic")):
        out[d] = linear_form(single_return(br, "get_quadratic", tb[0].lineno), atoms, src)["q"]
    return out


def read_iter(fn, key, args, targets, call, src):
    """for <targets>, bias in self.data.<call>: yield <targets>, k * bias"""
    check_signature(fn, key, ["view_method"], args)
    body = strip_doc(fn.body)
    if len(body) != 1:
        raise Bad(f"line {fn.lineno}: {key} is not a single if/else")
    want_target = dump(ast.parse(", ".join(targets + ["bias"]), mode="eval").body).replace("Load()", "Store()")
    want_iter = expr_dump("self.data." + call)
    atoms = [("bias", expr_dump("bias"))]
    out = {}
    for d, br in zip(DIRS, binary_else(body[0], key)):
        if len(br) != 1 or not isinstance(br[0], ast.For) or br[0].orelse:
            raise Bad(f"line {(br[0].lineno if br else body[0].lineno)}: {key}: the branch must be a single for loop")
        loop = br[0]
        if dump(loop.target) != want_target or dump(loop.iter) != want_iter:
            raise Bad(f"line {loop.lineno}: {key}: expected `for {', '.join(targets + ['bias'])} in self.data.{call}:`")
        lb = strip_doc(loop.body)
        if not (len(lb) == 1 and isinstance(lb[0], ast.Expr) and isinstance(lb[0].value, ast.Yield)
                and isinstance(lb[0].value.value, ast.Tuple) and len(lb[0].value.value.elts) == len(targets) + 1):
            raise Bad(f"line {(lb[0].lineno if lb else loop.lineno)}: {key}: the loop body must be a single "
                      f"`yield {', '.join(targets)}, <k * bias>`")
        elts = lb[0].value.value.elts
        for e, tname in zip(elts, targets):
            if not (isinstance(e, ast.Name) and e.id == tname):
                raise Bad(f"line {e.lineno}: {key}: expected `{tname}` in the yielded tuple, found: {seg(src, e)}")
        out[d] = linear_form(elts[-1], atoms, src)["bias"]
    return out


def combo_test(t, view, base):
    """self._vartype is <view> and self.data.vartype() is <base>"""
    return dump(t) == expr_dump(f"self._vartype is {view} and self.data.vartype() is {base}")


def read_offset_getter(fn, src):
    check_signature(fn, "offset (getter)", ["property"], ["self"])
    body = strip_doc(fn.body)
    if len(body) != 1 or not isinstance(body[0], ast.If):
        raise Bad(f"line {fn.lineno}: the offset getter is not a single if/elif chain")
    s0 = body[0]
    if dump(s0.test) != expr_dump("self._vartype == self.data.vartype()"):
        raise Bad(f"line {s0.lineno}: offset getter: expected `if self._vartype == self.data.vartype():`")
    same_stmts(strip_doc(s0.body), parse_body("return self.data.offset"), s0.lineno, "offset getter", src)
    atoms = [("off", expr_dump("self.data.offset")), ("lin", expr_dump("self.data.reduce_linear(add, 0)")),
             ("quad", expr_dump("self.data.reduce_quadratic(add, 0)"))]
    out = {}
    cur = s0
    for d, (view, base) in zip(DIRS, (("BINARY", "SPIN"), ("SPIN", "BINARY"))):
        if len(cur.orelse) != 1 or not isinstance(cur.orelse[0], ast.If):
            raise Bad(f"line {cur.lineno}: offset getter: expected an `elif` for the {view}-over-{base} combination")
        cur = cur.orelse[0]
        if not combo_test(cur.test, view, base):
            raise Bad(f"line {cur.lineno}: offset getter: expected "
                      f"`elif self._vartype is {view} and self.data.vartype() is {base}:`")
        f = linear_form(single_return(strip_doc(cur.body), "offset getter", cur.lineno), atoms, src)
        out[d] = (f["off"], f["lin"], f["quad"])
    same_stmts(strip_doc(cur.orelse), parse_body('raise RuntimeError("unexpected vartype combination")'),
               cur.lineno, "offset getter (else branch)", src)
    return out


def read_energies(fn, src):
    check_signature(fn, "energies", ["view_method"], ["self", "samples_like", "dtype"])
    body = strip_doc(fn.body)
    head, tail = parse_body(ENERGIES_HEAD), parse_body(ENERGIES_TAIL)
    if len(body) != len(head) + 1 + len(tail):
        raise Bad(f"line {fn.lineno}: energies: expected exactly {len(head) + 1 + len(tail)} statements, "
                  f"found {len(body)}")
    same_stmts(body[:len(head)], head, fn.lineno, "energies", src)
    same_stmts(body[len(head) + 1:], tail, fn.lineno, "energies", src)
    out = {}
    for d, br in zip(DIRS, binary_else(body[len(head)], "energies")):
        steps = []
        for s in br:
            if not (isinstance(s, ast.AugAssign) and isinstance(s.target, ast.Name) and s.target.id == "samples"):
                raise Bad(f"line {s.lineno}: energies: statement outside the grammar "
                          f"(`samples <op>= <integer>`): {seg(src, s)}")
            c = s.value
            neg = False
            if isinstance(c, ast.UnaryOp) and isinstance(c.op, ast.USub):
                neg, c = True, c.operand
            if not (isinstance(c, ast.Constant) and type(c.value) is int):
                raise Bad(f"line {s.lineno}: energies: expected an integer literal, found: {seg(src, s.value)}")
            k = Fraction(-c.value if neg else c.value)
            if isinstance(s.op, ast.Mult):
                steps.append(("SMul", k))
            elif isinstance(s.op, ast.Add):
                steps.append(("SAdd", k))
            elif isinstance(s.op, ast.Sub):
                steps.append(("SAdd", -k))
            elif isinstance(s.op, ast.FloorDiv):
                if k <= 0:
                    raise Bad(f"line {s.lineno}: energies: floor division by a non-positive constant")
                steps.append(("SFloorDiv", k))
            else:
                raise Bad(f"line {s.lineno}: energies: operator outside the grammar: {seg(src, s)}")
        if not steps:
            raise Bad(f"line {body[len(head)].lineno}: energies: empty conversion branch")
        out[d] = steps
    return out


def main():
    build, out = sys.argv[1], sys.argv[2]
    path = os.path.join(build, "dimod", "binary", "vartypeview.py")
    src = open(path).read()
    print("INPUT %s %s" % (path, hashlib.sha256(src.encode()).hexdigest()))
    tree = ast.parse(src)

    # the decorator
    vm = [n for n in tree.body if isinstance(n, ast.FunctionDef) and n.name == "view_method"]
    if len(vm) != 1:
        raise Bad("function view_method not found (or defined twice)")
    want_vm = ast.parse(textwrap.dedent(VIEW_METHOD)).body[0]
    check_signature(vm[0], "view_method", [], ["f"])
    vm_body = strip_doc(vm[0].body)
    if (len(vm_body) == 2 and isinstance(vm_body[0], ast.FunctionDef)
            and dump(vm_body[0].args) == dump(want_vm.body[0].args)
            and [dump(x) for x in vm_body[0].decorator_list] == [dump(x) for x in want_vm.body[0].decorator_list]):
        same_stmts(strip_doc(vm_body[0].body), want_vm.body[0].body, vm_body[0].lineno, "view_method wrapper", src)
        same_stmts(vm_body[1:], want_vm.body[1:], vm[0].lineno, "view_method", src)
    else:
        raise Bad(f"line {vm[0].lineno}: view_method is not `@functools.wraps(f) def wrapper(obj, *args, **kwargs): "
                  f"...; return wrapper`")

    cls = [n for n in tree.body if isinstance(n, ast.ClassDef) and n.name == "VartypeView"]
    if len(cls) != 1:
        raise Bad("class VartypeView not found (or defined twice)")
    fns = {}
    for n in cls[0].body:
        if isinstance(n, ast.FunctionDef):
            key = n.name
            decos = [deco_name(d) for d in n.decorator_list]
            if n.name == "offset":
                key = "offset.setter" if "offset.setter" in decos else "offset.getter"
            if key in fns:
                raise Bad(f"line {n.lineno}: {key} is defined twice")
            fns[key] = n
    needed = list(TEMPLATES) + ["offset.getter", "get_linear", "get_quadratic", "iter_neighborhood",
                                "iter_quadratic", "energies"]
    for need in needed:
        if need not in fns:
            raise Bad(f"method {need} not found")
    for key in TEMPLATES:
        check_template(fns[key], key, src)

    GL = read_get_linear(fns["get_linear"], src)
    GQ = read_get_quadratic(fns["get_quadratic"], src)
    IN = read_iter(fns["iter_neighborhood"], "iter_neighborhood", ["self", "v"], ["u"], "iter_neighborhood(v)", src)
    IQ = read_iter(fns["iter_quadratic"], "iter_quadratic", ["self"], ["u", "v"], "iter_quadratic()", src)
    OF = read_offset_getter(fns["offset.getter"], src)
    EN = read_energies(fns["energies"], src)

    lines = ["(* GENERATED by translators/view_reads.py from dimod/binary/vartypeview.py - do not edit *)",
             "From Coq Require Import List QArith Qcanon.",
             "From Dimod Require Import Base.Util Model.Poly Gen.Gen_View.",
             "Import ListNotations.", "Open Scope Qc_scope.", "",
             "(* get_linear through the view: (factor on data.get_linear(v), factor on data.reduce_neighborhood(v, add, 0)) *)",
             "Definition gen_get_linear (d : vdir) : Qc * Qc :=", "  match d with"]
    for d in DIRS:
        w = "get_linear " + d
        lines.append(f"  | {d} => ({name_of(GL[d][0], w)}, {name_of(GL[d][1], w)})")
    lines += ["  end.", ""]
    for gname, tab, comment in (
            ("gen_get_quadratic", GQ, "get_quadratic through the view: factor on data.get_quadratic(u, v)"),
            ("gen_iter_neighborhood", IN, "iter_neighborhood through the view: factor on the yielded bias"),
            ("gen_iter_quadratic", IQ, "iter_quadratic through the view: factor on the yielded bias")):
        lines += [f"(* {comment} *)", f"Definition {gname} (d : vdir) : Qc :=", "  match d with"]
        for d in DIRS:
            lines.append(f"  | {d} => {name_of(tab[d], gname + ' ' + d)}")
        lines += ["  end.", ""]
    lines += ["(* offset getter: factors on (data.offset, data.reduce_linear(add, 0), data.reduce_quadratic(add, 0)) *)",
              "Definition gen_offset (d : vdir) : Qc * Qc * Qc :=", "  match d with"]
    for d in DIRS:
        w = "offset getter " + d
        lines.append("  | %s => (%s, %s, %s)" % (d, name_of(OF[d][0], w), name_of(OF[d][1], w), name_of(OF[d][2], w)))
    lines += ["  end.", "",
              "(* energies: the in-place steps applied to the sample array before data.energies",
              "   (`samples *= k` / `samples += k` / `samples -= k` (= SAdd (-k)) / `samples //= k`) *)",
              "Inductive sample_step := SMul (k : Qc) | SAdd (k : Qc) | SFloorDiv (k : Qc).", "",
              "Definition gen_energies_steps (d : vdir) : list sample_step :=", "  match d with"]
    for d in DIRS:
        lines.append("  | %s => [%s]" % (d, "; ".join("%s %s" % (c, name_of(k, "energies " + d)) for c, k in EN[d])))
    lines += ["  end.", ""]
    os.makedirs(out, exist_ok=True)
    p = os.path.join(out, "Gen_ViewReads.v")
    new = "\n".join(lines)
    if not os.path.exists(p) or open(p).read() != new:
        open(p, "w").write(new)


if __name__ == "__main__":
    try:
        main()
    except Bad as e:
        print("view_reads.py: " + str(e))
        sys.exit(1)
