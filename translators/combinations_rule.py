#!/venv/bin/python
"""Fail-closed translator: dimod/generators/constraints.py::combinations -> coq/theories/Gen/Gen_Combinations.v

usage: combinations_rule.py <build_dir> <out_dir>

Extracts the coefficient rule of combinations(n, k, strength): the statements

    lbias = float(<expr>)
    qbias = float(<expr>)
    Q = np.triu(np.ones((num_vars, num_vars))*qbias, k=1)
    np.fill_diagonal(Q, lbias)
    bqm = BinaryQuadraticModel.from_qubo(Q, offset=<expr>)

must each occur exactly once, in this order, at the top level of the function; <expr> is integer
arithmetic (+, -, *, ** with a literal exponent) over `strength`, `k` and integer literals.  The three
expressions are emitted as Coq functions over Z (linear bias of every variable, quadratic bias of
every pair, offset).  Proofs/CombRule.v proves strength * (sum x - k)^2 from them.
Any other shape is an error naming the source line.
"""
import ast
import hashlib
import os
import sys


class Bad(Exception):
    def __init__(self, node, why):
        self.node, self.why = node, why


def expr(n):
    if isinstance(n, ast.Constant) and type(n.value) is int:
        return f"({n.value})"
    if isinstance(n, ast.Name) and n.id in ("strength", "k"):
        return n.id
    if isinstance(n, ast.UnaryOp) and isinstance(n.op, ast.USub):
        return f"(- {expr(n.operand)})"
    if isinstance(n, ast.BinOp):
        if isinstance(n.op, ast.Pow):
            if not (isinstance(n.right, ast.Constant) and type(n.right.value) is int and n.right.value >= 0):
                raise Bad(n, "literal non-negative exponent expected")
            return f"({expr(n.left)} ^ {n.right.value})"
        op = {ast.Add: "+", ast.Sub: "-", ast.Mult: "*"}.get(type(n.op))
        if op is None:
            raise Bad(n, "only +, -, * and ** are understood")
        return f"({expr(n.left)} {op} {expr(n.right)})"
    raise Bad(n, "integer arithmetic over strength and k expected")


def float_of(n):
    if isinstance(n, ast.Call) and isinstance(n.func, ast.Name) and n.func.id == "float" and len(n.args) == 1 \
            and not n.keywords:
        return expr(n.args[0])
    raise Bad(n, "float(<expr>) expected")


def same(node, template):
    return ast.dump(node) == ast.dump(ast.parse(template).body[0])


def main():
    build, out = sys.argv[1], sys.argv[2]
    src = os.path.join(build, "dimod", "generators", "constraints.py")
    data = open(src, "rb").read()
    print("INPUT", src, hashlib.sha256(data).hexdigest())
    text = data.decode("utf-8")
    lines = text.splitlines()
    tree = ast.parse(text)
    try:
        fns = [n for n in tree.body if isinstance(n, ast.FunctionDef) and n.name == "combinations"]
        if len(fns) != 1:
            raise Bad(tree, "exactly one function combinations expected")
        fn = fns[0]
        found = {}
        order = []
        for st in fn.body:
            if isinstance(st, ast.Assign) and len(st.targets) == 1 and isinstance(st.targets[0], ast.Name):
                name = st.targets[0].id
                if name in ("lbias", "qbias"):
                    if name in found:
                        raise Bad(st, f"{name} assigned twice")
                    found[name] = float_of(st.value)
                    order.append(name)
                elif name == "Q":
                    if "Q" in found or not same(st, "Q = np.triu(np.ones((num_vars, num_vars))*qbias, k=1)"):
                        raise Bad(st, "`Q = np.triu(np.ones((num_vars, num_vars))*qbias, k=1)` expected")
                    found["Q"] = True
                    order.append("Q")
                elif name == "bqm":
                    c = st.value
                    ok = (isinstance(c, ast.Call) and isinstance(c.func, ast.Attribute) and c.func.attr == "from_qubo"
                          and isinstance(c.func.value, ast.Name) and c.func.value.id == "BinaryQuadraticModel"
                          and len(c.args) == 1 and isinstance(c.args[0], ast.Name) and c.args[0].id == "Q"
                          and len(c.keywords) == 1 and c.keywords[0].arg == "offset")
                    if "bqm" in found or not ok:
                        raise Bad(st, "`bqm = BinaryQuadraticModel.from_qubo(Q, offset=<expr>)` expected")
                    found["bqm"] = expr(c.keywords[0].value)
                    order.append("bqm")
            elif isinstance(st, ast.Expr) and isinstance(st.value, ast.Call) and "fill_diagonal" in ast.dump(st):
                if "fill" in found or not same(st, "np.fill_diagonal(Q, lbias)"):
                    raise Bad(st, "`np.fill_diagonal(Q, lbias)` expected")
                found["fill"] = True
                order.append("fill")
            # mentions of the names anywhere else would change their meaning
            elif any(isinstance(x, ast.Name) and x.id in ("lbias", "qbias", "Q") and isinstance(x.ctx, ast.Store)
                     for x in ast.walk(st)):
                raise Bad(st, "lbias / qbias / Q assigned inside a compound statement")
        if order != ["lbias", "qbias", "Q", "fill", "bqm"]:
            raise Bad(fn, f"expected lbias, qbias, Q, fill_diagonal, from_qubo in this order; found {order}")
    except Bad as e:
        ln = getattr(e.node, "lineno", 0)
        print(f"combinations_rule: {src}:{ln}: {e.why}")
        if ln:
            print("    " + lines[ln - 1].strip())
        return 2
    os.makedirs(out, exist_ok=True)
    new = "\n".join([
        "(* GENERATED by translators/combinations_rule.py from dimod/generators/constraints.py::combinations - do not edit.",
        f"   source sha256 {hashlib.sha256(data).hexdigest()} *)",
        "From Coq Require Import ZArith.",
        "Open Scope Z_scope.",
        "",
        "(* linear bias of every variable, quadratic bias of every pair, offset *)",
        f"Definition comb_lbias (strength k : Z) : Z := {found['lbias']}.",
        f"Definition comb_qbias (strength k : Z) : Z := {found['qbias']}.",
        f"Definition comb_offset (strength k : Z) : Z := {found['bqm']}.",
        ""])
    dst = os.path.join(out, "Gen_Combinations.v")
    if not os.path.exists(dst) or open(dst).read() != new:
        with open(dst, "w") as fh:
            fh.write(new)
    return 0


if __name__ == "__main__":
    sys.exit(main())
