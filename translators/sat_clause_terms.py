#!/venv/bin/python
"""Fail-closed translator: dimod/generators/satisfiability.py -> coq/theories/Gen/Gen_Sat.v

usage: sat_clause_terms.py <build_dir> <out_dir>

Pins how a clause draw becomes terms of the BQM.  The bodies of _kmcsat_interactions, random_kmcsat,
random_nae3sat and random_2in4sat are compared statement by statement with the shapes below (docstrings and
annotations ignored, every numeric literal a hole):

  * k DISTINCT variables:                   rng.choice(num_variables, k, replace=False)
  * a sign per variable:                    <scale> * rng.integers(<low>, <high>, endpoint=True, size=k) - <shift>
  * planting: signs are redrawn (same expression) while abs(sum(signs)) > <bound>
  * a term per PAIR of the clause's literals, itertools.combinations(zip(variables, signs), <2>), with the
    product of the two signs:               yield u, v, usign*vsign
  * the terms are ADDED to an empty SPIN model (add_quadratic_from), then relabelled
  * random_nae3sat / random_2in4sat are random_kmcsat with k = <3> / <4>

The literals are emitted as integers.  Proofs/SatGen.v proves from them that a sign is +1 or -1, that the term
list of a clause is the one Model/Sat.v uses, and the planted all-(+1) assignment is a ground state clause by
clause; only the draws of numpy's Generator stay an oracle (replayed by the worker).  Any other shape is an error.
"""
import ast
import copy
import hashlib
import os
import sys

SHAPES = {
    "_kmcsat_interactions": """
rng = np.random.default_rng(seed)
for _ in range(num_clauses):
    variables = rng.choice(num_variables, k, replace=False)
    signs = 2 * rng.integers(0, 1, endpoint=True, size=k) - 1
    while plant_solution and abs(sum(signs)) > 1:
        signs = 2 * rng.integers(0, 1, endpoint=True, size=k) - 1
    for (u, usign), (v, vsign) in itertools.combinations(zip(variables, signs), 2):
        yield (u, v, usign * vsign)
""",
    "random_kmcsat": """
if isinstance(variables, collections.abc.Sequence):
    num_variables = len(variables)
    labels = variables
else:
    num_variables = variables
    labels = None
if num_variables < 1:
    raise ValueError('number of variables must be non-negative')
elif k < 1:
    raise ValueError('number of variables must be non-negative')
elif num_clauses < 0:
    raise ValueError('{num_clauses} must be non-negative')
elif num_variables < k:
    raise ValueError(f'must use at least {k}<= number of variables')
bqm = BinaryQuadraticModel(num_variables, Vartype.SPIN)
bqm.add_quadratic_from(_kmcsat_interactions(num_variables, k, num_clauses, plant_solution=plant_solution, seed=seed))
if labels:
    bqm.relabel_variables(dict(enumerate(labels)))
return bqm
""",
    "random_nae3sat": "return random_kmcsat(variables, 3, num_clauses, plant_solution=plant_solution, seed=seed)",
    "random_2in4sat": "return random_kmcsat(variables, 4, num_clauses, plant_solution=plant_solution, seed=seed)",
}
SIGS = {"_kmcsat_interactions": ["num_variables", "k", "num_clauses"], "random_kmcsat": ["variables", "k", "num_clauses"],
        "random_nae3sat": ["variables", "num_clauses"], "random_2in4sat": ["variables", "num_clauses"]}


class Bad(Exception):
    def __init__(self, node, why):
        self.node, self.why = node, why


class Holes(ast.NodeTransformer):
    def __init__(self):
        self.values = []

    def visit_Constant(self, n):
        if type(n.value) is int:
            self.values.append(n.value)
            return ast.copy_location(ast.Name(id="NUM", ctx=ast.Load()), n)
        if type(n.value) is str:        # error messages are not part of the construction
            return ast.copy_location(ast.Name(id="STR", ctx=ast.Load()), n)
        return n

    def visit_JoinedStr(self, n):
        return ast.copy_location(ast.Name(id="STR", ctx=ast.Load()), n)


def normal(stmts):
    h = Holes()
    return [ast.dump(h.visit(copy.deepcopy(s))) for s in stmts], h.values


def main():
    build, out = sys.argv[1], sys.argv[2]
    src = os.path.join(build, "dimod", "generators", "satisfiability.py")
    data = open(src, "rb").read()
    print("INPUT", src, hashlib.sha256(data).hexdigest())
    text = data.decode("utf-8")
    lines = text.splitlines()
    tree = ast.parse(text)
    vals = {}
    try:
        for name, shape in SHAPES.items():
            fns = [n for n in tree.body if isinstance(n, ast.FunctionDef) and n.name == name]
            if len(fns) != 1:
                raise Bad(tree, f"exactly one function {name} expected")
            fn = fns[0]
            a = fn.args
            if [x.arg for x in a.args] != SIGS[name] or [x.arg for x in a.kwonlyargs] != ["plant_solution", "seed"] \
                    or [ast.dump(d) for d in a.kw_defaults] != [ast.dump(ast.Constant(False)), ast.dump(ast.Constant(None))] \
                    or a.vararg or a.kwarg or a.defaults or fn.decorator_list:
                raise Bad(fn, f"signature of {name} changed")
            body = fn.body
            if body and isinstance(body[0], ast.Expr) and isinstance(body[0].value, ast.Constant) \
                    and isinstance(body[0].value.value, str):
                body = body[1:]
            got, v = normal(body)
            want, _ = normal(ast.parse(shape).body)
            if len(got) != len(want):
                raise Bad(fn, f"{name}: {len(got)} statements, expected {len(want)}")
            for st, g, w in zip(body, got, want):
                if g != w:
                    raise Bad(st, f"{name}: statement shape not recognised")
            vals[name] = v
        ki = vals["_kmcsat_interactions"]
        if len(ki) != 10 or ki[0:4] != ki[5:9]:
            raise Bad(tree, "_kmcsat_interactions: the redrawn signs must use the same expression as the first draw")
        if len(vals["random_nae3sat"]) != 1 or len(vals["random_2in4sat"]) != 1:
            raise Bad(tree, "wrappers: one literal expected")
    except Bad as e:
        ln = getattr(e.node, "lineno", 0)
        print(f"sat_clause_terms: {src}:{ln}: {e.why}")
        if ln:
            print("    " + lines[ln - 1].strip())
        return 2
    os.makedirs(out, exist_ok=True)
    scale, low, high, shift, bound = ki[0], ki[1], ki[2], ki[3], ki[4]
    new = "\n".join([
        "(* GENERATED by translators/sat_clause_terms.py from dimod/generators/satisfiability.py - do not edit.",
        f"   source sha256 {hashlib.sha256(data).hexdigest()} *)",
        "From Coq Require Import ZArith.",
        "",
        "(* sign of a literal: scale * b - shift with b drawn from low .. high (inclusive) *)",
        f"Definition sat_sign_scale : Z := ({scale})%Z.",
        f"Definition sat_sign_low : Z := ({low})%Z.",
        f"Definition sat_sign_high : Z := ({high})%Z.",
        f"Definition sat_sign_shift : Z := ({shift})%Z.",
        "(* planted clauses: |sum of the signs| <= bound *)",
        f"Definition sat_plant_bound : Z := ({bound})%Z.",
        "(* one term per combination of this many literals of the clause *)",
        f"Definition sat_term_size : nat := {ki[9]}%nat.",
        f"Definition sat_nae3_k : nat := {vals['random_nae3sat'][0]}%nat.",
        f"Definition sat_2in4_k : nat := {vals['random_2in4sat'][0]}%nat.",
        ""])
    dst = os.path.join(out, "Gen_Sat.v")
    if not os.path.exists(dst) or open(dst).read() != new:
        with open(dst, "w") as fh:
            fh.write(new)
    return 0


if __name__ == "__main__":
    sys.exit(main())
