#!/venv/bin/python
"""Fail-closed translator: constants and rules of the constrained quadratic model that
Model/CQMSpec.v would otherwise restate by hand -> coq/theories/Gen/Gen_CQM.v

  dimod/include/dimod/vartypes.h                     default_min/default_max/min/max per vartype
  dimod/include/dimod/constrained_quadratic_model.h  change_vartype: the (multiplier, offset) of the
                                                     SPIN->BINARY and BINARY->SPIN substitutions and the
                                                     bounds written afterwards
  dimod/constrained/cyconstrained.pyx                flip_variable: (multiplier, offset) per vartype;
                                                     fix_variable: the discrete-marker update
                                                     (BINARY and non-zero; marked and has_variable)
  dimod/constrained/constrained.py                   flip_variable: affected discrete constraints are
                                                     collected BEFORE the flip; remove_variable refuses
                                                     a variable of a discrete constraint

Every recognised construct must be found exactly once in the expected shape; anything else is an
error (the driver reports a broken tie).  Proofs/GenCQMTie.v proves that the hand written model
uses exactly these constants and rules.

usage: cqm_rules.py <build_dir> <out_dir>
"""
import hashlib
import os
import re
import sys
from fractions import Fraction


class Bad(Exception):
    pass


def read(build, rel):
    path = os.path.join(build, rel)
    src = open(path).read()
    print("INPUT %s %s" % (path, hashlib.sha256(src.encode()).hexdigest()))
    return src


def one(pattern, src, what, flags=re.S):
    ms = list(re.finditer(pattern, src, flags))
    if len(ms) != 1:
        raise Bad("%s: expected exactly one match, found %d" % (what, len(ms)))
    return ms[0]


def cq(fr):
    fr = Fraction(fr)
    names = {Fraction(1, 2): "half", Fraction(2): "two", Fraction(1): "1", Fraction(0): "0",
             Fraction(-1): "(- (1))"}
    if fr in names:
        return names[fr]
    return "(qc (%d) %d)" % (fr.numerator, fr.denominator)


INT53 = "((std::int64_t)1 << (std::numeric_limits<Bias>::digits)) - 1"


def limit_value(expr, maxval, what):
    e = expr.strip()
    if re.fullmatch(r"[+-]?\d+", e):
        return Fraction(int(e))
    if re.fullmatch(r"[+-]?\d+(\.\d*)?e[+-]?\d+", e):
        return Fraction(float(e))
    if e == "max()":
        return maxval
    if e == "-max()":
        return -maxval
    if e == INT53:
        return Fraction(2 ** 53 - 1)          # Bias = double: 53 digits
    raise Bad("%s: unrecognised limit expression %r" % (what, e))


def vartype_limits(src):
    out = {}
    for vt in ("BINARY", "SPIN", "INTEGER", "REAL"):
        m = one(r"class vartype_limits<Bias, Vartype::%s> \{\s*public:(.*?)\n\};" % vt, src, "vartype_limits<%s>" % vt)
        body = m.group(1)
        fns = {}
        for name in ("default_max", "default_min", "max", "min"):
            f = one(r"static constexpr Bias %s\(\) noexcept \{\s*return (.*?);\s*\}" % name, body,
                    "vartype_limits<%s>::%s" % (vt, name))
            fns[name] = f.group(1)
        rest = re.sub(r"static constexpr Bias \w+\(\) noexcept \{.*?\}", "", body, flags=re.S).strip()
        if rest:
            raise Bad("vartype_limits<%s>: unexpected members %r" % (vt, rest[:80]))
        mx = limit_value(fns["max"], None, vt + " max")
        out[vt] = {"max": mx, "min": limit_value(fns["min"], mx, vt + " min"),
                   "default_max": limit_value(fns["default_max"], mx, vt + " default_max"),
                   "default_min": limit_value(fns["default_min"], mx, vt + " default_min")}
    return out


def num(s):
    s = s.strip()
    if not re.fullmatch(r"[+-]?(\d+\.?\d*|\.\d+)", s):
        raise Bad("unrecognised numeric literal %r" % s)
    return Fraction(s if not s.lstrip("+-").startswith(".") else s.replace(".", "0.", 1))


def change_vartype(src):
    m = one(r"void ConstrainedQuadraticModel<bias_type, index_type>::change_vartype\(Vartype vartype,\s*index_type v\) \{(.*?)\n\}\n",
            src, "change_vartype")
    body = m.group(1)
    res = {}
    for key, cond in (("s2b", r"source == Vartype::SPIN && target == Vartype::BINARY"),
                      ("b2s", r"source == Vartype::BINARY && target == Vartype::SPIN")):
        b = one(r"else if \(%s\) \{(.*?)\n    \}" % cond, body, "change_vartype branch " + key).group(1)
        o = one(r"objective\.substitute_variable\(v, ([^,]+), ([^)]+)\);", b, key + " objective substitution")
        c = one(r"c_ptr->substitute_variable\(v, ([^,]+), ([^)]+)\);", b, key + " constraint substitution")
        if (o.group(1), o.group(2)) != (c.group(1), c.group(2)):
            raise Bad("change_vartype %s: objective and constraints use different substitutions" % key)
        lb = one(r"varinfo_\[v\]\.lb = ([^;]+);", b, key + " lb").group(1)
        ub = one(r"varinfo_\[v\]\.ub = ([^;]+);", b, key + " ub").group(1)
        vt = one(r"varinfo_\[v\]\.vartype = Vartype::(\w+);", b, key + " vartype").group(1)
        if vt != {"s2b": "BINARY", "b2s": "SPIN"}[key]:
            raise Bad("change_vartype %s: writes vartype %s" % (key, vt))
        res[key] = (num(o.group(1)), num(o.group(2)), num(lb), num(ub))
    return res


def flip_variable(src):
    m = one(r"    def flip_variable\(self, v\):\n(.*?)\n\n", src, "cyconstrained.flip_variable")
    body = m.group(1)
    expect = (r"\s*cdef Py_ssize_t vi = self\.variables\.index\(v\)\n"
              r"\s*if self\.cppcqm\.vartype\(vi\) == cppVartype\.SPIN:\n"
              r"\s*self\.cppcqm\.substitute_variable\(vi, ([^,]+), ([^)]+)\)\n"
              r"\s*elif self\.cppcqm\.vartype\(vi\) == cppVartype\.BINARY:\n"
              r"\s*self\.cppcqm\.substitute_variable\(vi, ([^,]+), ([^)]+)\)\n"
              r"\s*else:\n"
              r"\s*raise ValueError\(f?\"can only flip SPIN and BINARY variables\"\)\s*")
    f = re.fullmatch(expect, body)
    if not f:
        raise Bad("cyconstrained.flip_variable: body has an unrecognised shape")
    return (num(f.group(1)), num(f.group(2))), (num(f.group(3)), num(f.group(4)))


def marker_rules(pyx, py):
    # fix_variable: only BINARY fixed to a non-zero value; every marked constraint that has the variable
    one(r"if self\.cppcqm\.vartype\(vi\) == cppVartype\.BINARY and assignment:\n"
        r"(?:\s*#[^\n]*\n)*"
        r"\s*for i in range\(self\.cppcqm\.num_constraints\(\)\):\n"
        r"\s*if \(self\.cppcqm\.constraint_ref\(i\)\.marked_discrete\(\)\n"
        r"\s*and self\.cppcqm\.constraint_ref\(i\)\.has_variable\(vi\)\):\n"
        r"\s*self\.cppcqm\.constraint_ref\(i\)\.mark_discrete\(False\)\n"
        r"\n\s*self\.cppcqm\.fix_variable\(vi, assignment\)\n"
        r"\s*self\.variables\._remove\(v\)\n", pyx, "cyconstrained.fix_variable marker update")
    # flip_variable: discrete constraints containing v, determined before the flip, unmarked after it
    one(r"discrete = \[label for label in self\.discrete\n"
        r"\s*if v in self\.constraints\[label\]\.lhs\.variables\]\n"
        r"\n\s*super\(\)\.flip_variable\(v\)\n"
        r"\n\s*for label in discrete:\n"
        r"\s*self\.discrete\.discard\(label\)[^\n]*\n", py, "constrained.flip_variable marker update")
    # remove_variable: refuses a variable used in a discrete constraint, before touching anything
    one(r"    def remove_variable\(self, v: Variable\):\n"
        r"\s*for label in self\.discrete:\n"
        r"\s*if v in self\.constraints\[label\]\.lhs\.variables:\n"
        r"(?:\s*#[^\n]*\n)*"
        r"\s*raise ValueError\(\"cannot remove a variable used in a discrete constraint\"\)\n"
        r"\n\s*super\(\)\.remove_variable\(v\)\n", py, "constrained.remove_variable discrete guard")
    # DiscreteView: membership = marked and one-hot; discard/add set the C++ marker
    one(r"def is_discrete\(self\):\n\s*constraint = self\.constraint\(\)\n"
        r"\s*return constraint\.marked_discrete\(\) and constraint\.is_onehot\(\)\n",
        open(os.path.join(os.path.dirname(PYX_PATH), "cyexpression.pyx")).read(), "cyexpression.is_discrete")


def exceptions_and_weights(pyx, py, cyexpr, cyvars):
    """exception classes and the weight / penalty rules"""
    out = {}
    # Variables.index: an unknown label is a ValueError (every label is resolved through it first)
    one(r"raise ValueError\('unknown variable \{!r\}'\.format\(v\)\)", cyvars, "cyvariables.index unknown label")
    out["unknown_variable"] = "GValue"
    # constraints[label] of an unknown label: KeyError
    one(r"vi = self\.parent\.constraint_labels\.index\(key\)\n\s*except ValueError as err:\n\s*raise KeyError\(repr\(key\)\) from None",
        pyx, "cyConstraintsView.__getitem__")
    out["unknown_constraint_view"] = "GKey"
    # change_vartype: the C++ logic_error becomes TypeError
    one(r"try:\n\s*self\.cppcqm\.change_vartype\(vt, vi\)\n\s*except RuntimeError as err:\n(?:\s*#[^\n]*\n)*\s*raise TypeError\(",
        pyx, "cyconstrained.change_vartype unsupported")
    out["change_vartype_unsupported"] = "GType"
    # duplicate constraint label: ValueError, checked first in both add_constraint paths
    n = len(re.findall(r"elif label in self\.constraint_labels:\n\s*raise ValueError\(\"a constraint with that label already exists\"\)", py))
    if n != 2:
        raise Bad("constrained.py: expected the duplicate-label check in exactly two add_constraint paths, found %d" % n)
    out["duplicate_constraint_label"] = "GValue"
    # _check_weight: non-positive weight and unknown penalty are ValueErrors; returns 'is quadratic'
    m = one(r"def _check_weight\(weight, penalty\):\n(.*?)\n\n\n", pyx, "_check_weight")
    body = re.sub(r"\s*#[^\n]*", "", m.group(1))
    expect = (r"\s*cdef bias_type _weight = weight\n\s*if _weight <= 0:\n\s*raise ValueError\([^\n]*\)\n"
              r"\s*if penalty not in \('linear', 'quadratic'\):\n\s*raise ValueError\([^\n]*\)\n"
              r"\s*return penalty == 'quadratic'\s*")
    if not re.fullmatch(expect, body):
        raise Bad("_check_weight: body has an unrecognised shape")
    # the quadratic penalty needs BINARY/SPIN variables: both add paths and set_weight
    k = len(re.findall(r"not in \(cppVartype\.BINARY, cppVartype\.SPIN\):\n\s*raise ValueError\(\"quadratic penalty only allowed if the constraint has binary variables\"\)", pyx))
    if k != 2:
        raise Bad("cyconstrained.pyx: expected the quadratic-penalty vartype check in exactly two add paths, found %d" % k)
    one(r"elif penalty == 'quadratic':\n\s*for i in range\(constraint\.num_variables\(\)\):\n"
        r"\s*vartype = self\.parent\.cppcqm\.vartype\(constraint\.variables\(\)\[i\]\)\n"
        r"\s*if vartype not in \(cppVartype\.BINARY, cppVartype\.SPIN\):\n"
        r"\s*raise ValueError\(\"quadratic penalty only allowed if the constraint has binary variables\"\)\n"
        r"\s*_penalty = cppPenalty\.QUADRATIC", cyexpr, "cyConstraintView.set_weight quadratic branch")
    one(r"cdef bias_type _weight = float\('inf'\) if weight is None else weight\n\n\s*if _weight <= 0:\n\s*raise ValueError\(",
        cyexpr, "cyConstraintView.set_weight weight check")
    one(r"if penalty == 'linear':\n\s*_penalty = cppPenalty\.LINEAR", cyexpr, "cyConstraintView.set_weight linear branch")
    out["weight_error"] = "GValue"
    return out


def main():
    global PYX_PATH
    build, out = sys.argv[1], sys.argv[2]
    try:
        lim = vartype_limits(read(build, "dimod/include/dimod/vartypes.h"))
        cv = change_vartype(read(build, "dimod/include/dimod/constrained_quadratic_model.h"))
        PYX_PATH = os.path.join(build, "dimod/constrained/cyconstrained.pyx")
        pyx = read(build, "dimod/constrained/cyconstrained.pyx")
        py = read(build, "dimod/constrained/constrained.py")
        cyexpr = read(build, "dimod/constrained/cyexpression.pyx")
        cyvars = read(build, "dimod/cyvariables.pyx")
        fs, fb = flip_variable(pyx)
        marker_rules(pyx, py)
        exc = exceptions_and_weights(pyx, py, cyexpr, cyvars)
    except Bad as e:
        print("cqm_rules.py: " + str(e))
        return 1
    lines = ["(* GENERATED by translators/cqm_rules.py from dimod/include/dimod/vartypes.h, constrained_quadratic_model.h,",
             "   dimod/constrained/cyconstrained.pyx, constrained.py - do not edit *)",
             "From Coq Require Import ZArith QArith Qcanon.",
             "From Dimod Require Import Base.Util Model.Poly.",
             "Open Scope Qc_scope.", "",
             "(* vartype_limits: (default_min, default_max) and (min, max) *)",
             "Definition gen_default_bounds (vt : vartype) : Qc * Qc :=", "  match vt with"]
    for vt in ("BINARY", "SPIN", "INTEGER", "REAL"):
        lines.append("  | %s => (%s, %s)" % (vt, cq(lim[vt]["default_min"]), cq(lim[vt]["default_max"])))
    lines += ["  end.", "Definition gen_limits (vt : vartype) : Qc * Qc :=", "  match vt with"]
    for vt in ("BINARY", "SPIN", "INTEGER", "REAL"):
        lines.append("  | %s => (%s, %s)" % (vt, cq(lim[vt]["min"]), cq(lim[vt]["max"])))
    lines += ["  end.", "",
              "(* change_vartype: (multiplier, offset, new lower bound, new upper bound) *)",
              "Definition gen_spin_to_binary : Qc * Qc * Qc * Qc := (%s, %s, %s, %s)." % tuple(cq(x) for x in cv["s2b"]),
              "Definition gen_binary_to_spin : Qc * Qc * Qc * Qc := (%s, %s, %s, %s)." % tuple(cq(x) for x in cv["b2s"]), "",
              "(* flip_variable: (multiplier, offset) *)",
              "Definition gen_flip_spin : Qc * Qc := (%s, %s)." % (cq(fs[0]), cq(fs[1])),
              "Definition gen_flip_binary : Qc * Qc := (%s, %s)." % (cq(fb[0]), cq(fb[1])), "",
              "(* discrete-marker rules, recognised in the source in exactly this shape:",
              "   fix_variable: vartype BINARY and assignment non-zero; unmark every constraint that is marked and has the variable;",
              "   flip_variable: unmark the constraints that were discrete (marked and one-hot) and contained the variable before the flip;",
              "   remove_variable: ValueError for a variable of a discrete constraint, before any change *)",
              "Inductive gen_mark_cond := GenMarkedAndContains | GenDiscreteBeforeAndContains.",
              "Definition gen_fix_requires_binary_nonzero : bool := true.",
              "Definition gen_fix_unmark : gen_mark_cond := GenMarkedAndContains.",
              "Definition gen_flip_unmark : gen_mark_cond := GenDiscreteBeforeAndContains.",
              "Definition gen_remove_variable_refuses_discrete : bool := true.", "",
              "(* exception classes *)",
              "Inductive gen_exc := GValue | GType | GKey.",
              "Definition gen_exc_unknown_variable : gen_exc := %s." % exc["unknown_variable"],
              "Definition gen_exc_unknown_constraint_view : gen_exc := %s." % exc["unknown_constraint_view"],
              "Definition gen_exc_change_vartype_unsupported : gen_exc := %s." % exc["change_vartype_unsupported"],
              "Definition gen_exc_duplicate_constraint_label : gen_exc := %s." % exc["duplicate_constraint_label"],
              "Definition gen_exc_remove_variable_discrete : gen_exc := GValue.",
              "Definition gen_exc_flip_not_binary : gen_exc := GValue.",
              "Definition gen_exc_weight : gen_exc := %s." % exc["weight_error"], "",
              "(* weight / penalty table: the weight must be positive; penalties are linear and quadratic; the quadratic",
              "   penalty needs every variable of the constraint to be BINARY or SPIN; checked before the constraint is added *)",
              "Inductive gen_penalty := GenLinear | GenQuadratic.",
              "Definition gen_weight_must_be_positive : bool := true.",
              "Definition gen_penalty_allowed (p : gen_penalty) (vt : vartype) : bool :=",
              "  match p, vt with GenLinear, _ => true | GenQuadratic, (BINARY | SPIN) => true | GenQuadratic, _ => false end.", ""]
    os.makedirs(out, exist_ok=True)
    with open(os.path.join(out, "Gen_CQM.v"), "w") as fh:
        fh.write("\n".join(lines))
    return 0


if __name__ == "__main__":
    sys.exit(main())
