#!/venv/bin/python
"""Fail-closed translator: dimod/generators/gates.py::multiplication_circuit -> coq/theories/Gen/Gen_MultWiring.v

usage: mult_wiring.py <build_dir> <out_dir>

GENERATES the wiring of multiplication_circuit(num_arg1_bits = n, num_arg2_bits = m) as the source states it:

  def AND(i, j) / SUM(i, j) / CARRY(i, j): return <label expression>      -> gw_AND / gw_SUM / gw_CARRY : wire
       label expression: conditional expressions over f-strings  and{..},{..} / sum{..},{..} / carry{..},{..} / p{..} / 'p<k>'
  def gate(i, j):
      inputs = [<wire>]                                                     -> gw_init
      bqm = and_gate(f'a{i}', f'b{j}', inputs[<k>])                         -> gw_and_args
      if ...: inputs.append(<wire>) ... (nested if / elif)                  -> gw_appended ; gw_inputs = gw_init ++ gw_appended
      l = len(inputs)
      if l > <c>:
          outputs = <wire>, <wire>                                          -> gw_outputs
          bqm.update((halfadder_gate if l == <c'> else fulladder_gate)(*inputs, *outputs))   -> gw_adder_kind l
      return bqm
  return quicksum(starmap(gate, product(range(num_arg1_bits), range(num_arg2_bits))))       -> gw_positions
Integer expressions: i, j, num_arg1_bits, num_arg2_bits, num_product_bits (= n + m), literals, +, - (natural subtraction: the source
only subtracts under guards that keep the value non-negative for n, m >= 1).  Any other shape is an error naming the line.
"""
import ast
import hashlib
import os
import re
import sys

PROPERTIES = ["C17"]


class Bad(Exception):
    def __init__(self, node, why):
        self.node, self.why = node, why


def same(node, template):
    return ast.dump(node) == ast.dump(ast.parse(template).body[0])


ENV = {"num_arg1_bits": "n", "num_arg2_bits": "m", "num_product_bits": "(n + m)"}


def arith(n, local):
    if isinstance(n, ast.Constant) and type(n.value) is int and n.value >= 0:
        return str(n.value)
    if isinstance(n, ast.Name):
        if n.id in local:
            return n.id
        if n.id in ENV:
            return ENV[n.id]
    if isinstance(n, ast.BinOp) and type(n.op) in (ast.Add, ast.Sub):
        return f"({arith(n.left, local)} {'+' if isinstance(n.op, ast.Add) else '-'} {arith(n.right, local)})"
    raise Bad(n, "integer expression over i, j, num_arg1_bits, num_arg2_bits, num_product_bits, +, - expected")


def test(n, local):
    if isinstance(n, ast.BoolOp):
        op = "||" if isinstance(n.op, ast.Or) else "&&"
        return "(" + f" {op} ".join(test(v, local) for v in n.values) + ")"
    if isinstance(n, ast.Name):                       # truthiness of an integer
        return f"(negb ({arith(n, local)} =? 0))"
    if isinstance(n, ast.Compare) and len(n.ops) == 1:
        a, b = arith(n.left, local), arith(n.comparators[0], local)
        if isinstance(n.ops[0], ast.Eq):
            return f"({a} =? {b})"
        if isinstance(n.ops[0], ast.Lt):
            return f"({a} <? {b})"
        if isinstance(n.ops[0], ast.Gt):
            return f"({b} <? {a})"
    raise Bad(n, "test: ==, <, >, and/or, or a bare integer expected")


PREFIX = {"and": ("WAnd", 2), "sum": ("WSum", 2), "carry": ("WCarry", 2), "p": ("WP", 1), "a": ("WA", 1), "b": ("WB", 1)}


def label(n, local):
    """an f-string / string naming a wire -> constructor application"""
    if isinstance(n, ast.Constant) and isinstance(n.value, str):
        m = re.fullmatch(r"p(\d+)", n.value)
        if m:
            return f"(WP {int(m.group(1))})"
        raise Bad(n, "constant label: only 'p<k>' is understood")
    if isinstance(n, ast.JoinedStr):
        parts = n.values
        if not (parts and isinstance(parts[0], ast.Constant) and parts[0].value in PREFIX):
            raise Bad(n, "label must start with and / sum / carry / p / a / b")
        ctor, ar = PREFIX[parts[0].value]
        rest = parts[1:]
        want = 2 * ar - 1
        if len(rest) != want:
            raise Bad(n, f"label {parts[0].value}: {ar} formatted value(s) separated by ',' expected")
        args = []
        for k, p in enumerate(rest):
            if k % 2 == 0:
                if not (isinstance(p, ast.FormattedValue) and p.conversion == -1 and p.format_spec is None):
                    raise Bad(n, "plain {expr} expected")
                args.append(arith(p.value, local))
            elif not (isinstance(p, ast.Constant) and p.value == ","):
                raise Bad(n, "',' between the indices expected")
        return f"({ctor} {' '.join(args)})"
    raise Bad(n, "label expected")


def label_expr(n, local):
    if isinstance(n, ast.IfExp):
        return f"(if {test(n.test, local)} then {label_expr(n.body, local)} else {label_expr(n.orelse, local)})"
    return label(n, local)


def wire(n, local):
    """AND(..) / SUM(..) / CARRY(..) call, or a conditional expression of those"""
    if isinstance(n, ast.IfExp):
        return f"(if {test(n.test, local)} then {wire(n.body, local)} else {wire(n.orelse, local)})"
    if isinstance(n, ast.Call) and isinstance(n.func, ast.Name) and n.func.id in ("AND", "SUM", "CARRY") \
            and len(n.args) == 2 and not n.keywords:
        return f"(gw_{n.func.id} n m {arith(n.args[0], local)} {arith(n.args[1], local)})"
    raise Bad(n, "AND(..) / SUM(..) / CARRY(..) expected")


def naming(fn, name):
    if not (isinstance(fn, ast.FunctionDef) and fn.name == name and [a.arg for a in fn.args.args] == ["i", "j"]
            and not fn.args.defaults and not fn.decorator_list and len(fn.body) == 1 and isinstance(fn.body[0], ast.Return)):
        raise Bad(fn, f"def {name}(i, j): return <label expression> expected")
    return label_expr(fn.body[0].value, {"i", "j"})


def appended(block, local):
    parts = []
    for st in block:
        if isinstance(st, ast.If):
            parts.append(f"(if {test(st.test, local)} then {appended(st.body, local)} else {appended(st.orelse, local)})")
        elif isinstance(st, ast.Expr) and isinstance(st.value, ast.Call) and isinstance(st.value.func, ast.Attribute) \
                and st.value.func.attr == "append" and isinstance(st.value.func.value, ast.Name) \
                and st.value.func.value.id == "inputs" and len(st.value.args) == 1 and not st.value.keywords:
            parts.append(f"[{wire(st.value.args[0], local)}]")
        else:
            raise Bad(st, "only `if` and inputs.append(<wire>) are understood here")
    return "(" + " ++ ".join(parts) + ")" if parts else "[]"


def translate(fn):
    body = fn.body
    if body and isinstance(body[0], ast.Expr) and isinstance(body[0].value, ast.Constant) \
            and isinstance(body[0].value.value, str):
        body = body[1:]
    if [a.arg for a in fn.args.args] != ["num_arg1_bits", "num_arg2_bits"] or fn.args.vararg or fn.args.kwarg \
            or fn.args.kwonlyargs or fn.decorator_list:
        raise Bad(fn, "signature changed")
    if len(body) != 9:
        raise Bad(fn, f"{len(body)} statements, expected 9")
    for k, t in ((0, "num_arg1_bits < 1"), (2, "num_arg2_bits < 1")):
        st = body[k]
        if not (isinstance(st, ast.If) and same(ast.Expr(st.test), t) and len(st.body) == 1
                and isinstance(st.body[0], ast.Raise) and not st.orelse):
            raise Bad(st, f"if {t}: raise ... expected")
    if not same(body[1], "num_arg2_bits = num_arg2_bits or num_arg1_bits"):
        raise Bad(body[1], "num_arg2_bits = num_arg2_bits or num_arg1_bits expected")
    if not same(body[3], "num_product_bits = num_arg1_bits + num_arg2_bits"):
        raise Bad(body[3], "num_product_bits = num_arg1_bits + num_arg2_bits expected")
    o = {"AND": naming(body[4], "AND"), "SUM": naming(body[5], "SUM"), "CARRY": naming(body[6], "CARRY")}
    g = body[7]
    if not (isinstance(g, ast.FunctionDef) and g.name == "gate" and [a.arg for a in g.args.args] == ["i", "j"]
            and not g.args.defaults and not g.decorator_list and len(g.body) >= 6):
        raise Bad(g, "def gate(i, j) expected")
    local = {"i", "j"}
    st = g.body[0]
    if not (isinstance(st, ast.Assign) and len(st.targets) == 1 and isinstance(st.targets[0], ast.Name)
            and st.targets[0].id == "inputs" and isinstance(st.value, ast.List)):
        raise Bad(st, "inputs = [<wire>, ...] expected")
    o["init"] = "[" + "; ".join(wire(e, local) for e in st.value.elts) + "]"
    st = g.body[1]
    if not (isinstance(st, ast.Assign) and len(st.targets) == 1 and isinstance(st.targets[0], ast.Name)
            and st.targets[0].id == "bqm" and isinstance(st.value, ast.Call) and isinstance(st.value.func, ast.Name)
            and st.value.func.id == "and_gate" and len(st.value.args) == 3 and not st.value.keywords):
        raise Bad(st, "bqm = and_gate(<label>, <label>, inputs[k]) expected")
    a3 = st.value.args[2]
    sl = a3.slice if isinstance(a3, ast.Subscript) else None
    if isinstance(sl, ast.Index):
        sl = sl.value
    if not (isinstance(a3, ast.Subscript) and isinstance(a3.value, ast.Name) and a3.value.id == "inputs"
            and isinstance(sl, ast.Constant) and type(sl.value) is int and sl.value >= 0):
        raise Bad(st, "third argument inputs[<literal>] expected")
    o["and_args"] = f"({label(st.value.args[0], local)}, {label(st.value.args[1], local)}, nth {sl.value} (gw_init n m i j) (WP 0))"
    mid = g.body[2:-3]
    o["appended"] = appended(mid, local)
    st = g.body[-3]
    if not same(st, "l = len(inputs)"):
        raise Bad(st, "l = len(inputs) expected")
    st = g.body[-2]
    if not (isinstance(st, ast.If) and not st.orelse and len(st.body) == 2):
        raise Bad(st, "if l > c: outputs = ...; bqm.update(...) expected")
    o["place"] = test(st.test, {"l"})
    a0, a1 = st.body
    if not (isinstance(a0, ast.Assign) and len(a0.targets) == 1 and isinstance(a0.targets[0], ast.Name)
            and a0.targets[0].id == "outputs" and isinstance(a0.value, ast.Tuple) and len(a0.value.elts) == 2):
        raise Bad(a0, "outputs = <wire>, <wire> expected")
    o["outputs"] = f"({wire(a0.value.elts[0], local)}, {wire(a0.value.elts[1], local)})"
    ok = (isinstance(a1, ast.Expr) and isinstance(a1.value, ast.Call) and isinstance(a1.value.func, ast.Attribute)
          and a1.value.func.attr == "update" and isinstance(a1.value.func.value, ast.Name) and a1.value.func.value.id == "bqm"
          and len(a1.value.args) == 1 and not a1.value.keywords and isinstance(a1.value.args[0], ast.Call))
    if not ok:
        raise Bad(a1, "bqm.update(<gate>(*inputs, *outputs)) expected")
    call = a1.value.args[0]
    if not (len(call.args) == 2 and not call.keywords and all(isinstance(x, ast.Starred) for x in call.args)
            and isinstance(call.args[0].value, ast.Name) and call.args[0].value.id == "inputs"
            and isinstance(call.args[1].value, ast.Name) and call.args[1].value.id == "outputs"
            and isinstance(call.func, ast.IfExp) and isinstance(call.func.body, ast.Name)
            and isinstance(call.func.orelse, ast.Name)):
        raise Bad(a1, "(<gate> if <test> else <gate>)(*inputs, *outputs) expected")
    kinds = {"halfadder_gate": "GHalf", "fulladder_gate": "GFull"}
    if call.func.body.id not in kinds or call.func.orelse.id not in kinds:
        raise Bad(a1, "halfadder_gate / fulladder_gate expected")
    o["kind"] = f"if {test(call.func.test, {'l'})} then {kinds[call.func.body.id]} else {kinds[call.func.orelse.id]}"
    if not same(g.body[-1], "return bqm"):
        raise Bad(g.body[-1], "return bqm expected")
    if not same(body[8], "return quicksum(starmap(gate, product(range(num_arg1_bits), range(num_arg2_bits))))"):
        raise Bad(body[8], "return quicksum(starmap(gate, product(range(num_arg1_bits), range(num_arg2_bits)))) expected")
    return o


def render(o, sha):
    return "\n".join([
        "(* GENERATED by translators/mult_wiring.py from dimod/generators/gates.py::multiplication_circuit - do not edit.",
        f"   source sha256 {sha} *)",
        "From Coq Require Import List Bool Arith.",
        "From Dimod Require Import Model.MultCircuit.",
        "Import ListNotations.",
        "Open Scope nat_scope.",
        "",
        "Inductive gw_kind := GHalf | GFull.",
        "",
        "(* the naming functions; n = num_arg1_bits, m = num_arg2_bits, num_product_bits = n + m *)",
        f"Definition gw_AND (n m i j : nat) : wire := {o['AND']}.",
        f"Definition gw_SUM (n m i j : nat) : wire := {o['SUM']}.",
        f"Definition gw_CARRY (n m i j : nat) : wire := {o['CARRY']}.",
        "",
        "(* gate(i, j): the list `inputs` (initial value, then what the nested ifs append), the and_gate, the adder *)",
        f"Definition gw_init (n m i j : nat) : list wire := {o['init']}.",
        f"Definition gw_and_args (n m i j : nat) : wire * wire * wire := {o['and_args']}.",
        f"Definition gw_appended (n m i j : nat) : list wire := {o['appended']}.",
        "Definition gw_inputs (n m i j : nat) : list wire := gw_init n m i j ++ gw_appended n m i j.",
        f"Definition gw_outputs (n m i j : nat) : wire * wire := {o['outputs']}.",
        "(* l = len(inputs): is an adder placed, and which *)",
        f"Definition gw_adder_kind (l : nat) : option gw_kind := if {o['place']} then Some ({o['kind']}) else None.",
        "",
        "(* product(range(num_arg1_bits), range(num_arg2_bits)) *)",
        "Definition gw_positions (n m : nat) : list (nat * nat) := flat_map (fun i => map (fun j => (i, j)) (seq 0 m)) (seq 0 n).",
        ""])


def main():
    build, out = sys.argv[1], sys.argv[2]
    src = os.path.join(build, "dimod", "generators", "gates.py")
    data = open(src, "rb").read()
    sha = hashlib.sha256(data).hexdigest()
    print("INPUT", src, sha)
    text = data.decode("utf-8")
    lines = text.splitlines()
    tree = ast.parse(text)
    try:
        fns = [n for n in tree.body if isinstance(n, ast.FunctionDef) and n.name == "multiplication_circuit"]
        if len(fns) != 1:
            raise Bad(tree, "exactly one function multiplication_circuit expected")
        o = translate(fns[0])
    except Bad as e:
        ln = getattr(e.node, "lineno", 0)
        print(f"mult_wiring: {src}:{ln}: {e.why}")
        if ln:
            print("    " + lines[ln - 1].strip())
        return 2
    os.makedirs(out, exist_ok=True)
    new = render(o, sha)
    dst = os.path.join(out, "Gen_MultWiring.v")
    if not os.path.exists(dst) or open(dst).read() != new:
        with open(dst, "w") as fh:
            fh.write(new)
    return 0


if __name__ == "__main__":
    sys.exit(main())
