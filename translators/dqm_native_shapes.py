#!/venv/bin/python
"""Fail-closed translator for C20's model of cyDiscreteQuadraticModel (Model/DqmNative.v):
dimod/discrete/cydiscrete_quadratic_model.pyx -> coq/theories/Gen/Gen_DqmNative.v

What is read from the source (every unrecognised shape is an error naming the place):
  * the "track in adjacency" block at the end of set_quadratic and of set_quadratic_case: which vector is searched
    with which key, what is compared with what, what is inserted where (each slot is `u` or `v`);
  * the early break of the adjacency walk in energies (`if v > u: break`);
  * the branch conditions / actions of the "finally fix the adjacency" while loop of add_linear_equality_constraint;
  * the place where the variable cursor is reset in the adjacency rebuild of _from_numpy_vectors (`v = 0` inside
    the loop over the cases, before the neighbourhood walk).
The generated definitions are proved equal to the hand-written ones of Model/DqmNative.v in Proofs/GenDqmTie.v
(C20_dqm_track_generated, ...): a change of the source shape makes either this translator or that proof fail.
usage: dqm_native_shapes.py <build_dir> <out_dir>
"""
import hashlib
import os
import re
import sys

PROPERTIES = ["C20"]
REL = "dimod/discrete/cydiscrete_quadratic_model.pyx"


class Bad(Exception):
    pass


def method_body(src, name):
    m = re.search(r"^    (?:def|cpdef[^\n(]*?)\s+%s\s*\(" % re.escape(name), src, re.M)
    if not m:
        raise Bad("method %s not found" % name)
    rest = src[m.end():]
    nxt = re.search(r"^    (?:def |cpdef |cdef |@)", rest, re.M)
    return rest[:nxt.start()] if nxt else rest, src.count("\n", 0, m.start()) + 1


UV = r"([uv])"
TRACK = re.compile(
    r"# track in adjacency\s*\n"
    r"\s*low = lower_bound\(self\.adj_\[" + UV + r"\]\.begin\(\), self\.adj_\[" + UV + r"\]\.end\(\), " + UV + r"\)\s*\n"
    r"\s*if low == self\.adj_\[" + UV + r"\]\.end\(\) or deref\(low\) != " + UV + r":\s*\n"
    r"(?:\s*#[^\n]*\n)*"
    r"\s*self\.adj_\[" + UV + r"\]\.insert\(low, " + UV + r"\)\s*\n"
    r"\s*self\.adj_\[" + UV + r"\]\.insert\(\s*\n?"
    r"\s*lower_bound\(self\.adj_\[" + UV + r"\]\.begin\(\), self\.adj_\[" + UV + r"\]\.end\(\), " + UV + r"\),\s*\n?"
    r"\s*" + UV + r"\)\s*$")


def track_def(src, name):
    body, line = method_body(src, name)
    i = body.find("# track in adjacency")
    if i < 0:
        raise Bad("%s (line %d): no '# track in adjacency' block" % (name, line))
    blk = body[i:].rstrip()
    m = TRACK.match(blk)
    if not m:
        raise Bad("%s (line %d): the adjacency tracking block has an unrecognised shape:\n%s" % (name, line, blk))
    a1, a2, k1, a3, c1, a4, x1, b1, b2, b3, k2, x2 = m.groups()
    if not (a1 == a2 == a3 == a4):
        raise Bad("%s: the first search / comparison / insertion do not use one vector (%s %s %s %s)" % (name, a1, a2, a3, a4))
    if not (b1 == b2 == b3):
        raise Bad("%s: the second insertion searches one vector and inserts into another (%s %s %s)" % (name, b1, b2, b3))
    return ("Definition gen_track_%s (u v : nat) (a : list (list nat)) : list (list nat) :=\n"
            "  if lb_has_at %s %s (nth %s a []) then a\n"
            "  else upd_nth %s (lb_ins_at %s %s) (upd_nth %s (lb_ins_at %s %s) a).\n"
            % (name, k1, c1, a1, b1, k2, x2, a1, k1, x1))


def energies_break(src):
    body, line = method_body(src, "energies")
    m = re.search(r"for vi in range\(self\.adj_\[u\]\.size\(\)\):\s*\n\s*v = self\.adj_\[u\]\[vi\]\s*\n(?:\s*\n|\s*#[^\n]*\n)*"
                  r"\s*if (\w+) (>|>=|<|<=) (\w+):\s*\n\s*break", body)
    if not m:
        raise Bad("energies (line %d): the adjacency walk with its early break was not recognised" % line)
    lhs, op, rhs = m.groups()
    if {lhs, rhs} != {"u", "v"}:
        raise Bad("energies: break condition over %s, %s" % (lhs, rhs))
    coq = {">": "(%s <? %s)%%nat" % (rhs, lhs), ">=": "(%s <=? %s)%%nat" % (rhs, lhs),
           "<": "(%s <? %s)%%nat" % (lhs, rhs), "<=": "(%s <=? %s)%%nat" % (lhs, rhs)}[op]
    return ("(* energies: `if %s %s %s: break` *)\n"
            "Definition gen_energy_break (u v : nat) : bool := %s.\n" % (lhs, op, rhs, coq))


def rebuild_reset(src):
    body, line = method_body(src, "_from_numpy_vectors")
    m = re.search(r"for ci in range\(dqm\.cppbqm\.num_variables\(\)\):(.*?)# now put adjset into adj", body, re.S)
    if not m:
        raise Bad("_from_numpy_vectors (line %d): adjacency rebuild loop not recognised" % line)
    loop = m.group(1)
    want = re.search(r"span = dqm\.cppbqm\.neighborhood\(ci\)\s*\n\s*\n?\s*v = 0\s*\n\s*while span\.first != span\.second:", loop)
    if not want:
        raise Bad("_from_numpy_vectors (line %d): the variable cursor `v = 0` is not reset for every case right before "
                  "the neighbourhood walk (Model/DqmNative.adj_from_cases maps every neighbour through var_of from 0)" % line)
    if not re.search(r"while ci >= dqm\.case_starts_\[u\+1\]:\s*\n\s*u \+= 1", loop) or \
            not re.search(r"while cj >= dqm\.case_starts_\[v\+1\]:\s*\n\s*v \+= 1", loop) or \
            not re.search(r"adjset\[u\]\.insert\(v\)", loop):
        raise Bad("_from_numpy_vectors (line %d): cursor advance / adjset insertion not recognised" % line)
    return "Definition gen_rebuild_resets_cursor_per_case : bool := true.\n"


FIX = re.compile(
    r"while vit != variables\.end\(\):\s*\n"
    r"\s*if deref\(vit\) == v:\s*\n\s*inc\(vit\)\s*\n"
    r"\s*elif nit == self\.adj_\[v\]\.end\(\):\s*\n\s*nit = self\.adj_\[v\]\.insert\(nit, deref\(vit\)\)\s*\n\s*inc\(nit\)\s*\n\s*inc\(vit\)\s*\n"
    r"\s*elif deref\(vit\) < deref\(nit\):\s*\n\s*nit = self\.adj_\[v\]\.insert\(nit, deref\(vit\)\)\s*\n\s*inc\(nit\)\s*\n\s*inc\(vit\)\s*\n"
    r"\s*elif deref\(vit\) > deref\(nit\):\s*\n\s*inc\(nit\)\s*\n"
    r"\s*else:[^\n]*\n\s*inc\(nit\)\s*\n\s*inc\(vit\)")


def fix_loop(src):
    body, line = method_body(src, "add_linear_equality_constraint")
    if not FIX.search(body):
        raise Bad("add_linear_equality_constraint (line %d): the 'finally fix the adjacency' loop is not the five-branch "
                  "merge mirrored by Model/DqmNative.fix_walk" % line)
    return "Definition gen_fix_loop_is_five_branch_merge : bool := true.\n"


def main():
    build, outdir = sys.argv[1], sys.argv[2]
    p = os.path.join(build, REL)
    src = open(p).read()
    print("INPUT %s %s" % (p, hashlib.sha256(src.encode()).hexdigest()))
    parts = ["(* GENERATED by translators/dqm_native_shapes.py from %s - do not edit. *)" % REL,
             "From Coq Require Import List Arith Bool.",
             "From Dimod Require Import Model.Adj Model.DqmNative.",
             "Import ListNotations.", "",
             "(* std::lower_bound by `key`, then `== end or *low != x` *)",
             "Fixpoint lb_has_at (key x : nat) (l : list nat) : bool :=",
             "  match l with",
             "  | [] => false",
             "  | y :: r => if (y <? key)%nat then lb_has_at key x r else (y =? x)%nat",
             "  end.",
             "(* vector::insert(lower_bound(begin, end, key), x) *)",
             "Fixpoint lb_ins_at (key x : nat) (l : list nat) : list nat :=",
             "  match l with",
             "  | [] => [x]",
             "  | y :: r => if (y <? key)%nat then y :: lb_ins_at key x r else x :: l",
             "  end.", "",
             track_def(src, "set_quadratic"), track_def(src, "set_quadratic_case"),
             energies_break(src), rebuild_reset(src), fix_loop(src)]
    txt = "\n".join(parts)
    os.makedirs(outdir, exist_ok=True)
    outp = os.path.join(outdir, "Gen_DqmNative.v")
    if not os.path.exists(outp) or open(outp).read() != txt:
        open(outp, "w").write(txt)
    return 0


if __name__ == "__main__":
    try:
        sys.exit(main())
    except Bad as e:
        print("dqm_native_shapes: " + str(e))
        sys.exit(1)
