#!/venv/bin/python
"""Fail-closed translator: dimod/generators/quadratic_assignment.py::quadratic_assignment -> coq/theories/Gen/Gen_Qap.v

usage: qap_construction.py <build_dir> <out_dir>

GENERATES the construction of quadratic_assignment (not only a lock on its text):

  x = {(a, b): obj.add_variable(...) for <v1> in range(num_locations) for <v2> in range(num_locations)}
        -> gq_index n a b : the position of key (a, b) in the creation order (v1 outer, v2 inner)
  for <t1>, <t2>, <t3>, <t4> in product(range(num_locations), repeat=4):
      if (p, q) != (r, s):
          obj.set_quadratic(x[(e, f)], x[(g, h)], <expr>)
        -> gq_guard (the test), gq_coef (the expression: +, -, * over flow_matrix[.][.] / distance_matrix[.][.]),
           gq_writes n F D : the list of (u, v, bias) the loop passes to set_quadratic, IN LOOP ORDER
           (4 nested loops over range(n) in the order of the targets); the method name must be set_quadratic
           (an overwrite), which Model/QapGen.v replays with Model/Poly.v's set_quadratic
  for <i> in range(num_locations):  constraint_vars = [x[(a, b)] for <j> in range(num_locations)]; model.add_discrete(constraint_vars, ...)
        -> gq_row_cells n i
  for <j> in range(num_locations):  constraint = [(x[(a, b)], <int>) for <i> in range(num_locations)] + [(<int>,)];
                                    model.add_constraint(constraint, sense='==', ...)
        -> gq_col_terms n j, gq_col_const, gq_col_sense

Every other statement of the function must be exactly the one recorded in FIXED below (labels / messages ignored).
Any other shape is an error naming the source line.
"""
import ast
import hashlib
import os
import sys

PROPERTIES = ["C17"]

N = "num_locations"

FIXED = {
    0: "distance_matrix = np.atleast_2d(np.asarray(distance_matrix))",
    1: "flow_matrix = np.atleast_2d(np.asarray(flow_matrix))",
    2: "if distance_matrix.shape != flow_matrix.shape:\n    raise ERR",
    3: "if distance_matrix.shape[0] != distance_matrix.shape[1]:\n    raise ERR",
    4: "if distance_matrix.ndim != 2:\n    raise ERR",
    5: "num_locations = distance_matrix.shape[0]",
    6: "model = ConstrainedQuadraticModel()",
    7: "obj = BinaryQuadraticModel(vartype='BINARY')",
    10: "model.set_objective(obj)",
    13: "return model",
}


class Bad(Exception):
    def __init__(self, node, why):
        self.node, self.why = node, why


class NoMsg(ast.NodeTransformer):
    def visit_Raise(self, n):
        return ast.copy_location(ast.Raise(exc=ast.Name(id="ERR", ctx=ast.Load()), cause=None), n)


def dump(n):
    import copy
    return ast.dump(NoMsg().visit(copy.deepcopy(n)))


def is_range_n(n):
    return (isinstance(n, ast.Call) and isinstance(n.func, ast.Name) and n.func.id == "range" and len(n.args) == 1
            and not n.keywords and isinstance(n.args[0], ast.Name) and n.args[0].id == N)


def name_of(n, allowed, what):
    if isinstance(n, ast.Name) and n.id in allowed:
        return n.id
    raise Bad(n, f"{what}: one of {sorted(allowed)} expected")


def pair_of(n, allowed, what):
    if isinstance(n, ast.Tuple) and len(n.elts) == 2:
        return name_of(n.elts[0], allowed, what), name_of(n.elts[1], allowed, what)
    raise Bad(n, f"{what}: a pair of loop variables expected")


def x_of(n, allowed):
    """x[(a, b)] -> (a, b)"""
    if isinstance(n, ast.Subscript) and isinstance(n.value, ast.Name) and n.value.id == "x":
        s = n.slice
        if isinstance(s, ast.Index):      # py < 3.9
            s = s.value
        return pair_of(s, allowed, "x[...]")
    raise Bad(n, "x[(a, b)] expected")


def comp_one(n, what):
    """a comprehension with ONE `for v in range(num_locations)` and no condition -> v"""
    if len(n.generators) != 1:
        raise Bad(n, f"{what}: one generator expected")
    g = n.generators[0]
    if g.ifs or g.is_async or not isinstance(g.target, ast.Name) or not is_range_n(g.iter):
        raise Bad(n, f"{what}: `for v in range(num_locations)` expected")
    return g.target.id


def int_of(n):
    if isinstance(n, ast.Constant) and type(n.value) is int:
        return n.value
    if isinstance(n, ast.UnaryOp) and isinstance(n.op, ast.USub) and isinstance(n.operand, ast.Constant) \
            and type(n.operand.value) is int:
        return -n.operand.value
    raise Bad(n, "integer literal expected")


def qc_of(v):
    return f"(Q2Qc (inject_Z ({v})%Z))"


def expr(n, loopvars):
    if isinstance(n, ast.BinOp):
        op = {ast.Add: "+", ast.Sub: "-", ast.Mult: "*"}.get(type(n.op))
        if op is None:
            raise Bad(n, "only +, - and * are understood in the bias")
        return f"({expr(n.left, loopvars)} {op} {expr(n.right, loopvars)})"
    if isinstance(n, ast.Subscript) and isinstance(n.value, ast.Subscript) and isinstance(n.value.value, ast.Name) \
            and n.value.value.id in ("flow_matrix", "distance_matrix"):
        def idx(s):
            if isinstance(s, ast.Index):
                s = s.value
            return name_of(s, loopvars, "matrix index")
        return f"({n.value.value.id} {idx(n.value.slice)} {idx(n.slice)})"
    raise Bad(n, "flow_matrix[a][b] / distance_matrix[a][b] combined with +, -, * expected")


def translate(fn):
    body = fn.body
    if body and isinstance(body[0], ast.Expr) and isinstance(body[0].value, ast.Constant) \
            and isinstance(body[0].value.value, str):
        body = body[1:]
    if [a.arg for a in fn.args.args] != ["distance_matrix", "flow_matrix"] or fn.args.vararg or fn.args.kwarg \
            or fn.args.kwonlyargs or fn.decorator_list:
        raise Bad(fn, "signature changed")
    if len(body) != 14:
        raise Bad(fn, f"{len(body)} statements, expected 14")
    for i, text in FIXED.items():
        if dump(body[i]) != dump(ast.parse(text).body[0]):
            raise Bad(body[i], f"statement {i} changed; expected `{text.splitlines()[0]}`")
    out = {}

    # ---- 8: creation order of the variables
    st = body[8]
    if not (isinstance(st, ast.Assign) and len(st.targets) == 1 and isinstance(st.targets[0], ast.Name)
            and st.targets[0].id == "x" and isinstance(st.value, ast.DictComp)):
        raise Bad(st, "x = {(a, b): obj.add_variable(...) for ... for ...} expected")
    dc = st.value
    if len(dc.generators) != 2:
        raise Bad(st, "two generators expected")
    gv = []
    for g in dc.generators:
        if g.ifs or g.is_async or not isinstance(g.target, ast.Name) or not is_range_n(g.iter):
            raise Bad(st, "`for v in range(num_locations)` expected")
        gv.append(g.target.id)
    if gv[0] == gv[1]:
        raise Bad(st, "two different comprehension variables expected")
    key = pair_of(dc.key, set(gv), "key of x")
    if set(key) != set(gv):
        raise Bad(st, "the key must use both comprehension variables")
    v = dc.value
    if not (isinstance(v, ast.Call) and isinstance(v.func, ast.Attribute) and v.func.attr == "add_variable"
            and isinstance(v.func.value, ast.Name) and v.func.value.id == "obj" and len(v.args) == 1 and not v.keywords
            and isinstance(v.args[0], ast.JoinedStr)):
        raise Bad(st, "obj.add_variable(f'...') expected")
    # the label must name the key injectively: x_{a}_{b} with both key components
    lab = [p.value.id for p in v.args[0].values if isinstance(p, ast.FormattedValue) and isinstance(p.value, ast.Name)]
    if sorted(lab) != sorted(gv) or len([p for p in v.args[0].values if isinstance(p, ast.FormattedValue)]) != 2:
        raise Bad(st, "the label must format both comprehension variables")
    # position of key (a, b): outer * n + inner
    outer_is_first = key[0] == gv[0]
    out["index"] = "(a * n + b)%nat" if outer_is_first else "(b * n + a)%nat"

    # ---- 9: the objective loop
    st = body[9]
    if not (isinstance(st, ast.For) and not st.orelse and isinstance(st.target, ast.Tuple) and len(st.target.elts) == 4
            and all(isinstance(e, ast.Name) for e in st.target.elts)):
        raise Bad(st, "for a, b, c, d in product(range(num_locations), repeat=4) expected")
    lv = [e.id for e in st.target.elts]
    if len(set(lv)) != 4:
        raise Bad(st, "four different loop variables expected")
    it = st.iter
    if not (isinstance(it, ast.Call) and isinstance(it.func, ast.Name) and it.func.id == "product" and len(it.args) == 1
            and is_range_n(it.args[0]) and len(it.keywords) == 1 and it.keywords[0].arg == "repeat"
            and isinstance(it.keywords[0].value, ast.Constant) and it.keywords[0].value.value == 4):
        raise Bad(st, "product(range(num_locations), repeat=4) expected")
    if len(st.body) != 1 or not isinstance(st.body[0], ast.If) or st.body[0].orelse or len(st.body[0].body) != 1:
        raise Bad(st, "the loop body must be one `if` with one statement")
    test = st.body[0].test
    if not (isinstance(test, ast.Compare) and len(test.ops) == 1 and isinstance(test.ops[0], ast.NotEq)):
        raise Bad(test, "(a, b) != (c, d) expected")
    g1 = pair_of(test.left, set(lv), "guard")
    g2 = pair_of(test.comparators[0], set(lv), "guard")
    out["guard"] = f"negb ((({g1[0]} =? {g2[0]}) && ({g1[1]} =? {g2[1]}))%nat)"
    call = st.body[0].body[0]
    if not (isinstance(call, ast.Expr) and isinstance(call.value, ast.Call)):
        raise Bad(call, "obj.set_quadratic(...) expected")
    c = call.value
    if not (isinstance(c.func, ast.Attribute) and isinstance(c.func.value, ast.Name) and c.func.value.id == "obj"
            and len(c.args) == 3 and not c.keywords):
        raise Bad(call, "obj.set_quadratic(u, v, bias) expected")
    if c.func.attr != "set_quadratic":
        raise Bad(call, f"method {c.func.attr}: only set_quadratic (overwrite) is modelled")
    u = x_of(c.args[0], set(lv))
    w = x_of(c.args[1], set(lv))
    out["lv"] = lv
    out["u"], out["v"] = u, w
    out["coef"] = expr(c.args[2], set(lv))

    # ---- 11: rows (add_discrete)
    st = body[11]
    if not (isinstance(st, ast.For) and not st.orelse and isinstance(st.target, ast.Name) and is_range_n(st.iter)
            and len(st.body) == 2):
        raise Bad(st, "for i in range(num_locations): <2 statements> expected")
    lvar = st.target.id
    a0, a1 = st.body
    if not (isinstance(a0, ast.Assign) and len(a0.targets) == 1 and isinstance(a0.targets[0], ast.Name)
            and a0.targets[0].id == "constraint_vars" and isinstance(a0.value, ast.ListComp)):
        raise Bad(a0, "constraint_vars = [x[(a, b)] for j in range(num_locations)] expected")
    cvar = comp_one(a0.value, "constraint_vars")
    if cvar == lvar:
        raise Bad(a0, "the comprehension variable shadows the loop variable")
    cell = x_of(a0.value.elt, {lvar, cvar})
    want = ast.parse("model.add_discrete(constraint_vars, label=LABEL)").body[0]
    got = a1
    if not (isinstance(got, ast.Expr) and isinstance(got.value, ast.Call) and isinstance(got.value.func, ast.Attribute)
            and got.value.func.attr == "add_discrete" and ast.dump(got.value.func.value) == ast.dump(want.value.func.value)
            and len(got.value.args) == 1 and isinstance(got.value.args[0], ast.Name)
            and got.value.args[0].id == "constraint_vars"
            and [k.arg for k in got.value.keywords] == ["label"]):
        raise Bad(a1, "model.add_discrete(constraint_vars, label=...) expected")
    out["row"] = (lvar, cvar, cell)

    # ---- 12: columns
    st = body[12]
    if not (isinstance(st, ast.For) and not st.orelse and isinstance(st.target, ast.Name) and is_range_n(st.iter)
            and len(st.body) == 2):
        raise Bad(st, "for j in range(num_locations): <2 statements> expected")
    lvar = st.target.id
    a0, a1 = st.body
    if not (isinstance(a0, ast.Assign) and len(a0.targets) == 1 and isinstance(a0.targets[0], ast.Name)
            and a0.targets[0].id == "constraint" and isinstance(a0.value, ast.BinOp) and isinstance(a0.value.op, ast.Add)
            and isinstance(a0.value.left, ast.ListComp) and isinstance(a0.value.right, ast.List)
            and len(a0.value.right.elts) == 1 and isinstance(a0.value.right.elts[0], ast.Tuple)
            and len(a0.value.right.elts[0].elts) == 1):
        raise Bad(a0, "constraint = [(x[(a, b)], c) for i in range(num_locations)] + [(k,)] expected")
    comp = a0.value.left
    cvar = comp_one(comp, "constraint")
    if cvar == lvar:
        raise Bad(a0, "the comprehension variable shadows the loop variable")
    if not (isinstance(comp.elt, ast.Tuple) and len(comp.elt.elts) == 2):
        raise Bad(a0, "terms (x[(a, b)], c) expected")
    cell = x_of(comp.elt.elts[0], {lvar, cvar})
    coef = int_of(comp.elt.elts[1])
    const = int_of(a0.value.right.elts[0].elts[0])
    if not (isinstance(a1, ast.Expr) and isinstance(a1.value, ast.Call) and isinstance(a1.value.func, ast.Attribute)
            and a1.value.func.attr == "add_constraint" and isinstance(a1.value.func.value, ast.Name)
            and a1.value.func.value.id == "model" and len(a1.value.args) == 1 and isinstance(a1.value.args[0], ast.Name)
            and a1.value.args[0].id == "constraint" and [k.arg for k in a1.value.keywords] == ["sense", "label"]
            and isinstance(a1.value.keywords[0].value, ast.Constant)):
        raise Bad(a1, "model.add_constraint(constraint, sense=..., label=...) expected")
    sense = {"==": "SEq", "<=": "SLe", ">=": "SGe"}.get(a1.value.keywords[0].value.value)
    if sense is None:
        raise Bad(a1, "sense must be '==', '<=' or '>='")
    out["col"] = (lvar, cvar, cell, coef, const, sense)
    return out


def render(o, sha):
    lv = o["lv"]
    inner = (f"if gq_guard {' '.join(lv)} then [(gq_index n {o['u'][0]} {o['u'][1]}, gq_index n {o['v'][0]} {o['v'][1]}, "
             f"gq_coef flow_matrix distance_matrix {' '.join(lv)})] else []")
    loops = inner
    for v in reversed(lv):
        loops = f"flat_map (fun {v} => {loops}) (seq 0 n)"
    rl, rc, rcell = o["row"]
    cl, cc, ccell, ccoef, cconst, csense = o["col"]
    return "\n".join([
        "(* GENERATED by translators/qap_construction.py from dimod/generators/quadratic_assignment.py - do not edit.",
        f"   source sha256 {sha} *)",
        "From Coq Require Import List ZArith QArith Qcanon Bool Arith.",
        "From Dimod Require Import Model.Poly Model.Knap.",
        "Import ListNotations.",
        "Open Scope Qc_scope.",
        "",
        "(* position of the key (a, b) of `x` in the order obj.add_variable creates the variables *)",
        f"Definition gq_index (n a b : nat) : label := {o['index']}.",
        "",
        "(* the test guarding set_quadratic and the bias passed to it *)",
        f"Definition gq_guard ({' '.join(lv)} : nat) : bool := {o['guard']}.",
        f"Definition gq_coef (flow_matrix distance_matrix : nat -> nat -> Qc) ({' '.join(lv)} : nat) : Qc :=",
        f"  {o['coef']}.",
        "",
        "(* the calls obj.set_quadratic(u, v, bias) in the order the loop makes them *)",
        "Definition gq_writes (n : nat) (flow_matrix distance_matrix : nat -> nat -> Qc) : list qterm :=",
        f"  {loops}.",
        "",
        "(* model.add_discrete(constraint_vars): the cells of one constraint *)",
        f"Definition gq_row_cells (n {rl} : nat) : list label := map (fun {rc} => gq_index n {rcell[0]} {rcell[1]}) (seq 0 n).",
        "(* model.add_constraint(constraint, sense=...): terms, constant, sense *)",
        f"Definition gq_col_terms (n {cl} : nat) : list lterm := map (fun {cc} => (gq_index n {ccell[0]} {ccell[1]}, {qc_of(ccoef)})) (seq 0 n).",
        f"Definition gq_col_const : Qc := {qc_of(cconst)}.",
        f"Definition gq_col_sense : sense := {csense}.",
        ""])


def main():
    build, out = sys.argv[1], sys.argv[2]
    src = os.path.join(build, "dimod", "generators", "quadratic_assignment.py")
    data = open(src, "rb").read()
    sha = hashlib.sha256(data).hexdigest()
    print("INPUT", src, sha)
    text = data.decode("utf-8")
    lines = text.splitlines()
    tree = ast.parse(text)
    try:
        fns = [n for n in tree.body if isinstance(n, ast.FunctionDef) and n.name == "quadratic_assignment"]
        if len(fns) != 1:
            raise Bad(tree, "exactly one function quadratic_assignment expected")
        o = translate(fns[0])
    except Bad as e:
        ln = getattr(e.node, "lineno", 0)
        print(f"qap_construction: {src}:{ln}: {e.why}")
        if ln:
            print("    " + lines[ln - 1].strip())
        return 2
    os.makedirs(out, exist_ok=True)
    new = render(o, sha)
    dst = os.path.join(out, "Gen_Qap.v")
    if not os.path.exists(dst) or open(dst).read() != new:
        with open(dst, "w") as fh:
            fh.write(new)
    return 0


if __name__ == "__main__":
    sys.exit(main())
