#!/venv/bin/python
"""Fail-closed translator: dimod/cyvariables.pyx (cyVariables.__init__, _relabel) -> coq/theories/Gen/Gen_VarsCtor.v

PROPERTIES = [C13]

Extracts the constructor's dispatch on the shape of its argument and the container _relabel hands to
iter_safe_relabels:

  __init__:  the three-way dispatch  cyVariables / range fast path / generic _extend(iterable, permissive=True);
             the fast path's condition must be a conjunction of `iterable.<start|stop|step> == <int>` tests after
             `isinstance(iterable, range)`, its body a single assignment `self._stop = <e>` with
             <e> ::= iterable.stop | max(iterable.stop, <int>) | max(<int>, iterable.stop)
  _relabel:  the loop header `for submap in iter_safe_relabels(mapping, <container>)`; the container must be `self`
             (the whole label set, implicit integer labels included) - the model's relabel tests membership in to_list

Generated:  gen_ctor_fast (start stop step : Z) : bool, gen_ctor_stop (stop : Z) : Z,
            gen_ctor_generic_permissive : bool, gen_relabel_existing_is_self : bool.
Anything else is an error naming the source line.

usage: vars_ctor.py <build_dir> <out_dir>
"""
import ast
import hashlib
import os
import re
import sys


class Bad(Exception):
    pass


def method_text(lines, header_re, path):
    idx = [i for i, l in enumerate(lines) if re.match(header_re, l)]
    if len(idx) != 1:
        raise Bad(f"{path}: expected exactly one line matching {header_re!r}, found {len(idx)}")
    i = idx[0]
    ind = len(lines[i]) - len(lines[i].lstrip())
    out = [lines[i]]
    for j in range(i + 1, len(lines)):
        l = lines[j]
        if l.strip() and (len(l) - len(l.lstrip())) <= ind:
            break
        out.append(l)
    return i + 1, out


def dedent(ls):
    ind = len(ls[0]) - len(ls[0].lstrip())
    return "\n".join(l[ind:] if l.strip() else "" for l in ls) + "\n"


def z(n):
    return f"({n})%Z"


def iter_attr(n):
    if isinstance(n, ast.Attribute) and isinstance(n.value, ast.Name) and n.value.id == "iterable" \
            and n.attr in ("start", "stop", "step"):
        return n.attr
    return None


def intconst(n):
    if isinstance(n, ast.Constant) and type(n.value) is int:
        return n.value
    if isinstance(n, ast.UnaryOp) and isinstance(n.op, ast.USub) and isinstance(n.operand, ast.Constant) \
            and type(n.operand.value) is int:
        return -n.operand.value
    return None


def is_isinstance(n, cls):
    return (isinstance(n, ast.Call) and isinstance(n.func, ast.Name) and n.func.id == "isinstance" and len(n.args) == 2
            and not n.keywords and isinstance(n.args[0], ast.Name) and n.args[0].id == "iterable"
            and isinstance(n.args[1], ast.Name) and n.args[1].id == cls)


def ctor(src_lines, path):
    ln, ls = method_text(src_lines, r"\s*def __init__\(self, object iterable=None\):", path)
    text = dedent(ls).replace("def __init__(self, object iterable=None):", "def __init__(self, iterable=None):")
    try:
        fn = ast.parse(text).body[0]
    except SyntaxError as e:
        raise Bad(f"{path}: line {ln + (e.lineno or 1) - 1}: cannot parse __init__ ({e.msg})")
    where = lambda n: f"{path}: line {ln + n.lineno - 1}"
    body = fn.body
    if len(body) != 4:
        raise Bad(f"{where(fn)}: __init__ is expected to hold three field initialisations and one `if iterable is not None`")
    want = ["self._index_to_label = dict()", "self._label_to_index = dict()", "self._stop = 0"]
    for st, w in zip(body[:3], want):
        if ast.dump(st) != ast.dump(ast.parse(w).body[0]):
            raise Bad(f"{where(st)}: expected `{w}`")
    top = body[3]
    if not (isinstance(top, ast.If) and ast.dump(top.test) == ast.dump(ast.parse("iterable is not None").body[0].value)
            and not top.orelse and len(top.body) == 1 and isinstance(top.body[0], ast.If)):
        raise Bad(f"{where(top)}: expected `if iterable is not None:` holding one if / elif / else chain")
    c1 = top.body[0]
    if not is_isinstance(c1.test, "cyVariables") or len(c1.body) != 1 or \
            ast.dump(c1.body[0]) != ast.dump(ast.parse("self.__init_cyvariables__(iterable)").body[0]):
        raise Bad(f"{where(c1)}: first branch must be `isinstance(iterable, cyVariables)` -> self.__init_cyvariables__(iterable)")
    if len(c1.orelse) != 1 or not isinstance(c1.orelse[0], ast.If):
        raise Bad(f"{where(c1)}: expected an elif branch for range objects")
    c2 = c1.orelse[0]
    t = c2.test
    if not (isinstance(t, ast.BoolOp) and isinstance(t.op, ast.And) and is_isinstance(t.values[0], "range")):
        raise Bad(f"{where(c2)}: the fast path test must be `isinstance(iterable, range) and ...`")
    conj = []
    for cnd in t.values[1:]:
        ok = (isinstance(cnd, ast.Compare) and len(cnd.ops) == 1 and isinstance(cnd.ops[0], ast.Eq)
              and iter_attr(cnd.left) and intconst(cnd.comparators[0]) is not None)
        if not ok:
            raise Bad(f"{where(cnd)}: unsupported fast path condition `{ast.unparse(cnd)}`")
        conj.append(f"({iter_attr(cnd.left)} =? {z(intconst(cnd.comparators[0]))})%Z")
    if len(c2.body) != 1 or not isinstance(c2.body[0], ast.Assign) or ast.unparse(c2.body[0].targets[0]) != "self._stop":
        raise Bad(f"{where(c2)}: the fast path body must be the single assignment `self._stop = ...`")
    e = c2.body[0].value
    if iter_attr(e) == "stop":
        stop = "stop"
    elif isinstance(e, ast.Call) and isinstance(e.func, ast.Name) and e.func.id == "max" and len(e.args) == 2 and not e.keywords:
        a, b = e.args
        if iter_attr(a) == "stop" and intconst(b) is not None:
            stop = f"Z.max stop {z(intconst(b))}"
        elif iter_attr(b) == "stop" and intconst(a) is not None:
            stop = f"Z.max {z(intconst(a))} stop"
        else:
            raise Bad(f"{where(e)}: unsupported fast path value `{ast.unparse(e)}`")
    else:
        raise Bad(f"{where(e)}: unsupported fast path value `{ast.unparse(e)}`")
    if len(c2.orelse) != 1:
        raise Bad(f"{where(c2)}: expected a final else branch")
    g = c2.orelse[0]
    perm = None
    for p in ("True", "False"):
        if ast.dump(g) == ast.dump(ast.parse(f"self._extend(iterable, permissive={p})").body[0]):
            perm = p.lower()
    if perm is None:
        raise Bad(f"{where(g)}: the generic branch must be `self._extend(iterable, permissive=<bool>)`")
    return " && ".join(conj) if conj else "true", stop, perm


def relabel_container(src_lines, path):
    ln, ls = method_text(src_lines, r"\s*def _relabel\(self, mapping\):", path)
    heads = [(i, l) for i, l in enumerate(ls) if re.match(r"\s*for submap in ", l)]
    if len(heads) != 1:
        raise Bad(f"{path}: line {ln}: _relabel must hold exactly one `for submap in ...` loop")
    i, l = heads[0]
    m = re.match(r"\s*for submap in iter_safe_relabels\(mapping, ([A-Za-z_.]+)\):\s*$", l)
    if not m:
        raise Bad(f"{path}: line {ln + i}: unsupported loop header `{l.strip()}`")
    if m.group(1) != "self":
        raise Bad(f"{path}: line {ln + i}: _relabel hands `{m.group(1)}` to iter_safe_relabels as the container of existing "
                  "labels; the model (Vars.relabel) tests membership in the whole label list, i.e. expects `self`")
    return "true"


def main():
    build, out = sys.argv[1], sys.argv[2]
    p = os.path.join(build, "dimod", "cyvariables.pyx")
    s = open(p).read()
    print("INPUT %s %s" % (p, hashlib.sha256(s.encode()).hexdigest()))
    lines = s.splitlines()
    fast, stop, perm = ctor(lines, "dimod/cyvariables.pyx")
    rel = relabel_container(lines, "dimod/cyvariables.pyx")
    with open(os.path.join(out, "Gen_VarsCtor.v"), "w") as fh:
        fh.write("(* GENERATED by translators/vars_ctor.py from dimod/cyvariables.pyx - do not edit *)\n")
        fh.write("From Coq Require Import ZArith Bool.\n\n")
        fh.write("(* Variables(range(start, stop, step)): condition of the constructor's fast path and the _stop it assigns *)\n")
        fh.write(f"Definition gen_ctor_fast (start stop step : Z) : bool := {fast}.\n")
        fh.write(f"Definition gen_ctor_stop (stop : Z) : Z := {stop}.\n")
        fh.write("(* every other iterable: self._extend(iterable, permissive=...) *)\n")
        fh.write(f"Definition gen_ctor_generic_permissive : bool := {perm}.\n")
        fh.write("(* _relabel passes the Variables object itself to iter_safe_relabels as the container of existing labels *)\n")
        fh.write(f"Definition gen_relabel_existing_is_self : bool := {rel}.\n")


if __name__ == "__main__":
    try:
        main()
    except Bad as e:
        print("TRANSLATOR ERROR:", e)
        sys.exit(1)
