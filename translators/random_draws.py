#!/venv/bin/python
"""Fail-closed translator: what the random-model generators DRAW -> coq/theories/Gen/Gen_RandomDraws.v

  dimod/generators/random.py    uniform, randint, ran_r, power_r

For each function the statements up to the index arrays must equal the template text exactly (ast.unparse); the rest
of the body is INTERPRETED symbolically, statement by statement:
  * `low += c`, `high += c`, `high = high + c` ... update an environment of affine forms a*low + b*high + c (resp. in r);
  * `ldata = ...`, `qdata = ...`, `offset = ...` must be one of
        r.uniform(<aff>, <aff>[, size=...])        -> DUniform lo hi
        r.randint(<aff>, <aff>[, size=...])        -> DRandint lo hi        (numpy: lo <= x < hi, integers)
        rnd.choice(rvals[, p=pvals], size=...)     -> DChoice               (a value of rvals)
        np.zeros(...) / 0                          -> DZero
    with the affine forms evaluated in the CURRENT environment;
  * rvals is built from `range(<aff>, <aff>)` / `np.arange(<aff>, <aff>)` pieces -> list of half-open ranges;
  * the return statement must hand exactly (ldata, (irow, icol, qdata), offset) to from_numpy_vectors.
Anything else stops the translator with the line named.  Proofs/RandomDrawsFacts.v proves from the generated
descriptors that every drawn linear bias, quadratic bias and OFFSET lies in the documented inclusive range
[low, high] (randint, uniform) resp. in {-r..-1, 1..r} (ran_r, power_r), and that no value of that set is missing.

usage: random_draws.py <build_dir> <out_dir>
"""
import ast
import hashlib
import os
import sys

PROPERTIES = ["C17"]


class Bad(Exception):
    pass


PREFIX_COMMON = """variables, edges = graph
index = {v: idx for idx, v in enumerate(variables)}
if edges:
    irow, icol = zip(*((index[u], index[v]) for u, v in edges))
else:
    irow = icol = tuple()"""

CLS_WARN = """if cls is not None:
    warnings.warn('cls keyword argument is deprecated since 0.10.13 and will be removed in 0.12. Does nothing.', DeprecationWarning, stacklevel=2)"""

SEED_RS = """if seed is None:
    seed = np.random.randint(2 ** 32, dtype=np.uint32)
{name} = np.random.RandomState(seed)"""

SEED_GEN = """if seed is None:
    seed = np.random.randint(2 ** 32, dtype=np.uint32)
{name} = np.random.default_rng(seed)"""

R_GUARD = """if not isinstance(r, {typ}):
    raise TypeError('r should be a positive integer')
if r < 1:
    raise ValueError('r should be a positive integer')"""

SPEC = {
    "uniform": dict(args="graph: GraphLike, vartype: VartypeLike, low: float=0, high: float=1, cls: None=None, seed: Optional[int]=None",
                    prefix=CLS_WARN + "\n" + SEED_RS.format(name="r") + "\n" + PREFIX_COMMON, rng="r", params=("low", "high"),
                    ret="return BinaryQuadraticModel.from_numpy_vectors(ldata, (irow, icol, qdata), offset, vartype, variable_order=variables)"),
    "randint": dict(args="graph: GraphLike, vartype: VartypeLike, low: int=0, high: int=1, cls: None=None, seed: Optional[int]=None",
                    prefix=CLS_WARN + "\n" + SEED_RS.format(name="r") + "\n" + PREFIX_COMMON, rng="r", params=("low", "high"),
                    ret="return BinaryQuadraticModel.from_numpy_vectors(ldata, (irow, icol, qdata), offset, vartype, variable_order=variables)"),
    "ran_r": dict(args="r: int, graph: GraphLike, cls: None=None, seed: Optional[int]=None",
                  prefix=CLS_WARN + "\n" + R_GUARD.format(typ="int") + "\n" + SEED_RS.format(name="rnd") + "\n" + PREFIX_COMMON, rng="rnd", params=("r",),
                  ret="return BinaryQuadraticModel.from_numpy_vectors(ldata, (irow, icol, qdata), offset, vartype='SPIN', variable_order=variables)"),
    "power_r": dict(args="r: int, graph: GraphLike, *, seed: Union[None, int, np.random.Generator]=None",
                    prefix=R_GUARD.format(typ="numbers.Integral") + "\n" + SEED_GEN.format(name="rng") + "\n" + PREFIX_COMMON, rng="rng", params=("r",),
                    ret="return BinaryQuadraticModel.from_numpy_vectors(ldata, (irow, icol, qdata), offset, vartype='SPIN', variable_order=variables)"),
}


def body_stmts(fn):
    return [s for s in fn.body if not (isinstance(s, ast.Expr) and isinstance(s.value, ast.Constant) and isinstance(s.value.value, str))]


class Interp:
    """affine forms over the parameters: dict name -> coefficient, '' -> constant"""

    def __init__(self, fname, params, rng):
        self.fname, self.params, self.rng = fname, params, rng
        self.env = {p: {p: 1} for p in params}
        self.rvals = None
        self.rvals_size = None
        self.pvals = False
        self.draws = {}

    def bad(self, node, msg):
        raise Bad(f"line {node.lineno}: {self.fname}: {msg}: `{ast.unparse(node)}`")

    def aff(self, e):
        if isinstance(e, ast.Constant) and isinstance(e.value, int) and not isinstance(e.value, bool):
            return {"": e.value}
        if isinstance(e, ast.Name) and e.id in self.env:
            return dict(self.env[e.id])
        if isinstance(e, ast.UnaryOp) and isinstance(e.op, ast.USub):
            return {k: -v for k, v in self.aff(e.operand).items()}
        if isinstance(e, ast.BinOp) and isinstance(e.op, (ast.Add, ast.Sub)):
            a, b = self.aff(e.left), self.aff(e.right)
            sg = 1 if isinstance(e.op, ast.Add) else -1
            for k, v in b.items():
                a[k] = a.get(k, 0) + sg * v
            return a
        if isinstance(e, ast.BinOp) and isinstance(e.op, ast.Mult):
            a, b = self.aff(e.left), self.aff(e.right)
            for x, y in ((a, b), (b, a)):
                if set(x) <= {""}:
                    return {k: x.get("", 0) * v for k, v in y.items()}
        self.bad(e, "expression is not an affine form of " + "/".join(self.params) + " with integer coefficients")

    def coq_aff(self, a):
        cs = [a.get(p, 0) for p in self.params] + [a.get("", 0)]
        return "(" + ", ".join(f"({c})%Z" for c in cs) + ")"

    def size_ok(self, call, allowed_kw):
        for k in call.keywords:
            if k.arg not in allowed_kw:
                self.bad(call, f"unexpected keyword {k.arg}")

    def range_piece(self, e):
        if (isinstance(e, ast.Call) and ast.unparse(e.func) in ("range", "np.arange") and len(e.args) == 2 and not e.keywords):
            return (self.aff(e.args[0]), self.aff(e.args[1]))
        self.bad(e, "expected range(<aff>, <aff>) / np.arange(<aff>, <aff>)")

    def draw(self, e):
        if isinstance(e, ast.Constant) and e.value == 0 and not isinstance(e.value, bool):
            return "DZero"
        if isinstance(e, ast.Call):
            f = ast.unparse(e.func)
            if f == "np.zeros" and len(e.args) == 1 and not e.keywords:
                return "DZero"
            if f in (self.rng + ".uniform", self.rng + ".randint") and len(e.args) == 2:
                self.size_ok(e, {"size"})
                ctor = "DUniform" if f.endswith("uniform") else "DRandint"
                return f"({ctor} {self.coq_aff(self.aff(e.args[0]))} {self.coq_aff(self.aff(e.args[1]))})"
            if f == self.rng + ".choice" and len(e.args) == 1 and ast.unparse(e.args[0]) == "rvals":
                self.size_ok(e, {"size", "p"})
                for k in e.keywords:
                    if k.arg == "p" and not (ast.unparse(k.value) == "pvals" and self.pvals):
                        self.bad(e, "p= must be the pvals defined before (positive on every value)")
                if self.rvals is None:
                    self.bad(e, "rvals is not defined yet")
                if self.rvals_size is not None:
                    # rvals = np.empty(n) filled by slices: every slot must have been assigned
                    self.bad(e, "rvals was allocated with np.empty but not (recognisably) filled completely")
                return "DChoice"
        self.bad(e, "draw is outside the translated fragment")

    def step(self, s):
        if isinstance(s, ast.AugAssign) and isinstance(s.target, ast.Name) and s.target.id in self.env and isinstance(s.op, (ast.Add, ast.Sub)):
            d = self.aff(s.value)
            sg = 1 if isinstance(s.op, ast.Add) else -1
            a = self.env[s.target.id]
            for k, v in d.items():
                a[k] = a.get(k, 0) + sg * v
            return
        if isinstance(s, ast.Assign) and len(s.targets) == 1:
            t = s.targets[0]
            if isinstance(t, ast.Name) and t.id in self.env:
                self.env[t.id] = self.aff(s.value)
                return
            if isinstance(t, ast.Name) and t.id in ("ldata", "qdata", "offset"):
                self.draws[t.id] = self.draw(s.value)
                return
            if isinstance(t, ast.Name) and t.id == "rvals":
                v = s.value
                if ast.unparse(v.func if isinstance(v, ast.Call) else v) == "np.empty" and len(v.args) == 1:
                    self.rvals, self.rvals_size, self.filled = [], self.aff(v.args[0]), []
                    return
                if (isinstance(v, ast.Call) and ast.unparse(v.func) == "np.concatenate" and len(v.args) == 1
                        and isinstance(v.args[0], ast.Tuple) and not v.keywords):
                    self.rvals = [self.range_piece(x) for x in v.args[0].elts]
                    self.rvals_size = None
                    return
                self.bad(s, "rvals must be np.empty(<aff>) filled by slices, or np.concatenate of ranges")
            if isinstance(t, ast.Name) and t.id == "pvals":
                if ast.unparse(s.value) != "1 / abs(rvals) / sum(1 / abs(rvals))" or self.rvals is None:
                    self.bad(s, "pvals must be 1 / abs(rvals) / sum(1 / abs(rvals))")
                self.pvals = True
                return
            if isinstance(t, ast.Subscript) and ast.unparse(t.value) == "rvals" and isinstance(t.slice, ast.Slice) and self.rvals_size is not None:
                lo = self.aff(t.slice.lower) if t.slice.lower is not None else {"": 0}
                hi = self.aff(t.slice.upper) if t.slice.upper is not None else dict(self.rvals_size)
                piece = self.range_piece(s.value)
                norm = lambda a: {k: v for k, v in a.items() if v}
                # the slice must hold exactly the piece: upper - lower = stop - start, slices adjacent from 0
                ln = {k: hi.get(k, 0) - lo.get(k, 0) for k in set(hi) | set(lo)}
                pl = {k: piece[1].get(k, 0) - piece[0].get(k, 0) for k in set(piece[0]) | set(piece[1])}
                if norm(ln) != norm(pl):
                    self.bad(s, "the slice and the range have different lengths")
                prev = self.filled[-1] if self.filled else {"": 0}
                if norm(lo) != norm(prev):
                    self.bad(s, "slices of rvals must be adjacent, starting at 0")
                self.filled.append(hi)
                self.rvals.append(piece)
                if norm(hi) == norm(self.rvals_size):
                    self.rvals_size = None          # completely filled
                return
        self.bad(s, "statement is outside the translated fragment")


def translate(fn, name):
    sp = SPEC[name]
    if ast.unparse(fn.args) != sp["args"]:
        raise Bad(f"line {fn.lineno}: {name}: signature ({ast.unparse(fn.args)}) changed")
    if [ast.unparse(d) for d in fn.decorator_list] != ["graph_argument('graph')"]:
        raise Bad(f"line {fn.lineno}: {name}: decorators changed")
    st = body_stmts(fn)
    want = sp["prefix"].split("\n")
    # consume statements whose unparsed text reproduces the prefix, line by line
    got_lines, k = [], 0
    while k < len(st) and len(got_lines) < len(want):
        got_lines += ast.unparse(st[k]).split("\n")
        k += 1
    for i, (a, b) in enumerate(zip(want, got_lines + [""] * len(want))):
        if a != b:
            raise Bad(f"line {fn.lineno}: {name}: statement {i + 1} of the preamble: expected `{a.strip()}`, found `{b.strip()}`")
    if len(got_lines) != len(want):
        raise Bad(f"line {fn.lineno}: {name}: preamble has a different shape")
    it = Interp(name, sp["params"], sp["rng"])
    if not st or ast.unparse(st[-1]) != sp["ret"]:
        raise Bad(f"line {st[-1].lineno if st else fn.lineno}: {name}: return statement changed: `{ast.unparse(st[-1]) if st else ''}`")
    for s in st[k:-1]:
        it.step(s)
    for need in ("ldata", "qdata", "offset"):
        if need not in it.draws:
            raise Bad(f"line {fn.lineno}: {name}: no assignment to {need}")
    return it


def main():
    build, out = sys.argv[1], sys.argv[2]
    p1 = os.path.join(build, "dimod", "generators", "random.py")
    s1 = open(p1).read()
    print("INPUT %s %s" % (p1, hashlib.sha256(s1.encode()).hexdigest()))
    t1 = ast.parse(s1)
    fns = {}
    for n in t1.body:
        if isinstance(n, ast.FunctionDef):
            if n.name in fns:
                raise Bad(f"line {n.lineno}: {n.name} defined twice")
            fns[n.name] = n
    lines = ["(* GENERATED by translators/random_draws.py from dimod/generators/random.py - do not edit *)",
             "From Coq Require Import List ZArith.", "From Dimod Require Import Model.RandomDraws.", "Import ListNotations.", "",
             "(* affine forms: (coefficient of low, coefficient of high, constant) resp. (coefficient of r, constant) ;",
             "   triples: the draws of (linear biases, quadratic biases, offset) *)"]
    for name in ("uniform", "randint"):
        if name not in fns:
            raise Bad(f"{name} not found")
        it = translate(fns[name], name)
        if it.rvals is not None:
            raise Bad(f"{name}: unexpected rvals")
        lines.append(f"Definition gen_{name}_draws : draw2 * draw2 * draw2 := ({it.draws['ldata']}, {it.draws['qdata']}, {it.draws['offset']}).")
    for name in ("ran_r", "power_r"):
        if name not in fns:
            raise Bad(f"{name} not found")
        it = translate(fns[name], name)
        if it.rvals is None or it.rvals_size is not None:
            raise Bad(f"{name}: rvals not (completely) defined")
        rv = "[" + "; ".join(f"({it.coq_aff(a)}, {it.coq_aff(b)})" for a, b in it.rvals) + "]"
        lines.append(f"Definition gen_{name}_draws : draw1 * draw1 * draw1 := ({it.draws['ldata']}, {it.draws['qdata']}, {it.draws['offset']}).")
        lines.append(f"Definition gen_{name}_rvals : list (aff1 * aff1) := {rv}.")
    lines.append("")
    os.makedirs(out, exist_ok=True)
    p = os.path.join(out, "Gen_RandomDraws.v")
    new = "\n".join(lines)
    if not os.path.exists(p) or open(p).read() != new:
        open(p, "w").write(new)


if __name__ == "__main__":
    try:
        main()
    except Bad as e:
        print("random_draws.py: " + str(e))
        sys.exit(1)
