#!/venv/bin/python
"""Fail-closed translator: dimod/views/quadratic.py (Linear / Quadratic / Neighborhood write methods),
dimod/binary/binary_quadratic_model.py and dimod/quadratic/quadratic_model.py (__imul__, __itruediv__, number branch of
__iadd__ / __isub__)  -> coq/theories/Gen/Gen_ViewWrites.v

PROPERTIES = [C04]

The C04 worker issues edits in alternative public spellings (linear[v] = b, del quadratic[u, v], adj[u][v] = b,
model *= k, model /= k, model += b, ...) and renders them as the Coq op of the method the spelling is documented to
forward to.  This translator reads the forwarding off the source (ast shape match, method by method) and emits it as a
table; Proofs/HistGenTie2.v proves the table equal to the one the worker assumes, so a change of the forwarding makes
the proof (and the check) fail with the place named here.

usage: view_writes.py <build_dir> <out_dir>
"""
import ast
import hashlib
import os
import sys


class Bad(Exception):
    pass


def find_method(tree, cls, name, path):
    cs = [n for n in tree.body if isinstance(n, ast.ClassDef) and n.name == cls]
    if len(cs) != 1:
        raise Bad(f"{path}: class {cls} not found (or defined twice)")
    fs = [n for n in cs[0].body if isinstance(n, ast.FunctionDef) and n.name == name]
    if len(fs) != 1:
        raise Bad(f"{path}: method {cls}.{name} not found (or defined twice)")
    return fs[0]


def body_of(fn):
    b = fn.body
    if b and isinstance(b[0], ast.Expr) and isinstance(b[0].value, ast.Constant) and isinstance(b[0].value.value, str):
        b = b[1:]
    return b


def same(stmts, text):
    want = ast.parse(text).body
    return len(stmts) == len(want) and all(ast.dump(a) == ast.dump(b) for a, b in zip(stmts, want))


def classify(fn, path, table):
    """table: list of (template source, generated constructor); the method body must equal exactly one template"""
    b = body_of(fn)
    for text, con in table:
        if same(b, text):
            return con
    raise Bad(f"{path}: line {fn.lineno}: body of {fn.name} matches none of the expected forwarding shapes: "
              f"`{ast.unparse(b[0]) if b else ''} ...`")


def main():
    build, out = sys.argv[1], sys.argv[2]
    paths = {k: os.path.join(build, "dimod", *p) for k, p in
             {"views": ("views", "quadratic.py"), "bqm": ("binary", "binary_quadratic_model.py"),
              "qm": ("quadratic", "quadratic_model.py")}.items()}
    trees = {}
    for k, p in paths.items():
        s = open(p).read()
        print("INPUT %s %s" % (p, hashlib.sha256(s.encode()).hexdigest()))
        trees[k] = ast.parse(s)
    V = "dimod/views/quadratic.py"
    rows = []
    rows.append(("gen_linear_setitem", classify(find_method(trees["views"], "Linear", "__setitem__", V), V, [
        ("self._model.set_linear(v, bias)", "WSetLinear"), ("self._model.add_linear(v, bias)", "WAddLinear")])))
    rows.append(("gen_linear_delitem", classify(find_method(trees["views"], "Linear", "__delitem__", V), V, [
        ("try:\n    self._model.remove_variable(v)\nexcept ValueError:\n    raise KeyError(repr(v))", "WRemoveVariableKeyError"),
        ("self._model.remove_variable(v)", "WRemoveVariable")])))
    rows.append(("gen_quadratic_setitem", classify(find_method(trees["views"], "Quadratic", "__setitem__", V), V, [
        ("self._model.set_quadratic(*uv, bias)", "WSetQuadratic"), ("self._model.add_quadratic(*uv, bias)", "WAddQuadratic")])))
    rows.append(("gen_quadratic_delitem", classify(find_method(trees["views"], "Quadratic", "__delitem__", V), V, [
        ("try:\n    self._model.remove_interaction(*uv)\nexcept ValueError:\n    raise KeyError(repr(uv))", "WRemoveInteractionKeyError"),
        ("self._model.remove_interaction(*uv)", "WRemoveInteraction")])))
    rows.append(("gen_neighborhood_setitem", classify(find_method(trees["views"], "Neighborhood", "__setitem__", V), V, [
        ("self._model.set_quadratic(self._var, v, bias)", "WSetQuadratic"),
        ("self._model.add_quadratic(self._var, v, bias)", "WAddQuadratic")])))
    for key, cls, path in (("bqm", "BinaryQuadraticModel", "dimod/binary/binary_quadratic_model.py"),
                           ("qm", "QuadraticModel", "dimod/quadratic/quadratic_model.py")):
        rows.append((f"gen_{key}_imul", classify(find_method(trees[key], cls, "__imul__", path), path, [
            ("if isinstance(other, Number):\n    self.scale(other)\n    return self\nreturn NotImplemented", "WScale")])))
        rows.append((f"gen_{key}_itruediv", classify(find_method(trees[key], cls, "__itruediv__", path), path, [
            ("self *= (1 / other)\nreturn self", "WScaleInverse"), ("self *= other\nreturn self", "WScale")])))
        for meth, sign in (("__iadd__", "+="), ("__isub__", "-=")):
            fn = find_method(trees[key], cls, meth, path)
            br = [n for n in body_of(fn) if isinstance(n, ast.If) and ast.dump(n.test) ==
                  ast.dump(ast.parse("isinstance(other, Number)").body[0].value)]
            if len(br) != 1 or br[0].orelse:
                raise Bad(f"{path}: line {fn.lineno}: {meth} must hold exactly one `if isinstance(other, Number):` branch")
            if same(br[0].body, f"self.offset {sign} other\nreturn self"):
                con = "WOffsetAdd" if sign == "+=" else "WOffsetSub"
            else:
                raise Bad(f"{path}: line {br[0].lineno}: number branch of {meth} is not `self.offset {sign} other; return self`")
            rows.append((f"gen_{key}_{meth.strip('_')}_number", con))
    with open(os.path.join(out, "Gen_ViewWrites.v"), "w") as fh:
        fh.write("(* GENERATED by translators/view_writes.py from dimod/views/quadratic.py, binary_quadratic_model.py, quadratic_model.py - do not edit *)\n\n")
        fh.write("(* the method a public spelling of an edit forwards to *)\n")
        fh.write("Inductive wcall := WSetLinear | WAddLinear | WSetQuadratic | WAddQuadratic\n"
                 "  | WRemoveVariable | WRemoveVariableKeyError | WRemoveInteraction | WRemoveInteractionKeyError\n"
                 "  | WScale | WScaleInverse | WOffsetAdd | WOffsetSub.\n\n")
        for name, con in rows:
            fh.write(f"Definition {name} : wcall := {con}.\n")


if __name__ == "__main__":
    try:
        main()
    except Bad as e:
        print("TRANSLATOR ERROR:", e)
        sys.exit(1)
