#!/venv/bin/python
"""Fail-closed translator: dimod/generators/magic_square.py::magic_square -> coq/theories/Gen/Gen_Magic.v

usage: magic_construction.py <build_dir> <out_dir>

GENERATES the construction of magic_square(size, power):

  for a, b in product(range(size), range(size)): variables[a, b] = Integer(f"var_{a}_{b}", lower_bound=1)
        -> variables[x, y] is the variable labelled var_x_y, which the harness numbers gm_cell n x y = x*n + y;
           constraint_sum = Integer("sum", ...) is numbered gm_sum n = n*n
  for i in range(size):
      if power == 1: <line>, <line>      else: <line>, <line>
  if power == 1: <line>, <line>          else: <line>, <line>
        with <line> = cqm.add_constraint_from_comparison(quicksum(<cell>[**power] for v in range(size)) - constraint_sum == 0, label=...)
        -> gm_loop_lines n power i, gm_tail_lines n power : lists of (cells of the line, exponent)
  cqm.add_constraint_from_comparison(quicksum(<polynomial in variables[..]> for a, b, c, d in product(range(size), repeat=4)
                                              if <condition>) >= <rhs>, label=...)
        -> gm_pair_guard, gm_pair_terms (the degree-2 terms of one summand), gm_uniq_quad (all of them, in loop order),
           gm_uniq_rhs_num / gm_uniq_rhs_den
Index expressions: a loop variable or size - 1 - v.  Any other shape is an error naming the source line.
"""
import ast
import hashlib
import os
import sys

PROPERTIES = ["C17"]


class Bad(Exception):
    def __init__(self, node, why):
        self.node, self.why = node, why


def same(node, template):
    return ast.dump(node) == ast.dump(ast.parse(template).body[0])


def is_range_size(n):
    return (isinstance(n, ast.Call) and isinstance(n.func, ast.Name) and n.func.id == "range" and len(n.args) == 1
            and not n.keywords and isinstance(n.args[0], ast.Name) and n.args[0].id == "size")


def sl(n):
    s = n.slice
    if isinstance(s, ast.Index):
        s = s.value
    return s


def idx(n, names):
    """index expression over nat: a loop variable, or size - 1 - v"""
    if isinstance(n, ast.Name) and n.id in names:
        return n.id
    if same(ast.Expr(n), "size - 1 - V".replace("V", "i")) or (
            isinstance(n, ast.BinOp) and isinstance(n.op, ast.Sub) and isinstance(n.right, ast.Name)
            and n.right.id in names and isinstance(n.left, ast.BinOp) and isinstance(n.left.op, ast.Sub)
            and isinstance(n.left.left, ast.Name) and n.left.left.id == "size"
            and isinstance(n.left.right, ast.Constant) and type(n.left.right.value) is int and n.left.right.value >= 0):
        return f"(n - {n.left.right.value} - {n.right.id})%nat"
    raise Bad(n, "index: a loop variable or size - c - v expected")


def var_ref(n, names):
    """variables[x, y] -> 'gm_cell n x y'"""
    if isinstance(n, ast.Subscript) and isinstance(n.value, ast.Name) and n.value.id == "variables":
        s = sl(n)
        if isinstance(s, ast.Tuple) and len(s.elts) == 2:
            return f"gm_cell n {idx(s.elts[0], names)} {idx(s.elts[1], names)}"
    raise Bad(n, "variables[x, y] expected")


def line(call, outer):
    """one line constraint -> (comprehension variable, cell, exponent ('1' or 'power'), label text)"""
    if not (isinstance(call, ast.Expr) and isinstance(call.value, ast.Call)):
        raise Bad(call, "cqm.add_constraint_from_comparison(...) expected")
    c = call.value
    if not (isinstance(c.func, ast.Attribute) and c.func.attr == "add_constraint_from_comparison"
            and isinstance(c.func.value, ast.Name) and c.func.value.id == "cqm" and len(c.args) == 1
            and [k.arg for k in c.keywords] == ["label"]):
        raise Bad(call, "cqm.add_constraint_from_comparison(<comparison>, label=...) expected")
    cmp_ = c.args[0]
    if not (isinstance(cmp_, ast.Compare) and len(cmp_.ops) == 1 and isinstance(cmp_.ops[0], ast.Eq)
            and isinstance(cmp_.comparators[0], ast.Constant) and cmp_.comparators[0].value == 0
            and type(cmp_.comparators[0].value) is int):
        raise Bad(call, "<expr> == 0 expected")
    e = cmp_.left
    if not (isinstance(e, ast.BinOp) and isinstance(e.op, ast.Sub) and isinstance(e.right, ast.Name)
            and e.right.id == "constraint_sum"):
        raise Bad(call, "quicksum(...) - constraint_sum expected")
    q = e.left
    if not (isinstance(q, ast.Call) and isinstance(q.func, ast.Name) and q.func.id == "quicksum" and len(q.args) == 1
            and not q.keywords and isinstance(q.args[0], ast.GeneratorExp) and len(q.args[0].generators) == 1):
        raise Bad(call, "quicksum(<generator>) expected")
    g = q.args[0].generators[0]
    if g.ifs or g.is_async or not isinstance(g.target, ast.Name) or not is_range_size(g.iter):
        raise Bad(call, "`for v in range(size)` expected")
    v = g.target.id
    names = {v} | ({outer} if outer and outer != v else set())
    elt = q.args[0].elt
    exponent = "1"
    if isinstance(elt, ast.BinOp) and isinstance(elt.op, ast.Pow):
        if not (isinstance(elt.right, ast.Name) and elt.right.id == "power"):
            raise Bad(call, "variables[..] ** power expected")
        exponent = "power"
        elt = elt.left
    cell = var_ref(elt, names)
    lab = ast.dump(c.keywords[0].value)
    return v, cell, exponent, lab


def lines_of_if(st, outer):
    """if power == 1: L, L  else: L', L'  with L' = L except for ** power -> [(v, cell)] * 2 (checked in both branches)"""
    if not (isinstance(st, ast.If) and same(ast.Expr(st.test), "power == 1") and len(st.body) == 2 and len(st.orelse) == 2):
        raise Bad(st, "if power == 1: <2 constraints> else: <2 constraints> expected")
    res = []
    for a, b in zip(st.body, st.orelse):
        va, ca, ea, la = line(a, outer)
        vb, cb, eb, lb = line(b, outer)
        if ea != "1" or eb != "power":
            raise Bad(a, "exponent 1 in the power == 1 branch and ** power in the other expected")
        if la != lb:
            raise Bad(b, "the two branches must label their constraints alike")
        res.append(((va, ca), (vb, cb)))
    return res


def poly_terms(n, names):
    """-> list of (int coefficient, [cells])"""
    if isinstance(n, ast.BinOp) and isinstance(n.op, (ast.Add, ast.Sub)):
        r = poly_terms(n.right, names)
        if isinstance(n.op, ast.Sub):
            r = [(-c, v) for c, v in r]
        return poly_terms(n.left, names) + r
    if isinstance(n, ast.BinOp) and isinstance(n.op, ast.Mult):
        a, b = poly_terms(n.left, names), poly_terms(n.right, names)
        if len(a) != 1 or len(b) != 1:
            raise Bad(n, "a product of sums is not understood")
        return [(a[0][0] * b[0][0], a[0][1] + b[0][1])]
    if isinstance(n, ast.BinOp) and isinstance(n.op, ast.Pow):
        if not (isinstance(n.right, ast.Constant) and type(n.right.value) is int and n.right.value == 2):
            raise Bad(n, "only ** 2 is understood here")
        c = var_ref(n.left, names)
        return [(1, [c, c])]
    if isinstance(n, ast.Constant) and type(n.value) is int:
        return [(n.value, [])]
    return [(1, [var_ref(n, names)])]


def cond(n, names):
    if isinstance(n, ast.BoolOp):
        op = "&&" if isinstance(n.op, ast.And) else "||"
        return "(" + f" {op} ".join(cond(v, names) for v in n.values) + ")"
    if isinstance(n, ast.Compare) and len(n.ops) == 1 and isinstance(n.left, ast.Name) and n.left.id in names \
            and isinstance(n.comparators[0], ast.Name) and n.comparators[0].id in names:
        a, b = n.left.id, n.comparators[0].id
        if isinstance(n.ops[0], ast.Gt):
            return f"({b} <? {a})%nat"
        if isinstance(n.ops[0], ast.Lt):
            return f"({a} <? {b})%nat"
        if isinstance(n.ops[0], ast.Eq):
            return f"({a} =? {b})%nat"
    raise Bad(n, "condition: and/or of a > b, a < b, a == b over the loop variables expected")


def zexpr(n):
    if isinstance(n, ast.Constant) and type(n.value) is int:
        return f"({n.value})"
    if isinstance(n, ast.Name) and n.id == "size":
        return "size"
    if isinstance(n, ast.BinOp) and isinstance(n.op, ast.Pow) and isinstance(n.right, ast.Constant) \
            and type(n.right.value) is int and n.right.value >= 0:
        return f"({zexpr(n.left)} ^ {n.right.value})"
    if isinstance(n, ast.BinOp) and type(n.op) in (ast.Add, ast.Sub, ast.Mult):
        op = {ast.Add: "+", ast.Sub: "-", ast.Mult: "*"}[type(n.op)]
        return f"({zexpr(n.left)} {op} {zexpr(n.right)})"
    raise Bad(n, "integer arithmetic over size expected")


def translate(fn):
    body = fn.body
    if body and isinstance(body[0], ast.Expr) and isinstance(body[0].value, ast.Constant) \
            and isinstance(body[0].value.value, str):
        body = body[1:]
    if [a.arg for a in fn.args.args] != ["size", "power"] or fn.args.vararg or fn.args.kwarg or fn.args.kwonlyargs \
            or fn.decorator_list or len(fn.args.defaults) != 1 or not same(ast.Expr(fn.args.defaults[0]), "1"):
        raise Bad(fn, "signature changed")
    if len(body) != 9:
        raise Bad(fn, f"{len(body)} statements, expected 9")
    st = body[0]
    if not (isinstance(st, ast.If) and same(ast.Expr(st.test), "power not in [1, 2]") and len(st.body) == 1
            and isinstance(st.body[0], ast.Raise) and not st.orelse):
        raise Bad(st, "if power not in [1, 2]: raise ... expected")
    if not same(body[1], "variables = {}"):
        raise Bad(body[1], "variables = {} expected")
    st = body[2]
    if not (isinstance(st, ast.For) and not st.orelse and isinstance(st.target, ast.Tuple) and len(st.target.elts) == 2
            and all(isinstance(e, ast.Name) for e in st.target.elts)
            and same(ast.Expr(st.iter), "product(range(size), range(size))") and len(st.body) == 1):
        raise Bad(st, "for a, b in product(range(size), range(size)): <1 statement> expected")
    a, b = (e.id for e in st.target.elts)
    if a == b or not same(st.body[0], f'variables[{a}, {b}] = Integer(f"var_{{{a}}}_{{{b}}}", lower_bound=1)'):
        raise Bad(st.body[0], 'variables[a, b] = Integer(f"var_{a}_{b}", lower_bound=1) expected')
    if not same(body[3], 'constraint_sum = Integer("sum", lower_bound=1)'):
        raise Bad(body[3], 'constraint_sum = Integer("sum", lower_bound=1) expected')
    if not same(body[4], "cqm = ConstrainedQuadraticModel()"):
        raise Bad(body[4], "cqm = ConstrainedQuadraticModel() expected")
    st = body[5]
    if not (isinstance(st, ast.For) and not st.orelse and isinstance(st.target, ast.Name) and is_range_size(st.iter)
            and len(st.body) == 1):
        raise Bad(st, "for i in range(size): if ... expected")
    outer = st.target.id
    loop_lines = lines_of_if(st.body[0], outer)
    tail_lines = lines_of_if(body[6], None)
    # uniqueness
    st = body[7]
    if not (isinstance(st, ast.Expr) and isinstance(st.value, ast.Call) and isinstance(st.value.func, ast.Attribute)
            and st.value.func.attr == "add_constraint_from_comparison" and isinstance(st.value.func.value, ast.Name)
            and st.value.func.value.id == "cqm" and len(st.value.args) == 1
            and [k.arg for k in st.value.keywords] == ["label"]):
        raise Bad(st, "cqm.add_constraint_from_comparison(<comparison>, label=...) expected")
    cmp_ = st.value.args[0]
    if not (isinstance(cmp_, ast.Compare) and len(cmp_.ops) == 1 and isinstance(cmp_.ops[0], (ast.GtE, ast.LtE, ast.Eq))):
        raise Bad(st, "<quicksum> >= <rhs> expected")
    sense = {ast.GtE: "SGe", ast.LtE: "SLe", ast.Eq: "SEq"}[type(cmp_.ops[0])]
    q = cmp_.left
    if not (isinstance(q, ast.Call) and isinstance(q.func, ast.Name) and q.func.id == "quicksum" and len(q.args) == 1
            and not q.keywords and isinstance(q.args[0], ast.GeneratorExp) and len(q.args[0].generators) == 1):
        raise Bad(st, "quicksum(<generator>) expected")
    g = q.args[0].generators[0]
    if not (isinstance(g.target, ast.Tuple) and len(g.target.elts) == 4 and all(isinstance(e, ast.Name) for e in g.target.elts)
            and same(ast.Expr(g.iter), "product(range(size), repeat=4)") and len(g.ifs) == 1 and not g.is_async):
        raise Bad(st, "for a, b, c, d in product(range(size), repeat=4) if <condition> expected")
    lv = [e.id for e in g.target.elts]
    if len(set(lv)) != 4:
        raise Bad(st, "four different loop variables expected")
    guard = cond(g.ifs[0], set(lv))
    terms = poly_terms(q.args[0].elt, set(lv))
    for c, vs in terms:
        if len(vs) != 2:
            raise Bad(st, "every term of the summand must have degree 2")
    rhs = cmp_.comparators[0]
    if not (isinstance(rhs, ast.BinOp) and isinstance(rhs.op, ast.Div) and isinstance(rhs.right, ast.Constant)
            and type(rhs.right.value) is int and rhs.right.value > 0):
        raise Bad(st, "<integer expression> / <positive literal> expected on the right-hand side")
    if not same(body[8], "return cqm"):
        raise Bad(body[8], "return cqm expected")
    return dict(outer=outer, loop=loop_lines, tail=tail_lines, lv=lv, guard=guard, terms=terms, sense=sense,
                num=zexpr(rhs.left), den=rhs.right.value)


def qc_of(v):
    return f"(Q2Qc (inject_Z ({v})%Z))"


def render(o, sha):
    def cells(vc):
        v, c = vc
        return f"map (fun {v} => {c}) (seq 0 n)"

    def branch(lines_, which, exp):
        return "[" + "; ".join(f"({cells(l[which])}, {exp})" for l in lines_) + "]"
    lv = o["lv"]
    inner = f"if gm_pair_guard {' '.join(lv)} then gm_pair_terms n {' '.join(lv)} else []"
    for v in reversed(lv):
        inner = f"flat_map (fun {v} => {inner}) (seq 0 n)"
    terms = "; ".join(f"({vs[0]}, {vs[1]}, {qc_of(c)})" for c, vs in o["terms"])
    return "\n".join([
        "(* GENERATED by translators/magic_construction.py from dimod/generators/magic_square.py - do not edit.",
        f"   source sha256 {sha} *)",
        "From Coq Require Import List ZArith QArith Qcanon Bool Arith.",
        "From Dimod Require Import Model.Poly Model.Knap.",
        "Import ListNotations.",
        "Open Scope Qc_scope.",
        "",
        "(* variables[x, y] is the variable labelled var_x_y; constraint_sum is labelled sum *)",
        "Definition gm_cell (n x y : nat) : label := (x * n + y)%nat.",
        "Definition gm_sum (n : nat) : label := (n * n)%nat.",
        "",
        "(* the lines (cells, exponent) of  quicksum(cell ** exponent) - constraint_sum == 0, in the order they are added *)",
        f"Definition gm_loop_lines (n power {o['outer']} : nat) : list (list label * nat) :=",
        f"  if (power =? 1)%nat then {branch(o['loop'], 0, '1%nat')}",
        f"  else {branch(o['loop'], 1, 'power')}.",
        "Definition gm_tail_lines (n power : nat) : list (list label * nat) :=",
        f"  if (power =? 1)%nat then {branch(o['tail'], 0, '1%nat')}",
        f"  else {branch(o['tail'], 1, 'power')}.",
        "",
        "(* uniqueness: condition and terms of one summand, all summands in loop order, sense and right-hand side *)",
        f"Definition gm_pair_guard ({' '.join(lv)} : nat) : bool := {o['guard']}.",
        f"Definition gm_pair_terms (n {' '.join(lv)} : nat) : list qterm := [{terms}].",
        "Definition gm_uniq_quad (n : nat) : list qterm :=",
        f"  {inner}.",
        f"Definition gm_uniq_sense : sense := {o['sense']}.",
        f"Definition gm_uniq_rhs_num (size : Z) : Z := {o['num']}%Z.",
        f"Definition gm_uniq_rhs_den : Z := ({o['den']})%Z.",
        ""])


def main():
    build, out = sys.argv[1], sys.argv[2]
    src = os.path.join(build, "dimod", "generators", "magic_square.py")
    data = open(src, "rb").read()
    sha = hashlib.sha256(data).hexdigest()
    print("INPUT", src, sha)
    text = data.decode("utf-8")
    lines = text.splitlines()
    tree = ast.parse(text)
    try:
        fns = [n for n in tree.body if isinstance(n, ast.FunctionDef) and n.name == "magic_square"]
        if len(fns) != 1:
            raise Bad(tree, "exactly one function magic_square expected")
        o = translate(fns[0])
    except Bad as e:
        ln = getattr(e.node, "lineno", 0)
        print(f"magic_construction: {src}:{ln}: {e.why}")
        if ln:
            print("    " + lines[ln - 1].strip())
        return 2
    os.makedirs(out, exist_ok=True)
    new = render(o, sha)
    dst = os.path.join(out, "Gen_Magic.v")
    if not os.path.exists(dst) or open(dst).read() != new:
        with open(dst, "w") as fh:
            fh.write(new)
    return 0


if __name__ == "__main__":
    sys.exit(main())
