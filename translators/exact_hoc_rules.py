#!/venv/bin/python
"""Fail-closed translator: dimod/reference/samplers/exact_solver.py and
dimod/reference/composites/higherordercomposites.py -> coq/theories/Gen/Gen_ExactHoc.v

Extracts, with Python's ast, what Model/Solve.v / Model/ChkC07.v build on:

  exact_solver.py
    _iterator_by_vartype   the per-variable domain construction: BINARY -> range(a) ; SPIN -> [..] ;
                           INTEGER -> range(ROUND(cqm.lower_bound(v)) [+-k], ROUND(cqm.upper_bound(v)) [+-k])
                           with ROUND in {math.ceil, math.floor, int}
    _all_cases_dqm         range(dqm.num_cases(v)) per variable (the meshgrid expression is pinned)
    ExactSolver.sample     the map from gray-code bits to spins (2*samples - 1)
    _graycode, _all_cases_cqm, ExactSolver.sample   statement shapes pinned (ast dumps) - Model/Comb.v's
                           gray_loop / Model/Solve.v's cqm_combinations mirror exactly these loops
  higherordercomposites.py
    HigherOrderComposite.sample_poly   the default values of penalty_strength / keep_penalty_variables /
                           discard_unsatisfied, and that they are forwarded to polymorph_response
    polymorph_response     its own defaults; penalty_satisfaction and polymorph_response shapes pinned

Anything that does not match is an error naming the function.

usage: exact_hoc_rules.py <build_dir> <out_dir>
"""
import ast
import copy
import hashlib
import os
import sys
from fractions import Fraction

HOLE = "__HOLE__"
TEMPLATES = {
    'GRAY': '''
n = len(bqm.variables)
ns = 1 << n
samples = np.empty((ns, n), dtype=np.int8)
samples[0, :] = 0
for i in range(1, ns):
    v = (i & -i).bit_length() - 1
    samples[i, :] = samples[i - 1, :]
    samples[i, v] = not samples[i - 1, v]
return samples
''',
    'CQM': '''
var_list = list(cqm.variables)
d_cases = [len(cqm.constraints[d].lhs.variables) for d in cqm.discrete]
d_vars = [x for l in [list(cqm.constraints[d].lhs.variables) for d in cqm.discrete] for x in l]
s = set(d_vars)
var_list = [v for v in var_list if v not in s]
cases = [_iterator_by_vartype(cqm, v) for v in var_list]
c1 = np.array(np.meshgrid(*cases))
if len(var_list):
    c1 = c1.T.reshape(-1, len(var_list))
combinations = []
for indexes in product(*[range(d) for d in d_cases]):
    if not len(indexes):
        break
    l = []
    for i in range(len(indexes)):
        s = np.zeros(d_cases[i])
        s[indexes[i]] = 1
        l = np.concatenate([l, s])
    if len(c1):
        for row in c1:
            combinations.append(np.concatenate([l, row]))
    else:
        combinations.append(l)
var_list = d_vars + var_list
if not len(combinations):
    combinations = c1
return (np.array(combinations), var_list)
''',
    'DQM': '''
cases = [__HOLE__ for v in dqm.variables]
return (np.array(np.meshgrid(*cases)).T.reshape(-1, dqm.num_variables()), list(dqm.variables))
''',
    'EXACT_SAMPLE': '''
kwargs = self.remove_unknown_kwargs(**kwargs)
if not len(bqm.variables):
    return SampleSet.from_samples([], bqm.vartype, energy=[])
samples = _graycode(bqm)
if bqm.vartype is Vartype.SPIN:
    samples = __HOLE__
return SampleSet.from_samples_bqm((samples, list(bqm.variables)), bqm)
''',
    'HOC_SAMPLE': '''
bqm = make_quadratic(poly, penalty_strength, vartype=poly.vartype)
if 'initial_state' in parameters:
    initial_state = expand_initial_state(bqm, parameters['initial_state'])
    parameters['initial_state'] = initial_state
response = self.child.sample(bqm, **parameters)
return polymorph_response(response, poly, bqm, penalty_strength=penalty_strength, keep_penalty_variables=keep_penalty_variables, discard_unsatisfied=discard_unsatisfied)
''',
    'PENSAT': '''
record = response.record
label_to_idx = response.variables.index
if len(bqm.info['reduction']) == 0:
    return np.array([1] * len(record.sample))
penalty_vector = np.prod([record.sample[:, label_to_idx(qi)] * record.sample[:, label_to_idx(qj)] == record.sample[:, label_to_idx(valdict['product'])] for (qi, qj), valdict in bqm.info['reduction'].items()], axis=0)
return penalty_vector
''',
    'POLYMORPH': '''
record = response.record
penalty_vector = penalty_satisfaction(response, bqm)
original_variables = response.variables
if discard_unsatisfied:
    samples_to_keep = list(map(bool, list(penalty_vector)))
    penalty_vector = np.ones(sum(samples_to_keep), dtype=bool)
else:
    samples_to_keep = list(map(bool, [1] * len(record.sample)))
samples = record.sample[samples_to_keep]
energy_vector = poly.energies((samples, response.variables))
if not keep_penalty_variables:
    original_variables = poly.variables
    idxs = [response.variables.index(v) for v in original_variables]
    samples = np.asarray(samples[:, idxs])
num_samples, num_variables = np.shape(samples)
datatypes = [('sample', np.dtype(np.int8), (num_variables,)), ('energy', energy_vector.dtype), ('penalty_satisfaction', penalty_vector.dtype)]
datatypes.extend(((name, record[name].dtype, record[name].shape[1:]) for name in record.dtype.names if name not in {'sample', 'energy'}))
data = np.rec.array(np.empty(num_samples, dtype=datatypes))
data.sample = samples
data.energy = energy_vector
for name in record.dtype.names:
    if name not in {'sample', 'energy'}:
        data[name] = record[name][samples_to_keep]
data['penalty_satisfaction'] = penalty_vector
response.info['reduction'] = bqm.info['reduction']
if penalty_strength is not None:
    response.info['penalty_strength'] = penalty_strength
return SampleSet(data, original_variables, response.info, response.vartype)
'''
}


class Bad(Exception):
    pass


def strip_doc(body):
    if body and isinstance(body[0], ast.Expr) and isinstance(body[0].value, ast.Constant) \
            and isinstance(body[0].value.value, str):
        return body[1:]
    return body


def top_fn(tree, name, path):
    fs = [n for n in tree.body if isinstance(n, ast.FunctionDef) and n.name == name]
    if len(fs) != 1:
        raise Bad(f"{path}: function {name} not found (or defined twice)")
    return fs[0]


def method(tree, cls, name, path):
    cs = [n for n in tree.body if isinstance(n, ast.ClassDef) and n.name == cls]
    if len(cs) != 1:
        raise Bad(f"{path}: class {cls} not found (or defined twice)")
    fs = [n for n in cs[0].body if isinstance(n, ast.FunctionDef) and n.name == name]
    if len(fs) != 1:
        raise Bad(f"{path}: method {cls}.{name} not found (or defined twice)")
    return fs[0]


def dump(stmts):
    return ast.dump(ast.Module(body=list(stmts), type_ignores=[]), annotate_fields=False, include_attributes=False)


class Replace(ast.NodeTransformer):
    def __init__(self, targets):
        self.targets = {id(t) for t in targets}

    def visit(self, node):
        if id(node) in self.targets:
            return ast.Name(id=HOLE, ctx=ast.Load())
        return super().visit(node)


def expect_shape(fn, holes, key, what):
    body = strip_doc(fn.body)
    memo = {}
    cp = copy.deepcopy(ast.Module(body=list(body), type_ignores=[]), memo)
    cp = Replace([memo[id(h)] for h in holes]).visit(cp)
    got = ast.dump(cp, annotate_fields=False, include_attributes=False)
    want = ast.dump(ast.parse(TEMPLATES[key]), annotate_fields=False, include_attributes=False)
    if got != want:
        raise Bad(f"line {fn.lineno}: {what} does not have the expected shape")


def int_const(n, what):
    if isinstance(n, ast.UnaryOp) and isinstance(n.op, ast.USub):
        return -int_const(n.operand, what)
    if isinstance(n, ast.Constant) and isinstance(n.value, int) and not isinstance(n.value, bool):
        return n.value
    raise Bad(f"line {n.lineno}: expected an integer literal in {what}")


def range_args(n, what):
    if not (isinstance(n, ast.Call) and isinstance(n.func, ast.Name) and n.func.id == "range" and not n.keywords
            and len(n.args) in (1, 2)):
        raise Bad(f"line {n.lineno}: expected range(...) in {what}")
    return n.args


ROUND = {"math.ceil": "gceil", "math.floor": "gfloor", "int": "gtrunc"}


def bound_expr(n, getter, var, what):
    """ROUND(cqm.<getter>(v)) [+- k]  ->  (round name, k)"""
    k = 0
    if isinstance(n, ast.BinOp) and isinstance(n.op, (ast.Add, ast.Sub)):
        k = int_const(n.right, what)
        if isinstance(n.op, ast.Sub):
            k = -k
        n = n.left
    if not (isinstance(n, ast.Call) and len(n.args) == 1 and not n.keywords and ast.unparse(n.func) in ROUND
            and ast.unparse(n.args[0]) == f"cqm.{getter}(v)"):
        raise Bad(f"line {n.lineno}: expected ROUND(cqm.{getter}(v)) [+- k] in {what}: {ast.unparse(n)}")
    return ROUND[ast.unparse(n.func)], k


def zlit(k):
    return f"({k})%Z" if k < 0 else f"{k}%Z"


def vartype_test(n, name):
    return (isinstance(n, ast.Compare) and len(n.ops) == 1 and isinstance(n.ops[0], ast.Is)
            and ast.unparse(n.left) == "cqm.vartype(v)" and ast.unparse(n.comparators[0]) == f"Vartype.{name}")


def default_of(fn, name):
    args = fn.args.args
    defaults = fn.args.defaults
    pos = [a.arg for a in args]
    if name not in pos:
        raise Bad(f"line {fn.lineno}: {fn.name} has no parameter {name}")
    i = pos.index(name) - (len(args) - len(defaults))
    if i < 0:
        raise Bad(f"line {fn.lineno}: {fn.name}: parameter {name} has no default")
    return defaults[i]


def bool_default(fn, name):
    d = default_of(fn, name)
    if isinstance(d, ast.Constant) and isinstance(d.value, bool):
        return "true" if d.value else "false"
    raise Bad(f"line {fn.lineno}: {fn.name}: default of {name} is not a bool literal")


def main():
    build, out = sys.argv[1], sys.argv[2]
    epath = os.path.join(build, "dimod", "reference", "samplers", "exact_solver.py")
    hpath = os.path.join(build, "dimod", "reference", "composites", "higherordercomposites.py")
    esrc, hsrc = open(epath).read(), open(hpath).read()
    print("INPUT %s %s" % (epath, hashlib.sha256(esrc.encode()).hexdigest()))
    print("INPUT %s %s" % (hpath, hashlib.sha256(hsrc.encode()).hexdigest()))
    et, ht = ast.parse(esrc), ast.parse(hsrc)
    g = {}

    # ---- _iterator_by_vartype
    fn = top_fn(et, "_iterator_by_vartype", epath)
    body = strip_doc(fn.body)
    if [a.arg for a in fn.args.args] != ["cqm", "v"] or len(body) != 4:
        raise Bad(f"line {fn.lineno}: _iterator_by_vartype(cqm, v) must consist of three `if` and a `raise`")
    for s, name in zip(body[:3], ("BINARY", "SPIN", "INTEGER")):
        if not (isinstance(s, ast.If) and vartype_test(s.test, name) and not s.orelse and len(s.body) == 1
                and isinstance(s.body[0], ast.Return)):
            raise Bad(f"line {s.lineno}: expected `if cqm.vartype(v) is Vartype.{name}: return ...`")
    if not (isinstance(body[3], ast.Raise) and ast.unparse(body[3].exc.func) == "ValueError"):
        raise Bad(f"line {body[3].lineno}: expected `raise ValueError(...)` for the other vartypes")
    a = range_args(body[0].body[0].value, "the BINARY domain")
    lo, hi = (0, int_const(a[0], "range")) if len(a) == 1 else (int_const(a[0], "range"), int_const(a[1], "range"))
    g["binary"] = f"grange {zlit(lo)} {zlit(hi)}"
    sp = body[1].body[0].value
    if not isinstance(sp, (ast.List, ast.Tuple)):
        raise Bad(f"line {sp.lineno}: the SPIN domain must be a literal list")
    g["spin"] = "[" + "; ".join(zlit(int_const(e, "the SPIN domain")) for e in sp.elts) + "]"
    a = range_args(body[2].body[0].value, "the INTEGER domain")
    if len(a) != 2:
        raise Bad(f"line {body[2].lineno}: the INTEGER domain must be range(start, stop)")
    r1, k1 = bound_expr(a[0], "lower_bound", "v", "the INTEGER domain")
    r2, k2 = bound_expr(a[1], "upper_bound", "v", "the INTEGER domain")
    g["integer"] = f"grange ({r1} lb + {zlit(k1)})%Z ({r2} ub + {zlit(k2)})%Z"

    # ---- _all_cases_dqm
    fn = top_fn(et, "_all_cases_dqm", epath)
    body = strip_doc(fn.body)
    try:
        elt = body[0].value.elt
    except (AttributeError, IndexError):
        raise Bad(f"line {fn.lineno}: _all_cases_dqm does not start with the list of case ranges")
    expect_shape(fn, [elt], "DQM", "_all_cases_dqm")
    a = range_args(elt, "the DQM case range")
    if not (len(a) == 1 and ast.unparse(a[0]) == "dqm.num_cases(v)"):
        raise Bad(f"line {elt.lineno}: expected range(dqm.num_cases(v))")
    g["dqm"] = "grange 0%Z (Z.of_nat n)"

    # ---- _graycode / _all_cases_cqm pinned
    expect_shape(top_fn(et, "_graycode", epath), [], "GRAY", "_graycode")
    expect_shape(top_fn(et, "_all_cases_cqm", epath), [], "CQM", "_all_cases_cqm")

    # ---- ExactSolver.sample: bits -> spins
    fn = method(et, "ExactSolver", "sample", epath)
    body = strip_doc(fn.body)
    try:
        conv = body[3].body[0].value
    except (AttributeError, IndexError):
        raise Bad(f"line {fn.lineno}: ExactSolver.sample does not have the expected statement structure")
    expect_shape(fn, [conv], "EXACT_SAMPLE", "ExactSolver.sample")

    def ev(n, x):
        if isinstance(n, ast.Name) and n.id == "samples":
            return Fraction(x)
        if isinstance(n, ast.Constant) and isinstance(n.value, int):
            return Fraction(n.value)
        if isinstance(n, ast.UnaryOp) and isinstance(n.op, ast.USub):
            return -ev(n.operand, x)
        if isinstance(n, ast.BinOp) and isinstance(n.op, (ast.Mult, ast.Add, ast.Sub)):
            l, r = ev(n.left, x), ev(n.right, x)
            return l * r if isinstance(n.op, ast.Mult) else l + r if isinstance(n.op, ast.Add) else l - r
        raise Bad(f"line {n.lineno}: the bits->spins map is outside the grammar: {ast.unparse(n)}")
    c0, c1, c2 = ev(conv, 0), ev(conv, 1), ev(conv, 2)
    if c2 - c1 != c1 - c0:
        raise Bad(f"line {conv.lineno}: the bits->spins map is not affine")
    g["spin_of_bit"] = (c1 - c0, c0)

    # ---- HigherOrderComposite
    fn = method(ht, "HigherOrderComposite", "sample_poly", hpath)
    expect_shape(fn, [], "HOC_SAMPLE", "HigherOrderComposite.sample_poly")
    d = default_of(fn, "penalty_strength")
    if not (isinstance(d, ast.Constant) and isinstance(d.value, (int, float)) and not isinstance(d.value, bool)):
        raise Bad(f"line {fn.lineno}: default of penalty_strength is not a number")
    ps = Fraction(d.value)
    g["hoc_strength"] = f"(qc ({ps.numerator}) {ps.denominator})"
    g["hoc_keep"] = bool_default(fn, "keep_penalty_variables")
    g["hoc_discard"] = bool_default(fn, "discard_unsatisfied")
    expect_shape(top_fn(ht, "penalty_satisfaction", hpath), [], "PENSAT", "penalty_satisfaction")
    fn = top_fn(ht, "polymorph_response", hpath)
    expect_shape(fn, [], "POLYMORPH", "polymorph_response")
    g["pm_keep"] = bool_default(fn, "keep_penalty_variables")
    g["pm_discard"] = bool_default(fn, "discard_unsatisfied")

    def q(fr):
        return f"(qc ({fr.numerator}) {fr.denominator})"
    lines = [
        "(* GENERATED by translators/exact_hoc_rules.py from dimod/reference/samplers/exact_solver.py and",
        "   dimod/reference/composites/higherordercomposites.py - do not edit *)",
        "From Coq Require Import List ZArith QArith Qcanon Bool Arith.",
        "From Dimod Require Import Base.Util Model.Poly.",
        "Import ListNotations.",
        "",
        "(* range(a, b) ; math.floor / math.ceil / int of a rational *)",
        "Definition grange (a b : Z) : list Z := map (fun k => (a + Z.of_nat k)%Z) (seq 0 (Z.to_nat (b - a))).",
        "Definition gfloor (q : Qc) : Z := (Qnum q / Zpos (Qden q))%Z.",
        "Definition gceil (q : Qc) : Z := (- ((- Qnum q) / Zpos (Qden q)))%Z.",
        "Definition gtrunc (q : Qc) : Z := Z.quot (Qnum q) (Zpos (Qden q)).",
        "",
        "(* _iterator_by_vartype *)",
        f"Definition gen_binary_values : list Z := {g['binary']}.",
        f"Definition gen_spin_values : list Z := {g['spin']}.",
        f"Definition gen_integer_values (lb ub : Qc) : list Z := {g['integer']}.",
        "(* _all_cases_dqm: range(dqm.num_cases(v)) *)",
        f"Definition gen_dqm_values (n : nat) : list Z := {g['dqm']}.",
        "(* ExactSolver.sample: spins = a * bits + b *)",
        f"Definition gen_spin_of_bit : Qc * Qc := ({q(g['spin_of_bit'][0])}, {q(g['spin_of_bit'][1])}).",
        "",
        "(* HigherOrderComposite.sample_poly defaults, forwarded to polymorph_response *)",
        f"Definition gen_hoc_penalty_strength : Qc := {g['hoc_strength']}.",
        f"Definition gen_hoc_keep_penalty_variables : bool := {g['hoc_keep']}.",
        f"Definition gen_hoc_discard_unsatisfied : bool := {g['hoc_discard']}.",
        "(* polymorph_response's own defaults *)",
        f"Definition gen_polymorph_keep_penalty_variables : bool := {g['pm_keep']}.",
        f"Definition gen_polymorph_discard_unsatisfied : bool := {g['pm_discard']}.",
        "",
    ]
    os.makedirs(out, exist_ok=True)
    p = os.path.join(out, "Gen_ExactHoc.v")
    new = "\n".join(lines)
    if not os.path.exists(p) or open(p).read() != new:
        open(p, "w").write(new)


if __name__ == "__main__":
    try:
        main()
    except Bad as e:
        print("exact_hoc_rules.py: " + str(e))
        sys.exit(1)
