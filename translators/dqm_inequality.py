#!/venv/bin/python
"""Fail-closed translator -> coq/theories/Gen/Gen_DqmIneq.v

Source: dimod/discrete/discrete_quadratic_model.py, DiscreteQuadraticModel.add_linear_inequality_constraint
(the PYTHON side of the DQM slack construction; the native equality expansion it ends in is translated by
penalty_formulas.py).  Extracted: the bound tightening (ub_c, lb_c), the always-feasible test, the refusal,
slack_upper_bound, the equality shortcut and its constant, the cross_zero condition, and per slack method
  log2    num_slack, the power coefficient, the guard and value of the remainder coefficient, the value of the
          cross_zero case
  log10   the number of digit variables, start / stop / step of the range of each digit, the value of the extra case
  linear  start / stop of the range, the value of the extra case
and the constant of the final equality constraint.

The whole statement list from `terms_upper_bound = ...` to the end of the function is matched against a TEMPLATE
(the function as ast.unparse prints it today, indentation included, with holes at the expressions listed above); each hole must parse into a small
grammar (names, integers, + - *, unary -, 2 ** x, 10 ** x, min, max, int(.), comparisons, and/or, the literals
int(np.floor(np.log2(x))) and int(np.ceil(np.log10(x)))).  Any other change of the function - a statement added,
removed or reordered, a different case index, a different loop - makes the template fail to match and the
translator exits with the first differing position.

usage: dqm_inequality.py <build_dir> <out_dir>
"""
import ast
import hashlib
import os
import re
import sys

PROPERTIES = ["C16"]


class Bad(Exception):
    pass


def nospace(s):
    return "".join(s.split())


W = "discrete_quadratic_model.py:add_linear_inequality_constraint"

TEMPLATE = '''
terms_upper_bound = sum((v for _, _, v in terms if v > 0))
terms_lower_bound = sum((v for _, _, v in terms if v < 0))
ub_c = <<ubc>>
lb_c = <<lbc>>
if <<always_feasible>>:
    warnings.warn(f'Did not add constraint {label}. This constraint is feasible with any value for state variables.')
    return []
if <<infeasible>>:
    raise ValueError(f'The given constraint ({label}) is infeasible with any value for state variables.')
slack_upper_bound = <<slack_ub>>
if <<is_equality>>:
    self.add_linear_equality_constraint(terms, lagrange_multiplier, <<eq_constant>>)
    return []
else:
    slack_terms = []
    zero_constraint = False
    if cross_zero:
        if <<cz_test>>:
            zero_constraint = True
    if slack_method == 'log2':
        num_slack = <<num_slack>>
        slack_coefficients = [<<pow_coeff>> for j in range(num_slack)]
        if <<rest_guard>>:
            slack_coefficients.append(<<rest_coeff>>)
        for j, s in enumerate(slack_coefficients):
            sv = self.add_variable(2, f'slack_{label}_{j}')
            slack_terms.append((sv, 1, s))
        if zero_constraint:
            sv = self.add_variable(2, f'slack_{label}_{num_slack + 1}')
            slack_terms.append((sv, 1, <<log2_cz_value>>))
    elif slack_method == 'log10':
        num_dqm_vars = <<log10_nvars>>
        for j in range(num_dqm_vars):
            slack_term = list(<<log10_range>>)[1:]
            if j < num_dqm_vars - 1 or not zero_constraint:
                sv = self.add_variable(len(slack_term) + 1, f'slack_{label}_{j}')
            else:
                sv = self.add_variable(len(slack_term) + 2, f'slack_{label}_{j}')
            for i, val in enumerate(slack_term):
                slack_terms.append((sv, i + 1, val))
        if zero_constraint:
            slack_terms.append((sv, len(slack_term) + 1, <<log10_cz_value>>))
    elif slack_method == 'linear':
        slack_term = list(<<linear_range>>)
        if not zero_constraint:
            sv = self.add_variable(len(slack_term) + 1, f'slack_{label}')
        else:
            sv = self.add_variable(len(slack_term) + 2, f'slack_{label}')
        for i, val in enumerate(slack_term):
            slack_terms.append((sv, i + 1, val))
        if zero_constraint:
            slack_terms.append((sv, len(slack_term) + 1, <<linear_cz_value>>))
    self.add_linear_equality_constraint(terms + slack_terms, lagrange_multiplier, <<slack_constant>>)
    return slack_terms
'''

N = {"terms_upper_bound": "tu", "terms_lower_bound": "tl", "ub": "ub", "lb": "lb", "constant": "const",
     "ub_c": "ubc", "lb_c": "lbc", "slack_upper_bound": "U", "num_slack": "k", "j": "j"}


def trz(n, where):
    """integer (Z) expression"""
    if isinstance(n, ast.Name) and n.id in N:
        return N[n.id]
    if isinstance(n, ast.Constant) and isinstance(n.value, int) and not isinstance(n.value, bool):
        return str(n.value) if n.value >= 0 else f"({n.value})"
    if isinstance(n, ast.UnaryOp) and isinstance(n.op, ast.USub):
        return f"(- {trz(n.operand, where)})"
    if isinstance(n, ast.BinOp) and isinstance(n.op, (ast.Add, ast.Sub, ast.Mult)):
        op = {ast.Add: "+", ast.Sub: "-", ast.Mult: "*"}[type(n.op)]
        return f"({trz(n.left, where)} {op} {trz(n.right, where)})"
    if isinstance(n, ast.BinOp) and isinstance(n.op, ast.Pow) and isinstance(n.left, ast.Constant) and n.left.value in (2, 10):
        return f"({n.left.value} ^ {trz(n.right, where)})"
    if isinstance(n, ast.Call) and isinstance(n.func, ast.Name) and not n.keywords:
        if n.func.id in ("min", "max") and len(n.args) == 2:
            return f"(Z.{n.func.id} {trz(n.args[0], where)} {trz(n.args[1], where)})"
        if n.func.id == "int" and len(n.args) == 1:
            t = nospace(ast.unparse(n.args[0]))
            if t.startswith("np.floor(np.log2(") and t.endswith("))"):
                return f"(Z.log2 {trz(n.args[0].args[0].args[0], where)})"
            if t.startswith("np.ceil(np.log10(") and t.endswith("))"):
                return f"(Z.of_nat (ceil_log10 {trz(n.args[0].args[0].args[0], where)}))"
            return trz(n.args[0], where)
    raise Bad(f"{where}: integer expression outside the grammar: {ast.unparse(n)}")


def trb(n, where):
    """boolean test over integers"""
    if isinstance(n, ast.BoolOp):
        op = "&&" if isinstance(n.op, ast.And) else "||"
        return "(" + f" {op} ".join(trb(v, where) for v in n.values) + ")"
    if isinstance(n, ast.Compare) and len(n.ops) == 1:
        a, b = trz(n.left, where), trz(n.comparators[0], where)
        o = n.ops[0]
        if isinstance(o, ast.LtE):
            return f"({a} <=? {b})"
        if isinstance(o, ast.Lt):
            return f"({a} <? {b})"
        if isinstance(o, ast.GtE):
            return f"({b} <=? {a})"
        if isinstance(o, ast.Gt):
            return f"({b} <? {a})"
        if isinstance(o, ast.Eq):
            return f"({a} =? {b})"
    raise Bad(f"{where}: test outside the grammar: {ast.unparse(n)}")


RANGE_HOLES = {"log10_range": ["log10_start", "log10_stop", "log10_step"], "linear_range": ["linear_start", "linear_stop"]}
BOOL_HOLES = {"always_feasible", "infeasible", "is_equality", "cz_test", "rest_guard"}


def extract(src):
    tree = ast.parse(src)
    fn = None
    for c in tree.body:
        if isinstance(c, ast.ClassDef) and c.name == "DiscreteQuadraticModel":
            for f in c.body:
                if isinstance(f, ast.FunctionDef) and f.name == "add_linear_inequality_constraint":
                    fn = f
    if fn is None:
        raise Bad(f"{W}: method not found")
    body = [s for s in fn.body if not (isinstance(s, ast.Expr) and isinstance(s.value, ast.Constant))]
    start = [i for i, s in enumerate(body) if isinstance(s, ast.Assign) and ast.unparse(s.targets[0]) == "terms_upper_bound"]
    if len(start) != 1:
        raise Bad(f"{W}: expected exactly one top-level assignment to terms_upper_bound")
    # nothing before it may touch the bounds or the model
    for s in body[:start[0]]:
        t = ast.unparse(s)
        if re.search(r"\b(ub|lb|constant|ub_c|lb_c|lagrange_multiplier)\s*=[^=]|self\.(add_|set_)", t) or "return" in t:
            raise Bad(f"{W}: a statement before the bound computation assigns a bound, writes to the model or returns: `{t[:80]}`")
    text = "\n".join(ast.unparse(s) for s in body[start[0]:]).strip()
    parts = re.split(r"<<(\w+)>>", TEMPLATE.strip())
    rx = ""
    names = []
    for i, p in enumerate(parts):
        if i % 2 == 0:
            rx += re.escape(p)
        else:
            rx += r"([^\n]+?)"
            names.append(p)
    m = re.fullmatch(rx, text)
    if not m:
        # name the first literal piece that cannot be found in order
        pos = 0
        for i in range(0, len(parts), 2):
            k = text.find(parts[i], pos)
            if k < 0:
                raise Bad(f"{W}: the function no longer has the expected shape near `{parts[i][:70]}` "
                          f"(after hole {parts[i - 1] if i else 'start'})")
            pos = k + len(parts[i])
        raise Bad(f"{W}: the function no longer has the expected shape")
    out = {}
    for name, txt in zip(names, m.groups()):
        where = f"{W}:{name}"
        try:
            node = ast.parse(txt, mode="eval").body
        except SyntaxError:
            raise Bad(f"{where}: cannot parse `{txt}`")
        if name in RANGE_HOLES:
            keys = RANGE_HOLES[name]
            if not (isinstance(node, ast.Call) and isinstance(node.func, ast.Name) and node.func.id == "range"
                    and not node.keywords and len(node.args) == len(keys)):
                raise Bad(f"{where}: expected range(...) with {len(keys)} arguments, found `{txt}`")
            for k, a in zip(keys, node.args):
                out[k] = trz(a, f"{W}:{k}")
            continue
        out[name] = trb(node, where) if name in BOOL_HOLES else trz(node, where)
    return out


def main():
    build, outdir = sys.argv[1], sys.argv[2]
    p = os.path.join(build, "dimod", "discrete", "discrete_quadratic_model.py")
    src = open(p).read()
    print("INPUT %s %s" % (p, hashlib.sha256(src.encode()).hexdigest()))
    o = extract(src)
    L = ["(* GENERATED by translators/dqm_inequality.py from discrete_quadratic_model.py",
         "   (DiscreteQuadraticModel.add_linear_inequality_constraint) - do not edit *)",
         "From Coq Require Import ZArith Bool.", "From Dimod Require Import Model.Log10.", "",
         "Open Scope Z_scope.",
         "(* tu / tl = sum of the positive / negative biases of the terms *)",
         f"Definition gend_ubc (tu ub const : Z) : Z := {o['ubc']}.",
         f"Definition gend_lbc (tl lb const : Z) : Z := {o['lbc']}.",
         f"Definition gend_always_feasible (tu tl ubc lbc : Z) : bool := {o['always_feasible']}.",
         f"Definition gend_infeasible (ubc lbc : Z) : bool := {o['infeasible']}.",
         f"Definition gend_slack_ub (ubc lbc : Z) : Z := {o['slack_ub']}.",
         f"Definition gend_is_equality (U : Z) : bool := {o['is_equality']}.",
         f"Definition gend_eq_constant (ubc : Z) : Z := {o['eq_constant']}.",
         f"Definition gend_cz_test (lbc ubc : Z) : bool := {o['cz_test']}.",
         "(* slack_method='log2': two-case variables, case 1 worth the coefficient *)",
         f"Definition gend_num_slack (U : Z) : Z := {o['num_slack']}.",
         f"Definition gend_pow_coeff (j : Z) : Z := {o['pow_coeff']}.",
         f"Definition gend_rest_guard (U k : Z) : bool := {o['rest_guard']}.",
         f"Definition gend_rest_coeff (U k : Z) : Z := {o['rest_coeff']}.",
         f"Definition gend_log2_cz_value (ubc : Z) : Z := {o['log2_cz_value']}.",
         "(* slack_method='log10': digit variable j has the cases range(start, stop, step), the first one carrying no term *)",
         f"Definition gend_log10_nvars (U : Z) : Z := {o['log10_nvars']}.",
         f"Definition gend_log10_start : Z := {o['log10_start']}.",
         f"Definition gend_log10_stop (U j : Z) : Z := {o['log10_stop']}.",
         f"Definition gend_log10_step (j : Z) : Z := {o['log10_step']}.",
         f"Definition gend_log10_cz_value (ubc : Z) : Z := {o['log10_cz_value']}.",
         "(* slack_method='linear': one variable, case 0 without a term and one case per element of range(start, stop) *)",
         f"Definition gend_linear_start : Z := {o['linear_start']}.",
         f"Definition gend_linear_stop (U : Z) : Z := {o['linear_stop']}.",
         f"Definition gend_linear_cz_value (ubc : Z) : Z := {o['linear_cz_value']}.",
         "(* constant of the final add_linear_equality_constraint(terms + slack_terms, ...) *)",
         f"Definition gend_slack_constant (ubc : Z) : Z := {o['slack_constant']}.", ""]
    os.makedirs(outdir, exist_ok=True)
    q = os.path.join(outdir, "Gen_DqmIneq.v")
    new = "\n".join(L)
    if not os.path.exists(q) or open(q).read() != new:
        open(q, "w").write(new)


if __name__ == "__main__":
    try:
        main()
    except Bad as e:
        print("dqm_inequality.py: " + str(e))
        sys.exit(1)
