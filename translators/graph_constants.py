#!/venv/bin/python
"""Fail-closed translator: dimod/generators/graph.py -> coq/theories/Gen/Gen_Graph.v

usage: graph_constants.py <build_dir> <out_dir>

The three independent-set generators are compared, statement by statement, with the shapes below
(docstrings and annotations ignored, every numeric literal a hole); the literals and the keyword
defaults are emitted as exact rationals.  Proofs/GraphConstants.v proves that they are the constants
the model (Model/Gates.v: mwis_poly, effective_weights, max_weight) uses, and Model/ChkC17.v takes the
defaults of `strength` / `strength_multiplier` from here.  Any other shape is an error.
"""
import ast
import copy
import hashlib
import os
import sys
from fractions import Fraction

SHAPES = {
    "independent_set": ("""
bqm = BinaryQuadraticModel(vartype=Vartype.BINARY)
bqm.add_quadratic_from((u, v, 1) for u, v in edges)
if nodes is not None:
    bqm.add_linear_from((v, 0) for v in nodes)
return bqm
""", ["is_edge_bias", "is_node_bias"]),
    "maximum_independent_set": ("""
return maximum_weight_independent_set(
    edges, None if nodes is None else ((v, 1) for v in nodes), strength=strength)
""", ["mis_node_weight"]),
    "maximum_weight_independent_set": ("""
bqm = independent_set(edges)
objective = BinaryQuadraticModel(vartype=Vartype.BINARY)
objective.add_linear_from((v, 1) for v in bqm.variables)
if nodes is None:
    max_weight = 1.
else:
    for v, weight in nodes:
        objective.set_linear(v, weight)
    max_weight = objective.linear.max(default=1)
if strength is None:
    bqm *= max_weight*strength_multiplier
    bqm -= objective
else:
    bqm *= strength
    bqm -= objective
bqm.offset = 0
return bqm
""", ["mwis_default_weight", "mwis_unweighted_max", "mwis_empty_max", "mwis_offset"]),
}
DEFAULTS = {"maximum_independent_set": {"strength": "mis_default_strength"},
            "maximum_weight_independent_set": {"strength": None, "strength_multiplier": "mwis_default_multiplier"}}
PARAMS = {"independent_set": (["edges", "nodes"], []),
          "maximum_independent_set": (["edges", "nodes"], ["strength"]),
          "maximum_weight_independent_set": (["edges", "nodes"], ["strength", "strength_multiplier"])}


class Bad(Exception):
    def __init__(self, node, why):
        self.node, self.why = node, why


class Holes(ast.NodeTransformer):
    def __init__(self):
        self.values = []

    def visit_Constant(self, n):
        if type(n.value) in (int, float):
            self.values.append((Fraction(n.value), getattr(n, "lineno", 0)))
            return ast.copy_location(ast.Name(id="NUM", ctx=ast.Load()), n)
        return n


def normal(stmts):
    h = Holes()
    out = [ast.dump(h.visit(copy.deepcopy(s))) for s in stmts]
    return out, h.values


def qc(f):
    return f"(qc ({f.numerator}) {f.denominator})"


def main():
    build, out = sys.argv[1], sys.argv[2]
    src = os.path.join(build, "dimod", "generators", "graph.py")
    data = open(src, "rb").read()
    print("INPUT", src, hashlib.sha256(data).hexdigest())
    text = data.decode("utf-8")
    lines = text.splitlines()
    tree = ast.parse(text)
    consts = {}
    try:
        for name, (shape, holes) in SHAPES.items():
            fns = [n for n in tree.body if isinstance(n, ast.FunctionDef) and n.name == name]
            if len(fns) != 1:
                raise Bad(tree, f"exactly one function {name} expected")
            fn = fns[0]
            pos, kwo = PARAMS[name]
            a = fn.args
            if [x.arg for x in a.args] != pos or [x.arg for x in a.kwonlyargs] != kwo or a.vararg or a.kwarg \
                    or fn.decorator_list:
                raise Bad(fn, f"signature of {name} changed")
            if len(a.defaults) != 1 or not (isinstance(a.defaults[0], ast.Constant) and a.defaults[0].value is None):
                raise Bad(fn, "`nodes=None` expected")
            for kw, d in zip(a.kwonlyargs, a.kw_defaults):
                target = DEFAULTS[name][kw.arg]
                if target is None:
                    if not (isinstance(d, ast.Constant) and d.value is None):
                        raise Bad(fn, f"default of {kw.arg} must be None")
                else:
                    if not (isinstance(d, ast.Constant) and type(d.value) in (int, float)):
                        raise Bad(fn, f"numeric default of {kw.arg} expected")
                    consts[target] = Fraction(d.value)
            body = fn.body
            if body and isinstance(body[0], ast.Expr) and isinstance(body[0].value, ast.Constant) \
                    and isinstance(body[0].value.value, str):
                body = body[1:]
            got, vals = normal(body)
            want, wvals = normal(ast.parse(shape).body)
            if len(got) != len(want):
                raise Bad(fn, f"{name}: {len(got)} statements, expected {len(want)}")
            for st, g, w in zip(body, got, want):
                if g != w:
                    raise Bad(st, f"{name}: statement shape not recognised")
            if len(vals) != len(holes):
                raise Bad(fn, f"{name}: unexpected number of numeric literals")
            for h, (v, _ln) in zip(holes, vals):
                consts[h] = v
    except Bad as e:
        ln = getattr(e.node, "lineno", 0)
        print(f"graph_constants: {src}:{ln}: {e.why}")
        if ln:
            print("    " + lines[ln - 1].strip())
        return 2
    os.makedirs(out, exist_ok=True)
    order = ["is_edge_bias", "is_node_bias", "mis_node_weight", "mis_default_strength", "mwis_default_weight",
             "mwis_unweighted_max", "mwis_empty_max", "mwis_offset", "mwis_default_multiplier"]
    new = "\n".join([
        "(* GENERATED by translators/graph_constants.py from dimod/generators/graph.py - do not edit.",
        f"   source sha256 {hashlib.sha256(data).hexdigest()} *)",
        "From Coq Require Import ZArith QArith Qcanon.",
        "From Dimod Require Import Base.Util.",
        ""] + [f"Definition {k} : Qc := {qc(consts[k])}." for k in order] + [""])
    dst = os.path.join(out, "Gen_Graph.v")
    if not os.path.exists(dst) or open(dst).read() != new:
        with open(dst, "w") as fh:
            fh.write(new)
    return 0


if __name__ == "__main__":
    sys.exit(main())
