#!/venv/bin/python
"""Fail-closed translator: the evaluation / fixing loops that Model/{EnergyCy,DqmLoop,PyBqm,FixPy,FixCopy}.v and Model/Adj.v
mirror by hand -> coq/theories/Gen/Gen_LoopShapes.v

For every mirrored function the source text is cut out (C++: by brace matching; Cython: from the `def` line to the next
method; Python: ast.unparse of the body without docstring), comments are dropped, white space is normalised, and the
result must be IDENTICAL to the text recorded below (the text the models were written and proved against).  Any edit of
one of these loops therefore breaks the tie until the model has been re-validated against the new text and the recorded
text updated; nothing is extracted - the generated file only lists what was pinned (and is imported by Props/C01.v and
Props/C03.v so that a failing translator cannot go unnoticed).

usage: loop_shapes.py <build_dir> <out_dir>
       loop_shapes.py --repin <build_dir>     (after re-validating the models: record the current texts)
"""
import ast
import hashlib
import os
import re
import sys


class Bad(Exception):
    pass


def norm(s):
    return re.sub(r"\s+", " ", s).strip()


def cpp_body(src, sig_re, where):
    m = re.search(sig_re, src)
    if not m:
        raise Bad(f"{where}: signature not found")
    i = m.end() - 1
    depth, j = 0, i
    while True:
        if src[j] == "{":
            depth += 1
        elif src[j] == "}":
            depth -= 1
            if depth == 0:
                break
        j += 1
    body = re.sub(r"//[^\n]*", "", src[i + 1:j])
    body = re.sub(r"/\*.*?\*/", "", body, flags=re.S)
    return norm(body)


def pyx_def(src, def_re, where):
    """text of a Cython method: from its def line to the next line that is indented no deeper and starts a def/cpdef/decorator/class"""
    m = re.search(def_re, src, flags=re.M)
    if not m:
        raise Bad(f"{where}: def not found")
    start = m.start()
    indent = len(m.group(1))
    rest = src[m.end():]
    n = re.search(r"^ {0,%d}(?:def |cpdef |cdef |@|class )" % indent, rest, flags=re.M)
    text = src[start:m.end() + (n.start() if n else len(rest))]
    text = re.sub(r"#[^\n]*", "", text)
    return norm(text)


def py_body(src, cls, fn, where):
    tree = ast.parse(src)
    scope = tree.body
    if cls:
        c = [n for n in tree.body if isinstance(n, ast.ClassDef) and n.name == cls]
        if len(c) != 1:
            raise Bad(f"{where}: class {cls} not found")
        scope = c[0].body
    f = [n for n in scope if isinstance(n, ast.FunctionDef) and n.name == fn]
    if len(f) != 1:
        raise Bad(f"{where}: {fn} not found exactly once")
    body = [s for s in f[0].body if not (isinstance(s, ast.Expr) and isinstance(s.value, ast.Constant) and isinstance(s.value.value, str))]
    return norm("(" + ast.unparse(f[0].args) + ") " + " ; ".join(ast.unparse(s) for s in body))


SPECS = [('abc.h energy', 'include/dimod/abc.h', 'cpp', 'QuadraticModelBase<bias_type, index_type>::energy\\(Iter sample_start\\) const\\s*\\{'),
 ('abc.h fix_variable', 'include/dimod/abc.h', 'cpp', 'QuadraticModelBase<bias_type, index_type>::fix_variable\\(index_type v, T assignment\\)\\s*\\{'),
 ('expression.h energy', 'include/dimod/expression.h', 'cpp', 'Expression<bias_type, index_type>::energy\\(Iter sample_start\\) const\\s*\\{'),
 ('constrained_quadratic_model.h fix_variables',
  'include/dimod/constrained_quadratic_model.h',
  'cpp',
  'ConstrainedQuadraticModel<bias_type, index_type>::fix_variables\\(VarIter first, VarIter last,\\s*AssignmentIter assignment\\) const\\s*\\{'),
 ('cyqmbase _energies', 'cyqmbase/cyqmbase_template.pyx.pxi', 'pyx', '^( *)def _energies\\(self, const Numeric\\[:, ::1\\] samples, cyVariables labels\\):'),
 ('cyexpression _energies', 'constrained/cyexpression.pyx', 'pyx', '^( *)def _energies\\(self, const Numeric\\[:, ::1\\] samples, cyVariables labels\\):'),
 ('cydqm energies', 'discrete/cydiscrete_quadratic_model.pyx', 'pyx', '^( *)cpdef bias_type\\[:\\] energies\\(self, index_type\\[:, :\\] samples\\):'),
 ('cyconstrained fix_variable', 'constrained/cyconstrained.pyx', 'pyx', '^( *)def fix_variable\\(self, v, bias_type assignment\\):'),
 ('cyconstrained fix_variables', 'constrained/cyconstrained.pyx', 'pyx', '^( *)def fix_variables\\(self, fixed, \\*, bint inplace = True\\):'),
 ('dqm.energies (python)', 'discrete/discrete_quadratic_model.py', 'py', ('DiscreteQuadraticModel', 'energies')),
 ('pyBQM.energies', 'binary/pybqm.py', 'py', ('pyBQM', 'energies')),
 ('pyBQM.iter_quadratic', 'binary/pybqm.py', 'py', ('pyBQM', 'iter_quadratic')),
 ('views fix_variable', 'views/quadratic.py', 'py', ('QuadraticViewsMixin', 'fix_variable')),
 ('views fix_variables', 'views/quadratic.py', 'py', ('QuadraticViewsMixin', 'fix_variables')),
 ('QuadraticModel.flip_variable', 'quadratic/quadratic_model.py', 'py', ('QuadraticModel', 'flip_variable'))]

PINNED = {'QuadraticModel.flip_variable': '(self, v: Variable) vartype = self.vartype(v) ; if vartype is Vartype.SPIN: for u, bias in '
                                 'self.iter_neighborhood(v): self.set_quadratic(u, v, -1 * bias) self.set_linear(v, -1 * self.get_linear(v)) elif '
                                 'vartype is Vartype.BINARY: for u, bias in self.iter_neighborhood(v): self.set_quadratic(u, v, -1 * bias) '
                                 'self.add_linear(u, bias) self.offset += self.get_linear(v) self.set_linear(v, -1 * self.get_linear(v)) else: raise '
                                 "ValueError(f'can only flip SPIN and BINARY variables, {v} is {vartype.name}')",
 'abc.h energy': 'static_assert(std::is_same<std::random_access_iterator_tag, typename std::iterator_traits<Iter>::iterator_category>::value, '
                 '"iterators must be random access"); bias_type en = offset(); if (has_adj()) { for (index_type u = 0; static_cast<size_type>(u) < '
                 'num_variables(); ++u) { auto u_val = *(sample_start + u); en += u_val * linear(u); for (auto& term : (*adj_ptr_)[u]) { if (term.v '
                 '> u) break; en += term.bias * u_val * *(sample_start + term.v); } } } else { for (auto it = linear_biases_.begin(); it != '
                 'linear_biases_.end(); ++it, ++sample_start) { en += *sample_start * *it; } } return en;',
 'abc.h fix_variable': 'static_assert(std::is_arithmetic<T>::value, "T must be numeric"); assert(v >= 0 && static_cast<size_type>(v) < '
                       'num_variables()); if (has_adj()) { for (auto it = cbegin_neighborhood(v); it != cend_neighborhood(v); ++it) { '
                       'add_linear(it->v, it->bias * assignment); } } add_offset(assignment * linear(v)); QuadraticModelBase<bias_type, '
                       'index_type>::remove_variable(v);',
 'constrained_quadratic_model.h fix_variables': 'auto cqm = ConstrainedQuadraticModel<bias_type, index_type>(); std::vector<index_type> '
                                                'old_to_new(this->num_variables()); std::vector<bias_type> assignments(this->num_variables()); for '
                                                '(auto it = first; it != last; ++it, ++assignment) { old_to_new[*it] = -1; assignments[*it] = '
                                                '*assignment; } for (size_type i = 0; i < old_to_new.size(); ++i) { if (old_to_new[i] < 0) continue; '
                                                'old_to_new[i] = cqm.add_variable(this->vartype(i), this->lower_bound(i), this->upper_bound(i)); } '
                                                'fix_variables_expr(this->objective, cqm.objective, old_to_new, assignments); for (auto& '
                                                'old_constraint_ptr : constraints_) { auto new_constraint = cqm.new_constraint(); '
                                                'fix_variables_expr(*old_constraint_ptr, new_constraint, old_to_new, assignments); '
                                                'new_constraint.set_rhs(old_constraint_ptr->rhs()); '
                                                'new_constraint.set_sense(old_constraint_ptr->sense()); '
                                                'new_constraint.set_weight(old_constraint_ptr->weight()); '
                                                'new_constraint.set_penalty(old_constraint_ptr->penalty()); '
                                                'new_constraint.mark_discrete(old_constraint_ptr->marked_discrete() && new_constraint.is_onehot()); '
                                                'cqm.add_constraint(std::move(new_constraint)); } return cqm;',
 'cyconstrained fix_variable': 'def fix_variable(self, v, bias_type assignment): cdef Py_ssize_t vi = self.variables.index(v) if '
                               'self.cppcqm.vartype(vi) == cppVartype.BINARY and assignment: for i in range(self.cppcqm.num_constraints()): if '
                               '(self.cppcqm.constraint_ref(i).marked_discrete() and self.cppcqm.constraint_ref(i).has_variable(vi)): '
                               'self.cppcqm.constraint_ref(i).mark_discrete(False) self.cppcqm.fix_variable(vi, assignment) '
                               'self.variables._remove(v)',
 'cyconstrained fix_variables': 'def fix_variables(self, fixed, *, bint inplace = True): if isinstance(fixed, collections.abc.Mapping): fixed = '
                                'fixed.items() if inplace: for v, assignment in fixed: self.fix_variable(v, assignment) return self cdef '
                                'vector[index_type] variables cdef vector[bias_type] assignments labels = set() for v, bias in fixed: '
                                'variables.push_back(self.variables.index(v)) assignments.push_back(bias) labels.add(v) cqm = '
                                'make_cqm(self.cppcqm.fix_variables(variables.begin(), variables.end(), assignments.begin())) mapping = dict() i = 0 '
                                'for v in self.variables: if v not in labels: mapping[i] = v i += 1 cqm.relabel_variables(mapping) '
                                'cqm.relabel_constraints(dict(enumerate(self.constraint_labels))) return cqm',
 'cydqm energies': 'cpdef bias_type[:] energies(self, index_type[:, :] samples): if samples.shape[1] != self.num_variables(): raise '
                   'ValueError("Given sample(s) have incorrect number of variables") cdef Py_ssize_t num_samples = samples.shape[0] cdef index_type '
                   'num_variables = samples.shape[1] cdef bias_type[:] energies = np.full(num_samples, self.offset, dtype=self.dtype) cdef '
                   'Py_ssize_t si, vi cdef index_type cu, case_u, cv, case_v cdef index_type u, v for si in range(num_samples): for u in '
                   'range(num_variables): case_u = samples[si, u] if case_u < 0 or case_u >= self.num_cases(u): raise ValueError("invalid case") cu '
                   '= self.case_starts_[u] + case_u energies[si] += self.cppbqm.linear(cu) for vi in range(self.adj_[u].size()): v = '
                   'self.adj_[u][vi] if v > u: break case_v = samples[si, v] cv = self.case_starts_[v] + case_v energies[si] += '
                   'self.cppbqm.quadratic(cu, cv) return energies',
 'cyexpression _energies': 'def _energies(self, const Numeric[:, ::1] samples, cyVariables labels): cdef cppExpression[bias_type, index_type]* '
                           'expression = self.expression() cdef Py_ssize_t num_samples = samples.shape[0] cdef Py_ssize_t num_variables = '
                           'samples.shape[1] cdef index_type[:] reindex = np.empty(expression.num_variables(), dtype=self.index_dtype) for i in '
                           'range(expression.num_variables()): reindex[i] = labels.index(self.parent.variables.at(expression.variables()[i])) cdef '
                           'const Numeric[:, ::1] subsamples = np.ascontiguousarray(np.asarray(samples)[:, reindex]) cdef float64_t[::1] energies = '
                           'np.empty(num_samples, dtype=np.float64) cdef Py_ssize_t si if subsamples.shape[1]: for si in range(num_samples): '
                           'energies[si] = (<cppQuadraticModelBase[bias_type, index_type]*>expression).energy(&subsamples[si, 0]) else: for si in '
                           'range(num_samples): energies[si] = expression.offset() return energies',
 'cyqmbase _energies': 'def _energies(self, const Numeric[:, ::1] samples, cyVariables labels): cdef Py_ssize_t num_samples = samples.shape[0] cdef '
                       'Py_ssize_t num_variables = samples.shape[1] if num_variables != labels.size(): raise RuntimeError("as_samples returned an '
                       'inconsistent samples/variables") cdef Py_ssize_t[::1] qm_to_sample = np.empty(self.num_variables(), dtype=np.intp) cdef '
                       'Py_ssize_t si for si in range(self.num_variables()): qm_to_sample[si] = labels.index(self.variables.at(si)) cdef '
                       'float64_t[::1] energies = np.empty(num_samples, dtype=np.float64) cdef Py_ssize_t ui, vi for si in range(num_samples): '
                       'energies[si] = self.base.offset() for ui in range(self.num_variables()): energies[si] += self.base.linear(ui) * samples[si, '
                       'qm_to_sample[ui]]; it = self.base.cbegin_neighborhood(ui) end = self.base.cend_neighborhood(ui) while it != end and '
                       'deref(it).v <= ui: vi = deref(it).v energies[si] += deref(it).bias * samples[si, qm_to_sample[ui]] * samples[si, '
                       'qm_to_sample[vi]] inc(it) return energies',
 'dqm.energies (python)': '(self, samples) samples, labels = as_samples(samples) ; info = np.iinfo(self._cydqm.case_dtype) ; if samples.size and '
                          "(samples.min() < info.min or samples.max() > info.max): raise ValueError('invalid case') ; samples = "
                          "samples.astype(self._cydqm.case_dtype, copy=False) ; if len(labels) != self.num_variables(): raise ValueError('Given "
                          "sample(s) have incorrect number of variables') ; if self.variables != labels: label_to_idx = dict(((v, i) for i, v in "
                          "enumerate(labels))) try: order = [label_to_idx[v] for v in self.variables] except KeyError: raise ValueError('given "
                          "samples-like does not match labels') samples = samples[:, order] ; return np.asarray(self._cydqm.energies(samples))",
 'expression.h energy': 'static_assert(std::is_same<std::random_access_iterator_tag, typename std::iterator_traits<Iter>::iterator_category>::value, '
                        '"iterator must be random access"); std::vector<typename std::iterator_traits<Iter>::value_type> subsample; for (const auto& '
                        'v : variables_) { subsample.push_back(*(sample_start + v)); } return base_type::energy(subsample.begin());',
 'pyBQM.energies': '(self, samples_like, dtype: DTypeLike=None) samples, labels = as_samples(samples_like) ; bqm_to_sample = dict(((v, i) for i, v '
                   "in enumerate(labels))) ; if not bqm_to_sample.keys() >= self._adj.keys(): raise ValueError(f'missing variable {(self._adj.keys() "
                   "- bqm_to_sample.keys()).pop()!r} in sample(s)') ; ldata = np.asarray([self.get_linear(v) if v in self._adj else 0 for v in "
                   'labels], dtype=dtype) ; if dtype is None and np.issubdtype(ldata.dtype, np.number): ldata = np.asarray(ldata, dtype=np.float64) '
                   '; irow = [] ; icol = [] ; qdata = [] ; for u, v, bias in self.iter_quadratic(): irow.append(bqm_to_sample[u]) '
                   'icol.append(bqm_to_sample[v]) qdata.append(bias) ; energies = samples.dot(ldata) ; energies += (samples[:, irow] * samples[:, '
                   'icol]).dot(qdata) ; energies += energies.dtype.type(self.offset) ; return np.asarray(energies, dtype=dtype)',
 'pyBQM.iter_quadratic': '(self) seen = set() ; for u, Nu in self._adj.items(): seen.add(u) for v, bias in Nu.items(): if v not in seen: yield (u, '
                         'v, bias)',
 'views fix_variable': '(self, v: Variable, value: float) add_linear = self.add_linear ; for u, bias in self.iter_neighborhood(v): add_linear(u, '
                       'value * bias) ; self.offset += value * self.get_linear(v) ; self.remove_variable(v)',
 'views fix_variables': '(self, fixed: Union[Mapping[Variable, float], Iterable[Tuple[Variable, float]]]) if isinstance(fixed, Mapping): fixed = '
                        'fixed.items() ; fix_variable = self.fix_variable ; for v, val in fixed: fix_variable(v, val)'}



def current_texts(build):
    res = {}
    for name, rel, kind, arg in SPECS:
        src = open(os.path.join(build, "dimod", rel)).read()
        res[name] = cpp_body(src, arg, name) if kind == "cpp" else pyx_def(src, arg, name) if kind == "pyx" else py_body(src, arg[0], arg[1], name)
    return res


def repin(build):
    """loop_shapes.py --repin <build_dir>: record the CURRENT source texts (only after the models have been re-validated)"""
    import pprint
    me = os.path.abspath(__file__)
    s = open(me).read()
    i, j = s.index("PINNED = {"), s.index("\n\n\ndef current_texts")
    open(me, "w").write(s[:i] + "PINNED = " + pprint.pformat(current_texts(build), width=150) + s[j:])
    print("re-pinned", len(SPECS), "loops from", build)


def main():
    if sys.argv[1] == "--repin":
        return repin(sys.argv[2])
    build, out = sys.argv[1], sys.argv[2]
    cache = {}
    names = []
    for name, rel, kind, arg in SPECS:
        path = os.path.join(build, "dimod", rel)
        if path not in cache:
            cache[path] = open(path).read()
            print("INPUT %s %s" % (path, hashlib.sha256(cache[path].encode()).hexdigest()))
        src = cache[path]
        if kind == "cpp":
            text = cpp_body(src, arg, name)
        elif kind == "pyx":
            text = pyx_def(src, arg, name)
        else:
            text = py_body(src, arg[0], arg[1], name)
        if text != PINNED[name]:
            a, b = PINNED[name], text
            k = next((i for i in range(min(len(a), len(b))) if a[i] != b[i]), min(len(a), len(b)))
            raise Bad(f"{rel}: {name}: the source no longer has the text the model mirrors; first difference at character {k}:\n"
                      f"  recorded: ...{a[max(0, k - 40):k + 60]}\n  found:    ...{b[max(0, k - 40):k + 60]}")
        names.append(name)
    lines = ["(* GENERATED by translators/loop_shapes.py - do not edit.  The loops below were found textually identical",
             "   (comments and white space aside) to the text the hand-written models mirror. *)",
             "From Coq Require Import List String.", "Import ListNotations.", "Open Scope string_scope.", "",
             "Definition gen_pinned_loops : list string := ["] + ["  \"%s\"%s" % (n, ";" if i + 1 < len(names) else "") for i, n in enumerate(names)] + ["].", ""]
    os.makedirs(out, exist_ok=True)
    p = os.path.join(out, "Gen_LoopShapes.v")
    new = "\n".join(lines)
    if not os.path.exists(p) or open(p).read() != new:
        open(p, "w").write(new)


if __name__ == "__main__":
    try:
        main()
    except Bad as e:
        print("loop_shapes.py: " + str(e))
        sys.exit(1)
