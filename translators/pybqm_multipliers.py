#!/venv/bin/python
"""Fail-closed translator: dimod/binary/pybqm.py -> coq/theories/Gen/Gen_PyBQM.v

Extracts, with Python's ast, the five multipliers pyBQM.change_vartype uses for each
target vartype (lin_mp, lin_offset_mp, quad_mp, lin_quad_mp, quad_offset_mp) and checks
that the update loop which consumes them has exactly the shape Model/PyBqm.v mirrors:

    for u, Nu in adj.items():
        lbias = Nu[u]
        self.offset += lin_offset_mp * lbias
        Nu[u] = lin_mp * lbias
        for v, qbias in Nu.items():
            if v == u:
                continue
            Nu[v] = quad_mp * qbias
            Nu[u] += lin_quad_mp * qbias
            self.offset += quad_offset_mp * qbias

Every statement of the method must match; anything else is an error naming the source
line.  The constants are emitted as exact rationals (float literals are dyadic, they are
converted with fractions.Fraction(float)), so Proofs/PyBqmFacts.v proves the energy
theorem over what the source says now.

usage: pybqm_multipliers.py <build_dir> <out_dir>
"""
import ast
import hashlib
import os
import sys
from fractions import Fraction

MP_NAMES = ["lin_mp", "lin_offset_mp", "quad_mp", "lin_quad_mp", "quad_offset_mp"]

NAMES = {Fraction(1, 2): "half", Fraction(2): "two", Fraction(1): "1", Fraction(0): "0",
         Fraction(-1): "(- (1))", Fraction(-2): "(- two)", Fraction(-1, 2): "(- half)"}


class Bad(Exception):
    pass


def seg(src, n):
    text = ast.get_source_segment(src, n) or ""
    lines = text.splitlines()
    return (lines[0] + " ...") if len(lines) > 1 else text


def is_name(n, ident):
    return isinstance(n, ast.Name) and n.id == ident


def is_self_offset(n):
    return isinstance(n, ast.Attribute) and n.attr == "offset" and is_name(n.value, "self")


def is_sub(n, base, idx):
    """base[idx] with plain names"""
    if not (isinstance(n, ast.Subscript) and is_name(n.value, base)):
        return False
    sl = n.slice
    if isinstance(sl, ast.Index):       # python < 3.9
        sl = sl.value
    return is_name(sl, idx)


def is_items_call(n, base):
    return (isinstance(n, ast.Call) and not n.args and not n.keywords and isinstance(n.func, ast.Attribute)
            and n.func.attr == "items" and is_name(n.func.value, base))


def is_pair_target(n, a, b):
    return isinstance(n, ast.Tuple) and len(n.elts) == 2 and is_name(n.elts[0], a) and is_name(n.elts[1], b)


def number(n, src):
    """exact value of a numeric literal (optionally negated)"""
    if isinstance(n, ast.UnaryOp) and isinstance(n.op, ast.USub):
        return -number(n.operand, src)
    if isinstance(n, ast.UnaryOp) and isinstance(n.op, ast.UAdd):
        return number(n.operand, src)
    if isinstance(n, ast.Constant) and type(n.value) in (int, float):
        if type(n.value) is float and (n.value != n.value or n.value in (float("inf"), float("-inf"))):
            raise Bad(f"line {n.lineno}: non-finite constant")
        return Fraction(n.value)
    raise Bad(f"line {n.lineno}: expected a numeric literal, found: {seg(src, n)}")


def is_vartype_test(t, member):
    """vartype == Vartype.<member>"""
    return (isinstance(t, ast.Compare) and is_name(t.left, "vartype") and len(t.ops) == 1
            and isinstance(t.ops[0], ast.Eq) and len(t.comparators) == 1
            and isinstance(t.comparators[0], ast.Attribute) and t.comparators[0].attr == member
            and is_name(t.comparators[0].value, "Vartype"))


def branch_constants(stmts, src, where):
    if len(stmts) != 5:
        raise Bad(f"line {where}: the branch must assign exactly the five multipliers")
    out = {}
    for s, want in zip(stmts, MP_NAMES):
        if not (isinstance(s, ast.Assign) and len(s.targets) == 1 and is_name(s.targets[0], want)):
            raise Bad(f"line {s.lineno}: expected `{want} = <number>`, found: {seg(src, s)}")
        out[want] = number(s.value, src)
    return out


def is_product(n, mp, var):
    """mp * var"""
    return isinstance(n, ast.BinOp) and isinstance(n.op, ast.Mult) and is_name(n.left, mp) and is_name(n.right, var)


def expect(cond, s, src, what):
    if not cond:
        raise Bad(f"line {s.lineno}: expected `{what}`, found: {seg(src, s)}")


def check_loop(loop, src):
    expect(isinstance(loop, ast.For) and is_pair_target(loop.target, "u", "Nu") and is_items_call(loop.iter, "adj")
           and not loop.orelse, loop, src, "for u, Nu in adj.items():")
    body = loop.body
    if len(body) != 4:
        raise Bad(f"line {loop.lineno}: the outer loop body must have exactly 4 statements, found {len(body)}")
    s = body[0]
    expect(isinstance(s, ast.Assign) and len(s.targets) == 1 and is_name(s.targets[0], "lbias")
           and is_sub(s.value, "Nu", "u"), s, src, "lbias = Nu[u]")
    s = body[1]
    expect(isinstance(s, ast.AugAssign) and isinstance(s.op, ast.Add) and is_self_offset(s.target)
           and is_product(s.value, "lin_offset_mp", "lbias"), s, src, "self.offset += lin_offset_mp * lbias")
    s = body[2]
    expect(isinstance(s, ast.Assign) and len(s.targets) == 1 and is_sub(s.targets[0], "Nu", "u")
           and is_product(s.value, "lin_mp", "lbias"), s, src, "Nu[u] = lin_mp * lbias")
    inner = body[3]
    expect(isinstance(inner, ast.For) and is_pair_target(inner.target, "v", "qbias") and is_items_call(inner.iter, "Nu")
           and not inner.orelse, inner, src, "for v, qbias in Nu.items():")
    ib = inner.body
    if len(ib) != 4:
        raise Bad(f"line {inner.lineno}: the inner loop body must have exactly 4 statements, found {len(ib)}")
    s = ib[0]
    t = s.test if isinstance(s, ast.If) else None
    expect(isinstance(s, ast.If) and not s.orelse and len(s.body) == 1 and isinstance(s.body[0], ast.Continue)
           and isinstance(t, ast.Compare) and len(t.ops) == 1 and isinstance(t.ops[0], ast.Eq)
           and is_name(t.left, "v") and len(t.comparators) == 1 and is_name(t.comparators[0], "u"),
           s, src, "if v == u: continue")
    s = ib[1]
    expect(isinstance(s, ast.Assign) and len(s.targets) == 1 and is_sub(s.targets[0], "Nu", "v")
           and is_product(s.value, "quad_mp", "qbias"), s, src, "Nu[v] = quad_mp * qbias")
    s = ib[2]
    expect(isinstance(s, ast.AugAssign) and isinstance(s.op, ast.Add) and is_sub(s.target, "Nu", "u")
           and is_product(s.value, "lin_quad_mp", "qbias"), s, src, "Nu[u] += lin_quad_mp * qbias")
    s = ib[3]
    expect(isinstance(s, ast.AugAssign) and isinstance(s.op, ast.Add) and is_self_offset(s.target)
           and is_product(s.value, "quad_offset_mp", "qbias"), s, src, "self.offset += quad_offset_mp * qbias")


def render(k):
    if k in NAMES:
        return NAMES[k]
    return "(qc (%d) %d)" % (k.numerator, k.denominator)


def main():
    build, out = sys.argv[1], sys.argv[2]
    path = os.path.join(build, "dimod", "binary", "pybqm.py")
    src = open(path).read()
    print("INPUT %s %s" % (path, hashlib.sha256(src.encode()).hexdigest()))
    tree = ast.parse(src)
    cls = [n for n in tree.body if isinstance(n, ast.ClassDef) and n.name == "pyBQM"]
    if len(cls) != 1:
        raise Bad("class pyBQM not found (or defined twice)")
    fns = [n for n in cls[0].body if isinstance(n, ast.FunctionDef) and n.name == "change_vartype"]
    if len(fns) != 1:
        raise Bad("method pyBQM.change_vartype not found (or defined twice)")
    fn = fns[0]
    if fn.decorator_list:
        raise Bad(f"line {fn.lineno}: change_vartype is not expected to be decorated")
    body = [s for s in fn.body if not (isinstance(s, ast.Expr) and isinstance(s.value, ast.Constant)
                                       and isinstance(s.value.value, str))]
    if len(body) != 7:
        raise Bad(f"line {fn.lineno}: change_vartype must have exactly 7 statements, found {len(body)}")
    # 1. vartype = as_vartype(vartype)
    s = body[0]
    expect(isinstance(s, ast.Assign) and len(s.targets) == 1 and is_name(s.targets[0], "vartype")
           and isinstance(s.value, ast.Call) and is_name(s.value.func, "as_vartype") and len(s.value.args) == 1
           and not s.value.keywords and is_name(s.value.args[0], "vartype"), s, src, "vartype = as_vartype(vartype)")
    # 2. if self._vartype == vartype: return self
    s = body[1]
    t = s.test if isinstance(s, ast.If) else None
    expect(isinstance(s, ast.If) and not s.orelse and len(s.body) == 1 and isinstance(s.body[0], ast.Return)
           and is_name(s.body[0].value, "self")
           and isinstance(t, ast.Compare) and len(t.ops) == 1 and isinstance(t.ops[0], ast.Eq)
           and isinstance(t.left, ast.Attribute) and t.left.attr == "_vartype" and is_name(t.left.value, "self")
           and len(t.comparators) == 1 and is_name(t.comparators[0], "vartype"),
           s, src, "if self._vartype == vartype: return self")
    # 3. if vartype == Vartype.BINARY: ... elif vartype == Vartype.SPIN: ... else: raise
    s = body[2]
    expect(isinstance(s, ast.If) and is_vartype_test(s.test, "BINARY"), s, src, "if vartype == Vartype.BINARY:")
    to_binary = branch_constants(s.body, src, s.lineno)
    if len(s.orelse) != 1 or not isinstance(s.orelse[0], ast.If):
        raise Bad(f"line {s.lineno}: expected `elif vartype == Vartype.SPIN:` after the BINARY branch")
    e = s.orelse[0]
    expect(is_vartype_test(e.test, "SPIN"), e, src, "elif vartype == Vartype.SPIN:")
    to_spin = branch_constants(e.body, src, e.lineno)
    if len(e.orelse) != 1 or not isinstance(e.orelse[0], ast.Raise):
        raise Bad(f"line {e.lineno}: the else branch must be a single raise")
    # 4. adj = self._adj
    s = body[3]
    expect(isinstance(s, ast.Assign) and len(s.targets) == 1 and is_name(s.targets[0], "adj")
           and isinstance(s.value, ast.Attribute) and s.value.attr == "_adj" and is_name(s.value.value, "self"),
           s, src, "adj = self._adj")
    # 5. the loop
    check_loop(body[4], src)
    # 6. self._vartype = vartype
    s = body[5]
    expect(isinstance(s, ast.Assign) and len(s.targets) == 1 and isinstance(s.targets[0], ast.Attribute)
           and s.targets[0].attr == "_vartype" and is_name(s.targets[0].value, "self") and is_name(s.value, "vartype"),
           s, src, "self._vartype = vartype")
    # 7. return self
    s = body[6]
    expect(isinstance(s, ast.Return) and is_name(s.value, "self"), s, src, "return self")

    lines = ["(* GENERATED by translators/pybqm_multipliers.py from dimod/binary/pybqm.py - do not edit *)",
             "From Coq Require Import ZArith QArith Qcanon.", "From Dimod Require Import Base.Util Model.Poly.",
             "Open Scope Qc_scope.", "",
             "(* target vartype of pyBQM.change_vartype *)",
             "Inductive pb_target := ToBinary | ToSpin.", "",
             "(* (lin_mp, lin_offset_mp, quad_mp, lin_quad_mp, quad_offset_mp) *)",
             "Definition gen_pb_mp (t : pb_target) : Qc * Qc * Qc * Qc * Qc :=", "  match t with"]
    for name, d in (("ToBinary", to_binary), ("ToSpin", to_spin)):
        lines.append("  | %s => (%s)" % (name, ", ".join(render(d[k]) for k in MP_NAMES)))
    lines += ["  end.", ""]
    os.makedirs(out, exist_ok=True)
    p = os.path.join(out, "Gen_PyBQM.v")
    new = "\n".join(lines)
    if not os.path.exists(p) or open(p).read() != new:
        open(p, "w").write(new)


if __name__ == "__main__":
    try:
        main()
    except Bad as e:
        print("pybqm_multipliers.py: " + str(e))
        sys.exit(1)
