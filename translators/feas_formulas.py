#!/venv/bin/python
"""Fail-closed translator: dimod/constrained/constrained.py + dimod/sampleset.py -> coq/theories/Gen/Gen_Feas.v

Extracts, with Python's ast, the formulas both feasibility paths of a CQM compute:
  per-sample path  (ConstrainedQuadraticModel.iter_constraint_data / check_feasible / iter_violations):
     activity, the violation per sense (Eq / Ge / Le), the tolerance, the skip_satisfied test, the clip
  vectorised path  (SampleSet.from_samples_cqm):
     the violation per sense, the tolerance, the linear and quadratic soft penalties
Every extracted statement must have exactly the expected shape and every expression must stay inside
the small grammar (names, + - * unary -, abs / np.abs, max(., 0), np.power(., 2), numeric constants);
anything else is an error naming the source line, which the driver reports as a broken tie.
Model/Feas.v is written over the generated definitions, so the C08 theorems are proved about what the
source says now.

usage: feas_formulas.py <build_dir> <out_dir>
"""
import ast
import hashlib
import os
import sys


class Bad(Exception):
    pass


def seg(src, n):
    return ast.get_source_segment(src, n)


def is_name(n, name):
    return isinstance(n, ast.Name) and n.id == name


def is_attr(n, obj, attr):
    return isinstance(n, ast.Attribute) and n.attr == attr and is_name(n.value, obj)


def tr(n, atoms, src):
    """expression -> Coq term over Qc; atoms: list of (predicate on node, Coq name)"""
    for pred, name in atoms:
        if pred(n):
            return name
    if isinstance(n, ast.Constant) and isinstance(n.value, (int, float)) and not isinstance(n.value, bool):
        if float(n.value) == 0:
            return "0"
        if float(n.value) == 1:
            return "1"
        raise Bad(f"line {n.lineno}: numeric constant {n.value!r} outside the grammar")
    if isinstance(n, ast.UnaryOp) and isinstance(n.op, ast.USub):
        return f"(- {tr(n.operand, atoms, src)})"
    if isinstance(n, ast.BinOp) and isinstance(n.op, (ast.Add, ast.Sub, ast.Mult)):
        op = {ast.Add: "+", ast.Sub: "-", ast.Mult: "*"}[type(n.op)]
        return f"({tr(n.left, atoms, src)} {op} {tr(n.right, atoms, src)})"
    if isinstance(n, ast.Call) and not n.keywords:
        f = n.func
        if (is_name(f, "abs") or is_attr(f, "np", "abs")) and len(n.args) == 1:
            return f"(qabs {tr(n.args[0], atoms, src)})"
        if is_name(f, "max") and len(n.args) == 2 and isinstance(n.args[1], ast.Constant) and float(n.args[1].value) == 0:
            return f"(qmax0 {tr(n.args[0], atoms, src)})"
        if is_attr(f, "np", "power") and len(n.args) == 2 and isinstance(n.args[1], ast.Constant) and n.args[1].value == 2:
            x = tr(n.args[0], atoms, src)
            return f"({x} * {x})"
    raise Bad(f"line {n.lineno}: expression outside the grammar: {seg(src, n)}")


def find_method(tree, cls, name):
    for c in tree.body:
        if isinstance(c, ast.ClassDef) and c.name == cls:
            for f in c.body:
                if isinstance(f, ast.FunctionDef) and f.name == name:
                    return f
    raise Bad(f"{cls}.{name} not found")


def assigns_to(fn, target):
    out = []
    for n in ast.walk(fn):
        if isinstance(n, ast.Assign) and len(n.targets) == 1 and is_name(n.targets[0], target):
            out.append(n)
        if isinstance(n, ast.AugAssign) and is_name(n.target, target):
            out.append(n)
    return out


def sense_chain(fn, src):
    """the unique if/elif/elif/else chain `sense is Sense.X: violation = e` ; returns {X: expr node}"""
    chains = []
    for n in ast.walk(fn):
        if isinstance(n, ast.If) and isinstance(n.test, ast.Compare) and is_name(n.test.left, "sense") \
                and len(n.test.ops) == 1 and isinstance(n.test.ops[0], ast.Is):
            chains.append(n)
    heads = [c for c in chains if not any(c in p.orelse for p in chains)]
    if len(heads) != 1:
        raise Bad(f"line {fn.lineno}: {fn.name}: expected exactly one chain over `sense is Sense.X`, found {len(heads)}")
    out, node = {}, heads[0]
    while True:
        cmp_ = node.test.comparators[0]
        if not (isinstance(cmp_, ast.Attribute) and is_name(cmp_.value, "Sense") and cmp_.attr in ("Eq", "Ge", "Le")):
            raise Bad(f"line {node.lineno}: unexpected sense test {seg(src, node.test)}")
        if len(node.body) != 1 or not (isinstance(node.body[0], ast.Assign) and len(node.body[0].targets) == 1
                                       and is_name(node.body[0].targets[0], "violation")):
            raise Bad(f"line {node.lineno}: branch is not a single `violation = ...`")
        if cmp_.attr in out:
            raise Bad(f"line {node.lineno}: sense {cmp_.attr} tested twice")
        out[cmp_.attr] = node.body[0].value
        if len(node.orelse) == 1 and isinstance(node.orelse[0], ast.If):
            node = node.orelse[0]
            if not (isinstance(node.test, ast.Compare) and is_name(node.test.left, "sense")):
                raise Bad(f"line {node.lineno}: chain continues with a different test")
            continue
        if not (len(node.orelse) == 1 and isinstance(node.orelse[0], ast.Raise)):
            raise Bad(f"line {node.lineno}: the chain must end with `else: raise`")
        break
    if set(out) != {"Eq", "Ge", "Le"}:
        raise Bad(f"line {fn.lineno}: senses covered: {sorted(out)}")
    if len(assigns_to(fn, "violation")) != 3:
        raise Bad(f"line {fn.lineno}: {fn.name}: `violation` is assigned outside the sense chain")
    return out


def single_assign(fn, target, src):
    a = assigns_to(fn, target)
    if len(a) != 1 or not isinstance(a[0], ast.Assign):
        raise Bad(f"line {fn.lineno}: {fn.name}: expected exactly one plain assignment to `{target}`")
    return a[0].value


def expect_src(node, src, want, what):
    got = "".join(seg(src, node).split())
    if got not in ["".join(w.split()) for w in want]:
        raise Bad(f"line {node.lineno}: {what} is `{seg(src, node)}`, expected one of {want}")


def per_sample(tree, src):
    out = {}
    fn = find_method(tree, "ConstrainedQuadraticModel", "iter_constraint_data")
    expect_src(single_assign(fn, "lhs", src), src, ["constraint.lhs.energy((sample, variable_labels))"], "lhs")
    expect_src(single_assign(fn, "rhs", src), src, ["constraint.rhs"], "rhs")
    expect_src(single_assign(fn, "sense", src), src, ["constraint.sense"], "sense")
    atoms_lr = [(lambda n: is_name(n, "lhs"), "lhs"), (lambda n: is_name(n, "rhs"), "rhs")]
    out["ps_activity"] = tr(single_assign(fn, "activity", src), atoms_lr, src)
    atoms_act = [(lambda n: is_name(n, "activity"), "activity")]
    for s, e in sense_chain(fn, src).items():
        out["ps_violation_" + s.lower()] = tr(e, atoms_act, src)
    # the yielded record names its fields after the locals
    ys = [n for n in ast.walk(fn) if isinstance(n, ast.Yield)]
    if len(ys) != 1 or not (isinstance(ys[0].value, ast.Call) and is_name(ys[0].value.func, "ConstraintData")):
        raise Bad(f"line {fn.lineno}: iter_constraint_data must yield one ConstraintData(...)")
    kw = {k.arg: k.value for k in ys[0].value.keywords}
    for field, local in (("activity", "activity"), ("violation", "violation"), ("lhs_energy", "lhs"),
                         ("rhs_energy", "rhs"), ("sense", "sense"), ("label", "label")):
        if field not in kw or not is_name(kw[field], local):
            raise Bad(f"line {ys[0].lineno}: ConstraintData field {field} is not the local `{local}`")

    fn = find_method(tree, "ConstrainedQuadraticModel", "check_feasible")
    body = [s for s in fn.body if not (isinstance(s, ast.Expr) and isinstance(s.value, ast.Constant))]
    ok = (len(body) == 1 and isinstance(body[0], ast.Return) and isinstance(body[0].value, ast.Call)
          and is_name(body[0].value.func, "all") and len(body[0].value.args) == 1
          and isinstance(body[0].value.args[0], ast.GeneratorExp))
    if not ok:
        raise Bad(f"line {fn.lineno}: check_feasible is not `return all(<generator>)`")
    g = body[0].value.args[0]
    if len(g.generators) != 1 or g.generators[0].ifs or not is_name(g.generators[0].target, "datum"):
        raise Bad(f"line {fn.lineno}: check_feasible: unexpected generator")
    expect_src(g.generators[0].iter, src, ["self.iter_constraint_data(sample_like)"], "the iterated data (every constraint)")
    c = g.elt
    if not (isinstance(c, ast.Compare) and len(c.ops) == 1 and isinstance(c.ops[0], ast.LtE)
            and is_attr(c.left, "datum", "violation")):
        raise Bad(f"line {c.lineno}: check_feasible test is not `datum.violation <= ...`")
    atoms_tol = [(lambda n: is_name(n, "atol"), "atol"), (lambda n: is_name(n, "rtol"), "rtol"),
                 (lambda n: is_attr(n, "datum", "rhs_energy"), "rhs")]
    out["ps_tolerance"] = tr(c.comparators[0], atoms_tol, src)

    fn = find_method(tree, "ConstrainedQuadraticModel", "iter_violations")
    body = [s for s in fn.body if not (isinstance(s, ast.Expr) and isinstance(s.value, ast.Constant))]
    if not (len(body) == 1 and isinstance(body[0], ast.If) and is_name(body[0].test, "skip_satisfied")
            and len(body[0].orelse) == 1 and isinstance(body[0].orelse[0], ast.If) and is_name(body[0].orelse[0].test, "clip")):
        raise Bad(f"line {fn.lineno}: iter_violations is not `if skip_satisfied: .. elif clip: .. else: ..`")

    def loop(stmts, what):
        if not (len(stmts) == 1 and isinstance(stmts[0], ast.For) and is_name(stmts[0].target, "datum") and not stmts[0].orelse):
            raise Bad(f"line {stmts[0].lineno}: {what} branch is not a single for-loop over datum")
        expect_src(stmts[0].iter, src, ["self.iter_constraint_data(sample_like, labels=labels)"], "the iterated data")
        return stmts[0].body

    def yielded(s, what):
        if not (isinstance(s, ast.Expr) and isinstance(s.value, ast.Yield) and isinstance(s.value.value, ast.Tuple)
                and len(s.value.value.elts) == 2 and is_attr(s.value.value.elts[0], "datum", "label")):
            raise Bad(f"line {s.lineno}: {what}: expected `yield datum.label, <value>`")
        return s.value.value.elts[1]
    atoms_v = [(lambda n: is_attr(n, "datum", "violation"), "violation")]
    b = loop(body[0].body, "skip_satisfied")
    if not (len(b) == 1 and isinstance(b[0], ast.If) and not b[0].orelse and isinstance(b[0].test, ast.Compare)
            and len(b[0].test.ops) == 1 and isinstance(b[0].test.ops[0], ast.Gt) and is_attr(b[0].test.left, "datum", "violation")
            and len(b[0].body) == 1):
        raise Bad(f"line {b[0].lineno}: skip_satisfied branch is not `if datum.violation > <bound>: yield ...`")
    out["ps_skip_bound"] = tr(b[0].test.comparators[0], atoms_v, src)
    out["ps_skip_value"] = tr(yielded(b[0].body[0], "skip_satisfied"), atoms_v, src)
    b = loop(body[0].orelse[0].body, "clip")
    if len(b) != 1:
        raise Bad(f"line {b[0].lineno}: clip branch has more than one statement")
    out["ps_clip"] = tr(yielded(b[0], "clip"), atoms_v, src)
    b = loop(body[0].orelse[0].orelse, "plain")
    if len(b) != 1:
        raise Bad(f"line {b[0].lineno}: plain branch has more than one statement")
    out["ps_plain"] = tr(yielded(b[0], "plain"), atoms_v, src)
    return out


def vectorised(tree, src):
    out = {}
    fn = find_method(tree, "SampleSet", "from_samples_cqm")
    expect_src(single_assign(fn, "lhs", src), src, ["comparison.lhs.energies(samples_like)"], "lhs")
    expect_src(single_assign(fn, "rhs", src), src, ["comparison.rhs"], "rhs")
    expect_src(single_assign(fn, "sense", src), src, ["comparison.sense"], "sense")
    expect_src(single_assign(fn, "weight", src), src, ["comparison.lhs.weight()"], "weight")
    expect_src(single_assign(fn, "penalty", src), src, ["comparison.lhs.penalty()"], "penalty")
    atoms_lr = [(lambda n: is_name(n, "lhs"), "lhs"), (lambda n: is_name(n, "rhs"), "rhs")]
    for s, e in sense_chain(fn, src).items():
        out["vec_violation_" + s.lower()] = tr(e, atoms_lr, src)
    # is_satisfied[:, i] = violation <= tolerance
    sat = [n for n in ast.walk(fn) if isinstance(n, ast.Assign) and len(n.targets) == 1
           and isinstance(n.targets[0], ast.Subscript) and is_name(n.targets[0].value, "is_satisfied")]
    if len(sat) != 1:
        raise Bad(f"line {fn.lineno}: expected exactly one assignment into is_satisfied[...]")
    expect_src(sat[0].targets[0], src, ["is_satisfied[:, i]"], "the assigned column")
    c = sat[0].value
    if not (isinstance(c, ast.Compare) and len(c.ops) == 1 and isinstance(c.ops[0], ast.LtE) and is_name(c.left, "violation")):
        raise Bad(f"line {c.lineno}: column is not `violation <= ...`")
    atoms_tol = [(lambda n: is_name(n, "atol"), "atol"), (lambda n: is_name(n, "rtol"), "rtol"),
                 (lambda n: is_name(n, "rhs"), "rhs")]
    out["vec_tolerance"] = tr(c.comparators[0], atoms_tol, src)

    # energies += ... under penalty == 'linear' / 'quadratic'
    def unsat(n):
        return isinstance(n, ast.Compare) and "".join(seg(src, n).split()) == "is_satisfied[:,i]!=True"
    atoms_p = [(lambda n: is_name(n, "weight"), "weight"), (unsat, "unsat"), (lambda n: is_name(n, "violation"), "violation")]
    augs = assigns_to(fn, "energies")
    augs = [a for a in augs if isinstance(a, ast.AugAssign)]
    if len(augs) != 2 or not all(isinstance(a.op, ast.Add) for a in augs):
        raise Bad(f"line {fn.lineno}: expected exactly two `energies += ...`")
    pen_ifs = [n for n in ast.walk(fn) if isinstance(n, ast.If) and isinstance(n.test, ast.Compare) and is_name(n.test.left, "penalty")]
    seen = {}
    for n in pen_ifs:
        k = n.test.comparators[0]
        if not (len(n.test.ops) == 1 and isinstance(n.test.ops[0], ast.Eq) and isinstance(k, ast.Constant)
                and k.value in ("linear", "quadratic") and len(n.body) == 1 and n.body[0] in augs):
            raise Bad(f"line {n.lineno}: unexpected penalty branch")
        seen[k.value] = n.body[0].value
    if set(seen) != {"linear", "quadratic"}:
        raise Bad(f"line {fn.lineno}: penalty branches found: {sorted(seen)}")
    out["vec_penalty_linear"] = tr(seen["linear"], atoms_p, src)
    out["vec_penalty_quadratic"] = tr(seen["quadratic"], atoms_p, src)
    # the soft branch condition
    soft_if = [n for n in ast.walk(fn) if isinstance(n, ast.If) and any(p in ast.walk(n) for p in pen_ifs)
               and n not in pen_ifs]
    conds = {"".join(seg(src, n.test).split()) for n in soft_if}
    if "comparison.lhs.is_soft()andnotis_satisfied.all()" not in conds:
        raise Bad(f"line {fn.lineno}: the soft-penalty block is no longer guarded by `comparison.lhs.is_soft() and not is_satisfied.all()`")
    return out


def main():
    build, outdir = sys.argv[1], sys.argv[2]
    p1 = os.path.join(build, "dimod", "constrained", "constrained.py")
    p2 = os.path.join(build, "dimod", "sampleset.py")
    s1, s2 = open(p1).read(), open(p2).read()
    print("INPUT %s %s" % (p1, hashlib.sha256(s1.encode()).hexdigest()))
    print("INPUT %s %s" % (p2, hashlib.sha256(s2.encode()).hexdigest()))
    ps = per_sample(ast.parse(s1), s1)
    vec = vectorised(ast.parse(s2), s2)
    L = ["(* GENERATED by translators/feas_formulas.py from dimod/constrained/constrained.py and dimod/sampleset.py - do not edit *)",
         "From Coq Require Import QArith Qcanon Bool.", "From Dimod Require Import Base.Util.", "Open Scope Qc_scope.", "",
         "(* the primitives the formulas are written with: <=, abs, max(., 0) *)",
         "Definition Qc_leb (a b : Qc) : bool := Qle_bool a b.",
         "Definition qabs (q : Qc) : Qc := if Qc_leb 0 q then q else - q.",
         "Definition qmax0 (q : Qc) : Qc := if Qc_leb q 0 then 0 else q.", "",
         "(* ---- constrained.py: iter_constraint_data / check_feasible / iter_violations ---- *)",
         f"Definition gen_ps_activity (lhs rhs : Qc) : Qc := {ps['ps_activity']}."]
    for s in ("eq", "ge", "le"):
        L.append(f"Definition gen_ps_violation_{s} (activity : Qc) : Qc := {ps['ps_violation_' + s]}.")
    L += [f"Definition gen_ps_tolerance (atol rtol rhs : Qc) : Qc := {ps['ps_tolerance']}.",
          "(* skip_satisfied keeps a datum iff violation > bound, and yields: *)",
          f"Definition gen_ps_skip_keeps (violation : Qc) : bool := negb (Qc_leb violation {ps['ps_skip_bound']}).",
          f"Definition gen_ps_skip_value (violation : Qc) : Qc := {ps['ps_skip_value']}.",
          f"Definition gen_ps_clip (violation : Qc) : Qc := {ps['ps_clip']}.",
          f"Definition gen_ps_plain (violation : Qc) : Qc := {ps['ps_plain']}.", "",
          "(* ---- sampleset.py: SampleSet.from_samples_cqm ---- *)"]
    for s in ("eq", "ge", "le"):
        L.append(f"Definition gen_vec_violation_{s} (lhs rhs : Qc) : Qc := {vec['vec_violation_' + s]}.")
    L += [f"Definition gen_vec_tolerance (atol rtol rhs : Qc) : Qc := {vec['vec_tolerance']}.",
          "(* unsat = (is_satisfied[:, i] != True) as 0/1 *)",
          f"Definition gen_vec_penalty_linear (weight unsat violation : Qc) : Qc := {vec['vec_penalty_linear']}.",
          f"Definition gen_vec_penalty_quadratic (weight unsat violation : Qc) : Qc := {vec['vec_penalty_quadratic']}.", ""]
    os.makedirs(outdir, exist_ok=True)
    p = os.path.join(outdir, "Gen_Feas.v")
    new = "\n".join(L)
    if not os.path.exists(p) or open(p).read() != new:
        open(p, "w").write(new)


if __name__ == "__main__":
    try:
        main()
    except Bad as e:
        print("feas_formulas.py: " + str(e))
        sys.exit(1)
