#!/venv/bin/python
"""Fail-closed translator: the copy / in-place API surface of dimod -> coq/theories/Gen/Gen_Copy.v

For the classes C19 speaks about (BinaryQuadraticModel, QuadraticModel, ConstrainedQuadraticModel,
SampleSet; plus the cyConstrainedQuadraticModel base, read with a regex because .pyx is not Python)
it lists every PUBLIC method that has an `inplace` or a `copy` parameter, with

    (class, method, parameter, default, returns_self)

where `default` is the literal boolean default of the parameter and `returns_self` says whether the
method body (nested functions excluded) contains `return self`.  Module-level functions of
dimod/sampleset.py that build a new SampleSet from existing ones are listed by name.

Fail-closed: a default that is not a literal True/False, a duplicate definition, a missing class or
file, or an `inplace`/`copy` parameter without default is an error.  Props/C19.v proves that the
generated table equals the table Model/CopyApi.v says the model and the harness cover, so a new
in-place method, a removed one, or a changed default breaks the tie until the model is revisited.

usage: copy_api.py <build_dir> <out_dir>
"""
import ast
import hashlib
import os
import re
import sys

CLASSES = [("dimod/binary/binary_quadratic_model.py", "BinaryQuadraticModel"),
           ("dimod/quadratic/quadratic_model.py", "QuadraticModel"),
           ("dimod/constrained/constrained.py", "ConstrainedQuadraticModel"),
           ("dimod/sampleset.py", "SampleSet"),
           ("dimod/discrete/discrete_quadratic_model.py", "DiscreteQuadraticModel"),
           ("dimod/higherorder/polynomial.py", "BinaryPolynomial"),
           ("dimod/variables.py", "Variables"),
           ("dimod/binary/vartypeview.py", "VartypeView")]
# public methods that hand out an object built from the receiver: copy, relabel_*, to_* / from_* constructors
CONSTRUCTOR_RE = r"^(copy|relabel_variables(_as_integers)?|to_[a-z_]+|from_[a-z_]+)$"
PYX = [("dimod/constrained/cyconstrained.pyx", "cyConstrainedQuadraticModel")]
PARAMS = ("inplace", "copy")
# module functions of sampleset.py whose result is a NEW sample set built from given ones
SS_FUNCTIONS_EXPECTED_PREFIX = ("append_", "concatenate", "drop_variables", "keep_variables")


class Bad(Exception):
    pass


def returns_self(fn):
    def walk(n):
        for c in ast.iter_child_nodes(n):
            if isinstance(c, (ast.FunctionDef, ast.AsyncFunctionDef, ast.Lambda, ast.ClassDef)):
                continue
            if isinstance(c, ast.Return) and isinstance(c.value, ast.Name) and c.value.id == "self":
                return True
            if walk(c):
                return True
        return False
    return walk(fn)


def params_of(fn, where):
    out = []
    a = fn.args
    pos = a.posonlyargs + a.args
    defaults = [None] * (len(pos) - len(a.defaults)) + list(a.defaults)
    pairs = list(zip(pos, defaults)) + list(zip(a.kwonlyargs, a.kw_defaults))
    for arg, d in pairs:
        if arg.arg in PARAMS:
            if d is None:
                raise Bad(f"{where}: parameter {arg.arg!r} has no default")
            if not (isinstance(d, ast.Constant) and isinstance(d.value, bool)):
                raise Bad(f"{where} line {fn.lineno}: default of {arg.arg!r} is not a literal True/False")
            out.append((arg.arg, d.value))
    return out


def main():
    build, out = sys.argv[1], sys.argv[2]
    rows = []
    ctors = []
    for rel, cname in CLASSES:
        path = os.path.join(build, rel)
        if not os.path.exists(path):
            raise Bad(f"{rel} not found")
        src = open(path).read()
        print("INPUT %s %s" % (path, hashlib.sha256(src.encode()).hexdigest()))
        tree = ast.parse(src)
        cls = [n for n in tree.body if isinstance(n, ast.ClassDef) and n.name == cname]
        if len(cls) != 1:
            raise Bad(f"class {cname} not found in {rel} (or defined twice)")
        seen = set()
        for fn in cls[0].body:
            if isinstance(fn, (ast.FunctionDef, ast.AsyncFunctionDef)) and re.match(CONSTRUCTOR_RE, fn.name):
                ctors.append((cname, fn.name, returns_self(fn)))
            if not isinstance(fn, (ast.FunctionDef, ast.AsyncFunctionDef)):
                continue
            if fn.name.startswith("_"):
                continue
            ps = params_of(fn, f"{cname}.{fn.name}")
            if not ps:
                continue
            if fn.name in seen:
                raise Bad(f"{cname}.{fn.name} defined twice")
            seen.add(fn.name)
            for p, d in ps:
                rows.append((cname, fn.name, p, d, returns_self(fn)))
        if cname == "SampleSet":
            funcs = [n.name for n in tree.body if isinstance(n, ast.FunctionDef) and not n.name.startswith("_")
                     and n.name.startswith(SS_FUNCTIONS_EXPECTED_PREFIX)]
            ss_funcs = sorted(funcs)
    for rel, cname in PYX:
        path = os.path.join(build, rel)
        if not os.path.exists(path):
            raise Bad(f"{rel} not found")
        src = open(path).read()
        print("INPUT %s %s" % (path, hashlib.sha256(src.encode()).hexdigest()))
        # def name(self, ..., [bint|bool] inplace = True, ...)   /  copy likewise
        for m in re.finditer(r"^    (?:cp)?def\s+(?:\w+\s+)?(\w+)\s*\(([^)]*)\)\s*:", src, re.M):
            name, args = m.group(1), m.group(2)
            if name.startswith("_"):
                continue
            for p in PARAMS:
                for am in re.finditer(r"(?:^|,)\s*(?:\w+\s+)?" + p + r"\b\s*(?:=\s*([^,]*))?", args):
                    if am.group(1) is None:
                        continue        # no default at the Cython level: the Python subclass supplies it (scanned above)
                    d = am.group(1).strip()
                    if d not in ("True", "False"):
                        raise Bad(f"{cname}.{name}: default of {p!r} is {d!r}, not a literal True/False")
                    body_start = m.end()
                    nxt = re.search(r"^    (?:cp|c)?def\s", src[body_start:], re.M)
                    body = src[body_start: body_start + nxt.start()] if nxt else src[body_start:]
                    rows.append((cname, name, p, d == "True", bool(re.search(r"^\s+return self\s*$", body, re.M))))
    rows.sort()
    if len({(c, m, p) for c, m, p, _, _ in rows}) != len(rows):
        raise Bad("duplicate (class, method, parameter) entry")

    def b(x):
        return "true" if x else "false"
    lines = ["(* GENERATED by translators/copy_api.py from dimod's source - do not edit *)",
             "From Coq Require Import List String Bool.", "Import ListNotations.", "Open Scope string_scope.", "",
             "(* (class, public method, parameter, literal default, body contains `return self`) *)",
             "Definition gen_copy_api : list (string * string * string * bool * bool) :=", "  ["]
    lines.append(";\n".join('   ("%s", "%s", "%s", %s, %s)' % (c, m, p, b(d), b(rs)) for c, m, p, d, rs in rows))
    lines += ["  ].", "",
              "(* public copy / relabel_* / to_* / from_* methods of the same classes: (class, method, body contains `return self`) *)",
              "Definition gen_copy_constructors : list (string * string * bool) :=", "  [",
              ";\n".join('   ("%s", "%s", %s)' % (c, m, b(rs)) for c, m, rs in sorted(set(ctors))), "  ].", "",
              "(* module functions of dimod/sampleset.py that build a new SampleSet from given ones *)",
              "Definition gen_sampleset_functions : list string :=",
              "  [" + "; ".join('"%s"' % f for f in ss_funcs) + "].", ""]
    os.makedirs(out, exist_ok=True)
    p = os.path.join(out, "Gen_Copy.v")
    new = "\n".join(lines)
    if not os.path.exists(p) or open(p).read() != new:
        open(p, "w").write(new)


if __name__ == "__main__":
    try:
        main()
    except Bad as e:
        print("copy_api.py: " + str(e))
        sys.exit(1)
