#!/venv/bin/python
"""Fail-closed translator: the python loops over higher-order polynomials -> coq/theories/Gen/Gen_HPolyPy.v

  dimod/higherorder/polynomial.py                       BinaryPolynomial.energies, to_binary, to_spin, powerset
  dimod/reference/composites/higherordercomposites.py   fix_variables

Each function body (docstring dropped) is re-printed with ast.unparse and must equal the template below exactly, up to
the numeric literals marked NUM, which are captured: the bases of the powers in to_binary / to_spin, the initial offset
and the length threshold of fix_variables.  Model/HPolyPy.v and Model/HPolyLoop.v mirror these loops by hand;
Proofs/HPolyPyGenFacts.v proves that the mirrored coefficient formulas use exactly the generated bases.

usage: poly_loops.py <build_dir> <out_dir>
"""
import ast
import hashlib
import os
import re
import sys
from fractions import Fraction

NAMES = {Fraction(2): "two", Fraction(-1): "(- (1))", Fraction(1): "1", Fraction(0): "0", Fraction(1, 2): "half"}
NUM = r"\(?([+-]?(?:\d+\.?\d*|\.\d+))\)?"


class Bad(Exception):
    pass


ENERGIES = """samples, labels = as_samples(samples_like)
if labels:
    idx, label = zip(*enumerate(labels))
    labeldict = dict(zip(label, idx))
else:
    labeldict = {}
num_samples = samples.shape[0]
energies = np.zeros(num_samples, dtype=dtype)
for term, bias in self.items():
    if len(term) == 0:
        energies += bias
    else:
        energies += np.prod([samples[:, labeldict[v]] for v in term], axis=0) * bias
return energies"""

TO_BINARY = """if self.vartype is Vartype.BINARY:
    if copy:
        return self.copy()
    else:
        return self
new = BinaryPolynomial({}, Vartype.BINARY)
for term, bias in self.items():
    for t in map(frozenset, powerset(term)):
        newbias = bias * NUM ** len(t) * NUM ** (len(term) - len(t))
        if t in new:
            new[t] += newbias
        else:
            new[t] = newbias
return new"""

TO_SPIN = """if self.vartype is Vartype.SPIN:
    if copy:
        return self.copy()
    else:
        return self
new = BinaryPolynomial({}, Vartype.SPIN)
for term, bias in self.items():
    newbias = bias / NUM ** len(term)
    for t in map(frozenset, powerset(term)):
        if t in new:
            new[t] += newbias
        else:
            new[t] = newbias
return new"""

POWERSET = "return itertools.chain.from_iterable((itertools.combinations(iterable, r) for r in range(len(iterable) + 1)))"

FIX = """offset = NUM
poly_copy = defaultdict(float)
for k, v in poly.items():
    k = set(k)
    for var, value in fixed_variables.items():
        if var in k:
            k -= {var}
            v *= value
    k = frozenset(k)
    if len(k) > NUM:
        poly_copy[k] += v
    else:
        offset += v
poly_copy[()] = offset
return BinaryPolynomial(poly_copy, poly.vartype)"""


def body_text(fn):
    body = [s for s in fn.body if not (isinstance(s, ast.Expr) and isinstance(s.value, ast.Constant) and isinstance(s.value.value, str))]
    return "\n".join(ast.unparse(s) for s in body)


def match(fn, template, args, where):
    if ast.unparse(fn.args) != args:
        raise Bad(f"line {fn.lineno}: {where}: signature ({ast.unparse(fn.args)}) is not ({args})")
    if fn.decorator_list:
        raise Bad(f"line {fn.lineno}: {where}: unexpected decorator")
    text = body_text(fn)
    parts = template.split("NUM")
    rx = "^" + NUM.join(re.escape(p) for p in parts) + "$"
    m = re.match(rx, text)
    if not m:
        # name the first differing line
        tl, xl = template.split("\n"), text.split("\n")
        for i, (a, b) in enumerate(zip(tl + [""] * len(xl), xl + [""] * len(tl))):
            pa = "^" + NUM.join(re.escape(p) for p in a.split("NUM")) + "$"
            if not re.match(pa, b):
                raise Bad(f"line {fn.lineno}+{i + 1}: {where}: expected `{a.strip()}`, found `{b.strip()}`")
        raise Bad(f"line {fn.lineno}: {where}: body does not have the expected shape")
    return [Fraction(g) for g in m.groups()]


def name(k, where):
    if k not in NAMES:
        raise Bad(f"{where}: constant {k} has no named Coq constant (the source changed)")
    return NAMES[k]


def main():
    build, out = sys.argv[1], sys.argv[2]
    p1 = os.path.join(build, "dimod", "higherorder", "polynomial.py")
    p2 = os.path.join(build, "dimod", "reference", "composites", "higherordercomposites.py")
    s1, s2 = open(p1).read(), open(p2).read()
    print("INPUT %s %s" % (p1, hashlib.sha256(s1.encode()).hexdigest()))
    print("INPUT %s %s" % (p2, hashlib.sha256(s2.encode()).hexdigest()))
    t1, t2 = ast.parse(s1), ast.parse(s2)
    cls = [n for n in t1.body if isinstance(n, ast.ClassDef) and n.name == "BinaryPolynomial"]
    if len(cls) != 1:
        raise Bad("class BinaryPolynomial not found")
    meth = {}
    for n in cls[0].body:
        if isinstance(n, ast.FunctionDef):
            if n.name in meth:
                raise Bad(f"line {n.lineno}: {n.name} defined twice")
            meth[n.name] = n
    top1 = [n for n in t1.body if isinstance(n, ast.FunctionDef) and n.name == "powerset"]
    top2 = [n for n in t2.body if isinstance(n, ast.FunctionDef) and n.name == "fix_variables"]
    if len(top1) != 1 or len(top2) != 1:
        raise Bad("powerset / fix_variables not found exactly once")
    for need in ("energies", "to_binary", "to_spin"):
        if need not in meth:
            raise Bad(f"BinaryPolynomial.{need} not found")
    match(meth["energies"], ENERGIES, "self, samples_like, dtype=float", "BinaryPolynomial.energies")
    pos, neg = match(meth["to_binary"], TO_BINARY, "self, copy=False", "BinaryPolynomial.to_binary")
    (sp,) = match(meth["to_spin"], TO_SPIN, "self, copy=False", "BinaryPolynomial.to_spin")
    match(top1[0], POWERSET, "iterable", "powerset")
    off0, thr = match(top2[0], FIX, "poly, fixed_variables", "higherordercomposites.fix_variables")
    if thr != 0:
        raise Bad("higherordercomposites.fix_variables: the constant-term test is no longer `len(k) > 0`")
    lines = ["(* GENERATED by translators/poly_loops.py from dimod/higherorder/polynomial.py and",
             "   dimod/reference/composites/higherordercomposites.py - do not edit *)",
             "From Coq Require Import QArith Qcanon.", "From Dimod Require Import Base.Util Model.Poly.", "Open Scope Qc_scope.", "",
             "(* to_binary: newbias = bias * POS ** len(t) * NEG ** (len(term) - len(t)) *)",
             "Definition gen_to_binary_base_pos : Qc := %s." % name(pos, "to_binary"),
             "Definition gen_to_binary_base_neg : Qc := %s." % name(neg, "to_binary"),
             "(* to_spin: newbias = bias / BASE ** len(term) *)",
             "Definition gen_to_spin_base : Qc := %s." % name(sp, "to_spin"),
             "(* fix_variables: offset starts at *)",
             "Definition gen_fix_offset_init : Qc := %s." % name(off0, "fix_variables"), ""]
    os.makedirs(out, exist_ok=True)
    p = os.path.join(out, "Gen_HPolyPy.v")
    new = "\n".join(lines)
    if not os.path.exists(p) or open(p).read() != new:
        open(p, "w").write(new)


if __name__ == "__main__":
    try:
        main()
    except Bad as e:
        print("poly_loops.py: " + str(e))
        sys.exit(1)
