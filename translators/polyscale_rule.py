#!/venv/bin/python
"""Fail-closed translator: dimod/higherorder/polynomial.py (BinaryPolynomial.normalize / scale) and
dimod/reference/composites/higherordercomposites.py (PolyScaleComposite.sample_poly)
-> coq/theories/Gen/Gen_PolyScale.v

Extracts, with Python's ast, the scaling rule Model/Solve.v builds on:

  normalize:   the initial value of the running extrema (lmin = lmax = 0 ; pmin = pmax = 0),
               the length tests that send a bias to the linear / higher-order extrema,
               the update expressions  min(bias, lmin) / max(bias, lmax) / ...,
               the formula of inv_scalar, the guard `inv_scalar != 0` and the factor
               handed to self.scale (1 / inv_scalar), parse_range (-abs(r), abs(r))
  scale:       every term not in ignored_terms is multiplied by the scalar
  sample_poly: explicit scalar -> poly.scale(scalar) ; otherwise normalize and recover
               scalar = poly[v] / original[v] on the first term with a non-zero bias that is not
               ignored, 1 when there is none; afterwards energies are recomputed from the
               original polynomial when there are ignored terms, else `energy /= scalar`

The statement SHAPES are compared (ast dumps) with the templates below where the expressions
that are translated are replaced by holes; the expressions themselves must lie in a small
arithmetic grammar.  Anything else is an error naming the source line.

usage: polyscale_rule.py <build_dir> <out_dir>
"""
import ast
import hashlib
import os
import sys


class Bad(Exception):
    pass


def seg(src, n):
    text = ast.get_source_segment(src, n) or ""
    lines = text.splitlines()
    return (lines[0] + " ...") if len(lines) > 1 else text


def strip_doc(body):
    if body and isinstance(body[0], ast.Expr) and isinstance(body[0].value, ast.Constant) \
            and isinstance(body[0].value.value, str):
        return body[1:]
    return body


def find_method(tree, cls, name, path):
    cs = [n for n in tree.body if isinstance(n, ast.ClassDef) and n.name == cls]
    if len(cs) != 1:
        raise Bad(f"{path}: class {cls} not found (or defined twice)")
    fs = [n for n in cs[0].body if isinstance(n, ast.FunctionDef) and n.name == name]
    if len(fs) != 1:
        raise Bad(f"{path}: method {cls}.{name} not found (or defined twice)")
    if fs[0].decorator_list:
        raise Bad(f"{path}: line {fs[0].lineno}: {cls}.{name} is not expected to be decorated")
    return fs[0]


HOLE = "__HOLE__"


class Holes(ast.NodeTransformer):
    """replace the expressions listed in `targets` (by id) with a Name placeholder"""

    def __init__(self, targets):
        self.targets = {id(t) for t in targets}

    def generic_visit(self, node):
        if id(node) in self.targets:
            return ast.copy_location(ast.Name(id=HOLE, ctx=ast.Load()), node)
        return super().generic_visit(node)

    def visit(self, node):
        if id(node) in self.targets:
            return ast.copy_location(ast.Name(id=HOLE, ctx=ast.Load()), node)
        return super().visit(node)


def dump_with_holes(stmts, holes):
    import copy
    mod = ast.Module(body=list(stmts), type_ignores=[])
    # NodeTransformer mutates: work on a deep copy, mapping hole identities
    mapping = {}
    cp = copy.deepcopy(mod, mapping)
    hole_cp = [mapping[id(h)] for h in holes]
    cp = Holes(hole_cp).visit(cp)
    return ast.dump(cp, annotate_fields=False, include_attributes=False)


def template_dump(text):
    return ast.dump(ast.parse(text), annotate_fields=False, include_attributes=False)


def expect_shape(stmts, holes, template, what, src):
    got = dump_with_holes(stmts, holes)
    want = template_dump(template)
    if got != want:
        first = stmts[0]
        raise Bad(f"line {first.lineno}: {what} does not have the expected shape; starts with: {seg(src, first)}")


# ---- expression grammar -> Coq (Qc) ----------------------------------------------------------

def to_coq(n, src, env):
    """env: python name / subscript text -> Coq term"""
    if isinstance(n, ast.Name):
        if n.id in env:
            return env[n.id]
        raise Bad(f"line {n.lineno}: unexpected name {n.id!r} in {seg(src, n)}")
    if isinstance(n, ast.Constant) and isinstance(n.value, int) and not isinstance(n.value, bool):
        if n.value in (0, 1):
            return str(n.value)
        return f"(qc ({n.value}) 1)"
    if isinstance(n, ast.Subscript):
        key = ast.unparse(n)
        if key in env:
            return env[key]
        raise Bad(f"line {n.lineno}: unexpected subscript {key!r}")
    if isinstance(n, ast.UnaryOp) and isinstance(n.op, ast.USub):
        return f"(- {to_coq(n.operand, src, env)})"
    if isinstance(n, ast.BinOp) and isinstance(n.op, (ast.Div, ast.Mult, ast.Add, ast.Sub)):
        op = {ast.Div: "/", ast.Mult: "*", ast.Add: "+", ast.Sub: "-"}[type(n.op)]
        return f"({to_coq(n.left, src, env)} {op} {to_coq(n.right, src, env)})"
    if isinstance(n, ast.Call) and isinstance(n.func, ast.Name) and n.func.id in ("max", "min", "abs") and not n.keywords:
        args = [to_coq(a, src, env) for a in n.args]
        if n.func.id == "abs":
            if len(args) != 1:
                raise Bad(f"line {n.lineno}: abs takes one argument")
            return f"(gabs {args[0]})"
        if len(args) < 2:
            raise Bad(f"line {n.lineno}: {n.func.id} of fewer than two values")
        f = "gmax" if n.func.id == "max" else "gmin"
        acc = args[0]
        for a in args[1:]:
            acc = f"({f} {acc} {a})"
        return acc
    raise Bad(f"line {n.lineno}: expression outside the grammar: {seg(src, n)}")


def len_test(n, src):
    """len(term) <op> <int>  -> Coq bool function body over n"""
    if not (isinstance(n, ast.Compare) and len(n.ops) == 1 and len(n.comparators) == 1
            and isinstance(n.left, ast.Call) and isinstance(n.left.func, ast.Name) and n.left.func.id == "len"
            and len(n.left.args) == 1 and isinstance(n.left.args[0], ast.Name) and n.left.args[0].id == "term"
            and isinstance(n.comparators[0], ast.Constant) and isinstance(n.comparators[0].value, int)):
        raise Bad(f"line {n.lineno}: expected `len(term) <op> <int>`: {seg(src, n)}")
    k = n.comparators[0].value
    op = n.ops[0]
    if isinstance(op, ast.Eq):
        return f"(n =? {k})%nat"
    if isinstance(op, ast.Gt):
        return f"({k} <? n)%nat"
    if isinstance(op, ast.GtE):
        return f"({k} <=? n)%nat"
    if isinstance(op, ast.Lt):
        return f"(n <? {k})%nat"
    raise Bad(f"line {n.lineno}: unsupported comparison in {seg(src, n)}")


NORMALIZE_TEMPLATE = """
def parse_range(r):
    if isinstance(r, Number):
        return __HOLE__
    return r
if ignored_terms is None:
    ignored_terms = set()
else:
    ignored_terms = {asfrozenset(term) for term in ignored_terms}
if poly_range is None:
    linear_range, poly_range = bias_range, bias_range
else:
    linear_range = bias_range
lin_range, poly_range = map(parse_range, (linear_range, poly_range))
lmin = lmax = __HOLE__
pmin = pmax = __HOLE__
for term, bias in self.items():
    if term in ignored_terms:
        continue
    if __HOLE__:
        lmin = __HOLE__
        lmax = __HOLE__
    elif __HOLE__:
        pmin = __HOLE__
        pmax = __HOLE__
inv_scalar = __HOLE__
if inv_scalar != 0:
    self.scale(__HOLE__, ignored_terms=ignored_terms)
"""

SCALE_TEMPLATE = """
if ignored_terms is None:
    ignored_terms = set()
else:
    ignored_terms = {asfrozenset(term) for term in ignored_terms}
for term in self:
    if term not in ignored_terms:
        self[term] *= scalar
"""

SAMPLE_POLY_TEMPLATE = """
if ignored_terms is None:
    ignored_terms = set()
else:
    ignored_terms = {frozenset(term) for term in ignored_terms}
original, poly = poly, poly.copy()
if scalar is not None:
    poly.scale(scalar, ignored_terms=ignored_terms)
else:
    poly.normalize(bias_range=bias_range, poly_range=poly_range, ignored_terms=ignored_terms)
    try:
        v = next(v for v, bias in original.items() if bias and v not in ignored_terms)
    except StopIteration:
        scalar = __HOLE__
    else:
        scalar = __HOLE__
sampleset = self.child.sample_poly(poly, **parameters)
if ignored_terms:
    sampleset.record.energy = original.energies((sampleset.record.sample, sampleset.variables))
else:
    __HOLE__
return sampleset
"""


def main():
    build, out = sys.argv[1], sys.argv[2]
    ppath = os.path.join(build, "dimod", "higherorder", "polynomial.py")
    cpath = os.path.join(build, "dimod", "reference", "composites", "higherordercomposites.py")
    psrc, csrc = open(ppath).read(), open(cpath).read()
    print("INPUT %s %s" % (ppath, hashlib.sha256(psrc.encode()).hexdigest()))
    print("INPUT %s %s" % (cpath, hashlib.sha256(csrc.encode()).hexdigest()))
    ptree, ctree = ast.parse(psrc), ast.parse(csrc)

    # ---------------- normalize ----------------
    fn = find_method(ptree, "BinaryPolynomial", "normalize", ppath)
    argnames = [a.arg for a in fn.args.args]
    if argnames != ["self", "bias_range", "poly_range", "ignored_terms"]:
        raise Bad(f"line {fn.lineno}: normalize has unexpected parameters {argnames}")
    body = strip_doc(fn.body)
    if len(body) != 9:
        raise Bad(f"line {fn.lineno}: normalize must have exactly 9 statements, found {len(body)}")
    try:
        pr_ret = body[0].body[0].body[0].value                     # return -abs(r), abs(r)
        init_l, init_p = body[4].value, body[5].value
        loop = body[6]
        branch = loop.body[1]
        lin_test = branch.test
        lmin_e, lmax_e = branch.body[0].value, branch.body[1].value
        sub = branch.orelse[0]
        pol_test = sub.test
        pmin_e, pmax_e = sub.body[0].value, sub.body[1].value
        inv_e = body[7].value
        fac_e = body[8].body[0].value.args[0]
    except (AttributeError, IndexError):
        raise Bad(f"line {fn.lineno}: normalize does not have the expected statement structure")
    holes = [pr_ret, init_l, init_p, lin_test, lmin_e, lmax_e, pol_test, pmin_e, pmax_e, inv_e, fac_e]
    expect_shape(body, holes, NORMALIZE_TEMPLATE, "BinaryPolynomial.normalize", psrc)
    if getattr(sub, "orelse", None):
        raise Bad(f"line {sub.lineno}: unexpected else branch in the extrema loop")
    if not (isinstance(pr_ret, ast.Tuple) and len(pr_ret.elts) == 2):
        raise Bad(f"line {pr_ret.lineno}: parse_range must return a pair")
    g = {}
    g["parse_lo"] = to_coq(pr_ret.elts[0], psrc, {"r": "r"})
    g["parse_hi"] = to_coq(pr_ret.elts[1], psrc, {"r": "r"})
    g["init_l"] = to_coq(init_l, psrc, {})
    g["init_p"] = to_coq(init_p, psrc, {})
    g["is_linear"] = len_test(lin_test, psrc)
    g["is_higher"] = len_test(pol_test, psrc)
    g["upd_lmin"] = to_coq(lmin_e, psrc, {"bias": "bias", "lmin": "cur"})
    g["upd_lmax"] = to_coq(lmax_e, psrc, {"bias": "bias", "lmax": "cur"})
    g["upd_pmin"] = to_coq(pmin_e, psrc, {"bias": "bias", "pmin": "cur"})
    g["upd_pmax"] = to_coq(pmax_e, psrc, {"bias": "bias", "pmax": "cur"})
    env = {"lmin": "lmin", "lmax": "lmax", "pmin": "pmin", "pmax": "pmax",
           "lin_range[0]": "(fst lin_range)", "lin_range[1]": "(snd lin_range)",
           "poly_range[0]": "(fst poly_range)", "poly_range[1]": "(snd poly_range)"}
    g["inv"] = to_coq(inv_e, psrc, env)
    g["factor"] = to_coq(fac_e, psrc, {"inv_scalar": "inv"})

    # ---------------- scale ----------------
    fn = find_method(ptree, "BinaryPolynomial", "scale", ppath)
    body = strip_doc(fn.body)
    expect_shape(body, [], SCALE_TEMPLATE, "BinaryPolynomial.scale", psrc)

    # ---------------- PolyScaleComposite.sample_poly ----------------
    fn = find_method(ctree, "PolyScaleComposite", "sample_poly", cpath)
    argnames = [a.arg for a in fn.args.args]
    if argnames != ["self", "poly", "scalar", "bias_range", "poly_range", "ignored_terms"] or fn.args.kwarg is None:
        raise Bad(f"line {fn.lineno}: PolyScaleComposite.sample_poly has unexpected parameters {argnames}")
    defaults = [ast.unparse(d) for d in fn.args.defaults]
    if defaults != ["None", "1", "None", "None"]:
        raise Bad(f"line {fn.lineno}: unexpected defaults {defaults} (expected scalar=None, bias_range=1, poly_range=None, ignored_terms=None)")
    body = strip_doc(fn.body)
    if len(body) != 6:
        raise Bad(f"line {fn.lineno}: sample_poly must have exactly 6 statements, found {len(body)}")
    try:
        tr = body[2].orelse[1]
        none_e = tr.handlers[0].body[0].value
        ratio_e = tr.orelse[0].value
        unscale = body[4].orelse[0]
    except (AttributeError, IndexError):
        raise Bad(f"line {fn.lineno}: sample_poly does not have the expected statement structure")
    # the un-scaling statement is an augmented assignment on sampleset.record.energy: the hole is the statement
    if not (isinstance(unscale, ast.AugAssign) and ast.unparse(unscale.target) == "sampleset.record.energy"
            and isinstance(unscale.value, ast.Name) and unscale.value.id == "scalar"
            and isinstance(unscale.op, (ast.Div, ast.Mult))):
        raise Bad(f"line {unscale.lineno}: expected `sampleset.record.energy /= scalar`: {seg(csrc, unscale)}")
    # statement-level hole: replace by an Expr(Name(HOLE)) so that the template's bare `__HOLE__` matches
    import copy
    body_cp = copy.deepcopy(body)
    body_cp[4].orelse[0] = ast.Expr(value=ast.Name(id=HOLE, ctx=ast.Load()))
    tr_cp = body_cp[2].orelse[1]
    expect_shape(body_cp, [tr_cp.handlers[0].body[0].value, tr_cp.orelse[0].value], SAMPLE_POLY_TEMPLATE,
                 "PolyScaleComposite.sample_poly", csrc)
    g["none_scalar"] = to_coq(none_e, csrc, {})
    g["ratio"] = to_coq(ratio_e, csrc, {"poly[v]": "scaled", "original[v]": "original"})
    g["unscale"] = "(e / scalar)" if isinstance(unscale.op, ast.Div) else "(e * scalar)"

    lines = [
        "(* GENERATED by translators/polyscale_rule.py from dimod/higherorder/polynomial.py and",
        "   dimod/reference/composites/higherordercomposites.py - do not edit *)",
        "From Coq Require Import List ZArith QArith Qcanon Bool Arith.",
        "From Dimod Require Import Base.Util Model.Poly.",
        "Open Scope Qc_scope.",
        "",
        "Definition gmax (a b : Qc) : Qc := if Qle_bool a b then b else a.",
        "Definition gmin (a b : Qc) : Qc := if Qle_bool a b then a else b.",
        "Definition gabs (a : Qc) : Qc := if Qle_bool 0 a then a else - a.",
        "",
        "(* BinaryPolynomial.normalize *)",
        f"Definition gen_parse_range (r : Qc) : Qc * Qc := ({g['parse_lo']}, {g['parse_hi']}).",
        f"Definition gen_init_linear : Qc := {g['init_l']}.",
        f"Definition gen_init_higher : Qc := {g['init_p']}.",
        f"Definition gen_is_linear (n : nat) : bool := {g['is_linear']}.",
        f"Definition gen_is_higher (n : nat) : bool := {g['is_higher']}.",
        f"Definition gen_upd_lmin (bias cur : Qc) : Qc := {g['upd_lmin']}.",
        f"Definition gen_upd_lmax (bias cur : Qc) : Qc := {g['upd_lmax']}.",
        f"Definition gen_upd_pmin (bias cur : Qc) : Qc := {g['upd_pmin']}.",
        f"Definition gen_upd_pmax (bias cur : Qc) : Qc := {g['upd_pmax']}.",
        "Definition gen_inv_scalar (lmin lmax pmin pmax : Qc) (lin_range poly_range : Qc * Qc) : Qc :=",
        f"  {g['inv']}.",
        f"Definition gen_scale_factor (inv : Qc) : Qc := {g['factor']}.",
        "",
        "(* PolyScaleComposite.sample_poly *)",
        f"Definition gen_ratio_scalar (scaled original : Qc) : Qc := {g['ratio']}.",
        f"Definition gen_no_term_scalar : Qc := {g['none_scalar']}.",
        f"Definition gen_unscale (e scalar : Qc) : Qc := {g['unscale']}.",
        "",
    ]
    os.makedirs(out, exist_ok=True)
    p = os.path.join(out, "Gen_PolyScale.v")
    new = "\n".join(lines)
    if not os.path.exists(p) or open(p).read() != new:
        open(p, "w").write(new)


if __name__ == "__main__":
    try:
        main()
    except Bad as e:
        print("polyscale_rule.py: " + str(e))
        sys.exit(1)
