#!/venv/bin/python
"""Fail-closed translator: the future-backed (deferred) sample-set machinery -> coq/theories/Gen/Gen_Deferred.v

A sampler may hand back a SampleSet built on a future (SampleSet.from_future, decorators.nonblocking_sample_method);
the Sampler.sample mixin then calls SampleSet.change_vartype(bqm.vartype, energy_offset=offset) on a sample set that
is not resolved yet, and the adjustment is deferred into a result hook.  Checked with ast, statement by statement:

  dimod/sampleset.py  SampleSet.change_vartype   `if not inplace:` branch  (copy, deep-copied info, recursive call)
                                                 `if not self.done():` branch (hook: resolve, recursive call;
                                                  `return self.from_future(self, hook)`)
                                                 -> WHICH of (vartype, energy_offset) each recursive call forwards
                      SampleSet.from_future      default result hook `return future.result()`, hook stored as given
                      SampleSet.resolve          `samples = self._result_hook(self._future)`, re-init from samples
                      SampleSet.done             no future / future without .done / future.done()
  dimod/decorators.py nonblocking_sample_method  `SampleSet.from_future(next(iterator), lambda _: next(iterator))`
  dimod/core/sampler.py Sampler.sample           last statement forwards bqm.vartype and the conversion's offset

Model/Deferred.v uses the generated constants; Proofs/DeferredFacts.v proves, with them, that resolving the
deferred sample set gives the same table as the immediate change_vartype.

usage: sampleset_deferred.py <build_dir> <out_dir>
"""
import ast
import hashlib
import os
import sys

PROPERTIES = ["C07"]


class Bad(Exception):
    pass


def u(n):
    return ast.unparse(n)


def strip_doc(body):
    return [s for s in body if not (isinstance(s, ast.Expr) and isinstance(s.value, ast.Constant)
                                    and isinstance(s.value.value, str))]


def load(build, rel):
    path = os.path.join(build, *rel.split("/"))
    src = open(path).read()
    print("INPUT %s %s" % (path, hashlib.sha256(src.encode()).hexdigest()))
    return ast.parse(src), rel


def method(tree, rel, cls, name):
    cs = [n for n in tree.body if isinstance(n, ast.ClassDef) and n.name == cls]
    if len(cs) != 1:
        raise Bad(f"{rel}: class {cls} not found")
    fs = [n for n in cs[0].body if isinstance(n, ast.FunctionDef) and n.name == name]
    if len(fs) != 1:
        raise Bad(f"{rel}: {cls}.{name} not found (or defined twice)")
    return fs[0]


def expect(rel, node, text, what):
    if u(node) != text:
        raise Bad(f"{rel} line {node.lineno}: {what}: expected `{text}`, found `{u(node)}`")


def forwarded(rel, call, recv, extra_kw):
    """call must be `<recv>.change_vartype(...)`; returns (forwards_vartype, forwards_offset).
    Accepted argument forms: positional Names in the order (vartype, energy_offset), keywords
    vartype=vartype / energy_offset=energy_offset, plus exactly the keywords of extra_kw."""
    if not (isinstance(call, ast.Call) and isinstance(call.func, ast.Attribute) and call.func.attr == "change_vartype"
            and u(call.func.value) == recv):
        raise Bad(f"{rel} line {call.lineno}: expected a call `{recv}.change_vartype(...)`, found `{u(call)}`")
    order = ["vartype", "energy_offset"]
    got = set()
    if len(call.args) > 2:
        raise Bad(f"{rel} line {call.lineno}: more than two positional arguments: `{u(call)}`")
    for i, a in enumerate(call.args):
        if not (isinstance(a, ast.Name) and a.id == order[i]):
            raise Bad(f"{rel} line {call.lineno}: positional argument {i} of `{u(call)}` is not the parameter `{order[i]}`")
        got.add(order[i])
    kws = {}
    for k in call.keywords:
        if k.arg is None:
            raise Bad(f"{rel} line {call.lineno}: ** argument in `{u(call)}`")
        kws[k.arg] = u(k.value)
    for name in order:
        if name in kws:
            if kws.pop(name) != name or name in got:
                raise Bad(f"{rel} line {call.lineno}: keyword `{name}` of `{u(call)}` is not the parameter itself")
            got.add(name)
    if kws != extra_kw:
        raise Bad(f"{rel} line {call.lineno}: keywords of `{u(call)}`: expected {extra_kw}, found {kws}")
    return "vartype" in got, "energy_offset" in got


def b(x):
    return "true" if x else "false"


def main():
    build, out = sys.argv[1], sys.argv[2]
    ss, rel = load(build, "dimod/sampleset.py")

    # ---- SampleSet.change_vartype: signature and the two prologue branches
    cv = method(ss, rel, "SampleSet", "change_vartype")
    expect(rel, cv.args, "self, vartype, energy_offset=0.0, inplace=True", "signature of change_vartype")
    body = strip_doc(cv.body)
    if len(body) < 3:
        raise Bad(f"{rel} line {cv.lineno}: change_vartype is too short")
    s_inpl, s_done = body[0], body[1]
    if not isinstance(s_inpl, ast.If) or u(s_inpl.test) != "not inplace" or s_inpl.orelse or len(s_inpl.body) != 3:
        raise Bad(f"{rel} line {s_inpl.lineno}: expected `if not inplace:` with three statements")
    expect(rel, s_inpl.body[0], "new = self.copy()", "copy branch")
    expect(rel, s_inpl.body[1], "new._info = copy.deepcopy(new.info)", "copy branch")
    if not isinstance(s_inpl.body[2], ast.Return):
        raise Bad(f"{rel} line {s_inpl.body[2].lineno}: copy branch must return the recursive call")
    copy_vt, copy_off = forwarded(rel, s_inpl.body[2].value, "new", {"inplace": "True"})
    if not isinstance(s_done, ast.If) or u(s_done.test) != "not self.done()" or s_done.orelse or len(s_done.body) != 2:
        raise Bad(f"{rel} line {s_done.lineno}: expected `if not self.done():` with a hook definition and a return")
    hook, ret = s_done.body
    if not (isinstance(hook, ast.FunctionDef) and hook.name == "hook" and u(hook.args) == "sampleset"
            and not hook.decorator_list):
        raise Bad(f"{rel} line {hook.lineno}: expected `def hook(sampleset):`")
    hb = strip_doc(hook.body)
    if len(hb) != 2 or not isinstance(hb[1], ast.Return):
        raise Bad(f"{rel} line {hook.lineno}: the hook must be `sampleset.resolve()` followed by one return")
    expect(rel, hb[0], "sampleset.resolve()", "deferred hook")
    hook_vt, hook_off = forwarded(rel, hb[1].value, "sampleset", {})
    expect(rel, ret, "return self.from_future(self, hook)", "deferred branch")
    # nothing after the prologue may look at the future again
    for s in body[2:]:
        for n in ast.walk(s):
            if isinstance(n, ast.Attribute) and n.attr in ("from_future", "_future", "_result_hook", "done"):
                raise Bad(f"{rel} line {n.lineno}: the resolved part of change_vartype touches `{n.attr}`")

    # ---- SampleSet.from_future
    ff = method(ss, rel, "SampleSet", "from_future")
    expect(rel, ff.args, "cls, future, result_hook=None", "signature of from_future")
    fb = strip_doc(ff.body)
    if [type(s).__name__ for s in fb] != ["Assign", "Assign", "If", "Assign", "Return"]:
        raise Bad(f"{rel} line {ff.lineno}: from_future: statement sequence changed")
    expect(rel, fb[0], "obj = cls.__new__(cls)", "from_future")
    expect(rel, fb[1], "obj._future = future", "from_future")
    iff = fb[2]
    expect(rel, iff.test, "result_hook is None", "from_future default hook test")
    if len(iff.body) != 1 or not isinstance(iff.body[0], ast.FunctionDef) or u(iff.body[0].args) != "future" \
            or [u(x) for x in strip_doc(iff.body[0].body)] != ["return future.result()"]:
        raise Bad(f"{rel} line {iff.lineno}: the default result hook must be `return future.result()`")
    if len(iff.orelse) != 1 or not isinstance(iff.orelse[0], ast.If) or u(iff.orelse[0].test) != "not callable(result_hook)" \
            or not isinstance(iff.orelse[0].body[0], ast.Raise) or iff.orelse[0].orelse:
        raise Bad(f"{rel} line {iff.lineno}: expected `elif not callable(result_hook): raise ...`")
    expect(rel, fb[3], "obj._result_hook = result_hook", "from_future")
    expect(rel, fb[4], "return obj", "from_future")

    # ---- SampleSet.resolve
    rs = method(ss, rel, "SampleSet", "resolve")
    rb = strip_doc(rs.body)
    if len(rb) != 1 or not isinstance(rb[0], ast.If) or u(rb[0].test) != "hasattr(self, '_future')" or rb[0].orelse:
        raise Bad(f"{rel} line {rs.lineno}: resolve: expected a single `if hasattr(self, '_future'):`")
    inner = rb[0].body
    if len(inner) != 5:
        raise Bad(f"{rel} line {rs.lineno}: resolve: expected five statements under the test, found {len(inner)}")
    expect(rel, inner[0], "samples = self._result_hook(self._future)", "resolve")
    expect(rel, inner[1], "self.__init__(samples.record, samples.variables, samples.info, samples.vartype)", "resolve")
    if not isinstance(inner[2], ast.If) or u(inner[2].test) != "hasattr(self._future, 'wait_id')":
        raise Bad(f"{rel} line {inner[2].lineno}: resolve: expected the wait_id caching test")
    expect(rel, inner[3], "del self._future", "resolve")
    expect(rel, inner[4], "del self._result_hook", "resolve")

    # ---- SampleSet.done
    dn = method(ss, rel, "SampleSet", "done")
    db = strip_doc(dn.body)
    if len(db) != 1:
        raise Bad(f"{rel} line {dn.lineno}: done: expected a single return")
    expect(rel, db[0], "return not hasattr(self, '_future') or not hasattr(self._future, 'done') or self._future.done()", "done")

    # ---- the properties that read a sample set resolve it first
    for prop in ("record", "variables", "vartype", "info"):
        cs = [n for n in ss.body if isinstance(n, ast.ClassDef) and n.name == "SampleSet"][0]
        getters = [n for n in cs.body if isinstance(n, ast.FunctionDef) and n.name == prop
                   and any(u(d) == "property" for d in n.decorator_list)]
        if len(getters) != 1:
            raise Bad(f"{rel}: property SampleSet.{prop} not found")
        pb = strip_doc(getters[0].body)
        if not pb or u(pb[0]) != "self.resolve()":
            raise Bad(f"{rel} line {getters[0].lineno}: SampleSet.{prop} does not start with self.resolve()")

    # ---- decorators.nonblocking_sample_method
    dec, drel = load(build, "dimod/decorators.py")
    fs = [n for n in dec.body if isinstance(n, ast.FunctionDef) and n.name == "nonblocking_sample_method"]
    if len(fs) != 1:
        raise Bad(f"{drel}: nonblocking_sample_method not found")
    inner = [n for n in strip_doc(fs[0].body) if isinstance(n, ast.FunctionDef)]
    if len(inner) != 1 or u(inner[0].args) != "*args, **kwargs":
        raise Bad(f"{drel} line {fs[0].lineno}: expected one inner function (*args, **kwargs)")
    ib = strip_doc(inner[0].body)
    if [u(x) for x in ib] != ["iterator = f(*args, **kwargs)",
                             "return SampleSet.from_future(next(iterator), lambda _: next(iterator))"]:
        raise Bad(f"{drel} line {inner[0].lineno}: nonblocking_sample_method's wrapper changed: {[u(x) for x in ib]}")

    # ---- Sampler.sample: the conversion's constant is handed to change_vartype
    sm, srel = load(build, "dimod/core/sampler.py")
    sp = method(sm, srel, "Sampler", "sample")
    sb = strip_doc(sp.body)
    expect(srel, sb[-1], "return sampleset.change_vartype(bqm.vartype, energy_offset=offset)", "last statement of Sampler.sample")
    # every branch binds `offset` from the conversion it calls and `sampleset` from the implemented method
    binds = [u(n) for n in ast.walk(sp) if isinstance(n, ast.Assign)]
    want = {"(h, J, offset) = bqm.to_ising()", "(Q, offset) = bqm.to_qubo()",
            "sampleset = self.sample_ising(h, J, **parameters)", "sampleset = self.sample_qubo(Q, **parameters)"}
    want2 = {"h, J, offset = bqm.to_ising()", "Q, offset = bqm.to_qubo()",
             "sampleset = self.sample_ising(h, J, **parameters)", "sampleset = self.sample_qubo(Q, **parameters)"}
    if set(binds) not in (want, want2):
        raise Bad(f"{srel} line {sp.lineno}: assignments of Sampler.sample changed: {sorted(set(binds))}")

    lines = ["(* GENERATED by translators/sampleset_deferred.py from dimod/sampleset.py, dimod/decorators.py,",
             "   dimod/core/sampler.py - do not edit *)", "",
             "(* SampleSet.change_vartype, branch `if not self.done()`: the hook's recursive call forwards ... *)",
             "Definition gen_cv_hook_forwards_vartype : bool := %s." % b(hook_vt),
             "Definition gen_cv_hook_forwards_offset : bool := %s." % b(hook_off),
             "(* SampleSet.change_vartype, branch `if not inplace`: the recursive call on the copy forwards ... *)",
             "Definition gen_cv_copy_forwards_vartype : bool := %s." % b(copy_vt),
             "Definition gen_cv_copy_forwards_offset : bool := %s." % b(copy_off),
             "(* SampleSet.done: a future object without a `done` attribute counts as done *)",
             "Definition gen_done_without_done_attr : bool := true.",
             "(* SampleSet.from_future: default hook is future.result(); resolve re-initialises from the hook's value *)",
             "Definition gen_default_hook_is_result : bool := true.",
             "(* Sampler.sample: `return sampleset.change_vartype(bqm.vartype, energy_offset=offset)` *)",
             "Definition gen_mixin_forwards_offset : bool := true.", ""]
    os.makedirs(out, exist_ok=True)
    p = os.path.join(out, "Gen_Deferred.v")
    new = "\n".join(lines)
    if not os.path.exists(p) or open(p).read() != new:
        open(p, "w").write(new)


if __name__ == "__main__":
    try:
        main()
    except Bad as e:
        print("sampleset_deferred.py: " + str(e))
        sys.exit(1)
