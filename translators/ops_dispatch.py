#!/venv/bin/python
"""Fail-closed translator: the operator methods of BinaryQuadraticModel, QuadraticModel and the CQM
expression views  ->  coq/theories/Gen/Gen_Ops.v

Every statement of __add__ __iadd__ __radd__ __sub__ __isub__ __rsub__ __mul__ __imul__ __rmul__
__truediv__ __itruediv__ __neg__ __pos__ __pow__ (where the class defines them) must match the small
grammar of Model/OpsLang.v; anything else is an error naming the source line.  The two product blocks
(the double loops of BQM.__mul__ and QM.__mul__) are compared, statement by statement, with reference
code; only the treatment of a pair of EQUAL labels is read off as a table vartype -> action.
Also read: which exception classes is_equal / is_almost_equal swallow is NOT this translator's business.

usage: ops_dispatch.py <build_dir> <out_dir>
"""
import ast
import copy
import hashlib
import os
import sys

METHODS = {"__add__": "MOp OAdd", "__iadd__": "MIOp OAdd", "__radd__": "MROp OAdd",
           "__sub__": "MOp OSub", "__isub__": "MIOp OSub", "__rsub__": "MROp OSub",
           "__mul__": "MOp OMul", "__imul__": "MIOp OMul", "__rmul__": "MROp OMul",
           "__truediv__": "MOp ODiv", "__itruediv__": "MIOp ODiv", "__rtruediv__": "MROp ODiv",
           "__neg__": "MNeg", "__pos__": "MPos", "__pow__": "MPow"}
BOP = {ast.Add: "OAdd", ast.Sub: "OSub", ast.Mult: "OMul", ast.Div: "ODiv"}
VARTYPES = ["BINARY", "SPIN", "INTEGER", "REAL"]


class Bad(Exception):
    pass


def seg(src, n):
    return (ast.get_source_segment(src, n) or "")[:120]


class Tr:
    def __init__(self, src, cls):
        self.src, self.cls = src, cls
        self.locals = {}

    def local(self, name):
        if name not in self.locals:
            self.locals[name] = len(self.locals)
        return self.locals[name]

    # ---- expressions
    def expr(self, n):
        if isinstance(n, ast.Name):
            if n.id == "self":
                return "ESelf"
            if n.id == "other":
                return "EOther"
            if n.id in self.locals:
                return f"(EVar {self.locals[n.id]})"
            raise Bad(f"line {n.lineno}: unknown name {n.id}")
        if isinstance(n, ast.Constant) and isinstance(n.value, int) and not isinstance(n.value, bool):
            return f"(EConst ({n.value})%Z)"
        if isinstance(n, ast.UnaryOp) and isinstance(n.op, ast.USub):
            if isinstance(n.operand, ast.Constant) and isinstance(n.operand.value, int):
                return f"(EConst ({-n.operand.value})%Z)"
            return f"(ENeg {self.expr(n.operand)})"
        if isinstance(n, ast.BinOp) and type(n.op) in BOP:
            return f"(EBin {BOP[type(n.op)]} {self.expr(n.left)} {self.expr(n.right)})"
        if isinstance(n, ast.Call):
            f = n.func
            if isinstance(f, ast.Attribute) and f.attr == "copy" and not n.args and not n.keywords:
                return f"(ECopy {self.expr(f.value)})"
            if (isinstance(f, ast.Attribute) and f.attr == "from_bqm" and isinstance(f.value, ast.Name)
                    and f.value.id == "QuadraticModel" and len(n.args) == 1 and not n.keywords):
                return f"(EFromBqm {self.expr(n.args[0])})"
            if (isinstance(f, ast.Attribute) and f.attr == "QuadraticModel" and isinstance(f.value, ast.Name)
                    and f.value.id == "dimod" and not n.args and not n.keywords):
                return "ENewQM"
        raise Bad(f"line {n.lineno}: expression outside the grammar: {seg(self.src, n)}")

    def target(self, n):
        if isinstance(n, ast.Name):
            if n.id == "self":
                return "ESelf"
            if n.id == "other":
                return "EOther"
            return f"(EVar {self.local(n.id)})"
        raise Bad(f"line {n.lineno}: assignment target outside the grammar: {seg(self.src, n)}")

    # ---- guards
    def guard(self, t):
        d = ast.dump(t)
        if isinstance(t, ast.Call) and isinstance(t.func, ast.Name) and t.func.id == "isinstance" and len(t.args) == 2 \
                and isinstance(t.args[0], ast.Name) and t.args[0].id == "other":
            k = ast.unparse(t.args[1])
            table = {"BinaryQuadraticModel": "GIsBqm", "QuadraticModel": "GIsQm", "Number": "GIsNum",
                     "numbers.Number": "GIsNum", "int": "GIsInt",
                     "(QuadraticViewsMixin, numbers.Number)": "GIsMixinOrNum"}
            if k in table:
                return table[k]
        u = ast.unparse(t)
        table = {"other.num_variables and other.vartype != self.vartype": "GVtMismatch",
                 "not (self.is_linear() and other.is_linear())": "GNotBothLinear",
                 "not self.is_linear()": "GSelfNotLinear",
                 "other != 2": "GOtherNe2",
                 "other is self": "GOtherIsSelf"}
        if u in table:
            return table[u]
        raise Bad(f"line {t.lineno}: condition outside the grammar: {u}")

    # ---- statements
    def block(self, stmts):
        out = []
        i = 0
        stmts = [s for s in stmts if not (isinstance(s, ast.Expr) and isinstance(s.value, ast.Constant))]
        while i < len(stmts):
            s = stmts[i]
            prod = self.product_block(stmts[i:])
            if prod is not None:
                out.append(prod)
                return out          # the product block ends with `return`
            out.append(self.stmt(s))
            i += 1
        return out

    def stmt(self, s):
        src = self.src
        if isinstance(s, ast.Return):
            if isinstance(s.value, ast.Name) and s.value.id == "NotImplemented":
                return "SReturnNotImplemented"
            return f"(SReturn {self.expr(s.value)})"
        if isinstance(s, ast.Raise):
            if isinstance(s.exc, ast.Call) and isinstance(s.exc.func, ast.Name) and s.exc.func.id in ("TypeError", "ValueError"):
                return "(SRaise XType)" if s.exc.func.id == "TypeError" else "(SRaise XValue)"
            raise Bad(f"line {s.lineno}: raise outside the grammar: {seg(src, s)}")
        if isinstance(s, ast.If):
            g = self.guard(s.test)
            th = self.block(s.body)
            el = self.block(s.orelse)
            if g == "GOtherIsSelf" and ast.unparse(s.body[0]) != "other = self.copy()":
                raise Bad(f"line {s.lineno}: `other is self` is only understood around `other = self.copy()`")
            return f"(SIf {g} {self.lst(th)} {self.lst(el)})"
        if isinstance(s, ast.Try):
            if s.handlers or s.orelse or not s.finalbody:
                raise Bad(f"line {s.lineno}: only try/finally is in the grammar")
            return f"(STryFinally {self.lst(self.block(s.body))} {self.lst(self.block(s.finalbody))})"
        if isinstance(s, ast.Assign) and len(s.targets) == 1:
            e = self.expr(s.value)
            return f"(SAssign {self.target(s.targets[0])} {e})"
        if isinstance(s, ast.AugAssign) and type(s.op) in BOP:
            if isinstance(s.target, ast.Attribute) and s.target.attr == "offset" and isinstance(s.op, (ast.Add, ast.Sub)):
                return f"(SOffset {self.expr(s.target.value)} {BOP[type(s.op)]} {self.expr(s.value)})"
            if isinstance(s.target, ast.Name):
                return f"(SAug {self.expr(s.target)} {BOP[type(s.op)]} {self.expr(s.value)})"
        if isinstance(s, ast.Expr) and isinstance(s.value, ast.Call) and isinstance(s.value.func, ast.Attribute) \
                and len(s.value.args) == 1 and not s.value.keywords:
            m = s.value.func.attr
            if m == "update":
                return f"(SUpdate {self.expr(s.value.func.value)} {self.expr(s.value.args[0])})"
            if m == "scale":
                return f"(SScale {self.expr(s.value.func.value)} {self.expr(s.value.args[0])})"
        raise Bad(f"line {s.lineno}: statement outside the grammar: {seg(src, s)}")

    @staticmethod
    def lst(xs):
        return "[" + "; ".join(xs) + "]"

    # ---- the product blocks
    def product_block(self, stmts):
        ref = REF_BQM if self.cls == "BinaryQuadraticModel" else REF_QM if self.cls == "QuadraticModel" else None
        if ref is None or not stmts:
            return None
        first = ast.unparse(stmts[0])
        if first != ast.unparse(ref[0]):
            return None
        if len(stmts) != len(ref):
            raise Bad(f"line {stmts[0].lineno}: the product block has {len(stmts)} statements, expected {len(ref)}")
        table = None
        for s, r in zip(stmts, ref):
            s2, r2 = copy.deepcopy(s), copy.deepcopy(r)
            for node, keep in ((s2, True), (r2, False)):
                for sub in ast.walk(node):
                    if isinstance(sub, ast.If) and ast.unparse(sub.test) == "u == v":
                        if keep:
                            table = self.same_table(sub.body)
                        sub.body = [ast.Pass()]
            if ast.unparse(s2) != ast.unparse(r2):
                raise Bad(f"line {s.lineno}: the product block differs from the reference: {seg(self.src, s)}")
        if table is None:
            raise Bad(f"line {stmts[0].lineno}: no `if u == v` found in the product block")
        cases = "".join(f" | {vt} => {table[vt]}" for vt in VARTYPES)
        ctor = "SProductBqm" if self.cls == "BinaryQuadraticModel" else "SProductQm"
        return f"({ctor} (fun vt => match vt with{cases} end))"

    def same_table(self, body):
        """body of `if u == v:` -> {vartype: action}"""
        act = {"add_linear": "ToLinear", "add_quadratic": "ToQuadratic"}

        def action(stmts, tgt):
            if len(stmts) != 1:
                raise Bad(f"line {stmts[0].lineno}: one statement per vartype expected")
            s = stmts[0]
            u = ast.unparse(s).replace(" ", "")
            if u == f"{tgt}.add_linear(u,ubias*vbias)":
                return "ToLinear"
            if u == f"{tgt}.offset+=ubias*vbias":
                return "ToOffset"
            if u == f"{tgt}.add_quadratic(u,v,ubias*vbias)":
                return "ToQuadratic"
            if isinstance(s, ast.Raise):
                return "Unexpected"
            raise Bad(f"line {s.lineno}: action outside the grammar: {seg(self.src, s)}")

        if self.cls == "BinaryQuadraticModel":
            if len(body) != 1 or not isinstance(body[0], ast.If) or ast.unparse(body[0].test) != "self.vartype is Vartype.BINARY":
                raise Bad(f"line {body[0].lineno}: BQM same-label case is expected to branch on self.vartype is Vartype.BINARY")
            a_bin, a_else = action(body[0].body, "bqm"), action(body[0].orelse, "bqm")
            # the table is keyed by self.vartype (the vartype of the whole BQM); `else` is everything not BINARY
            return {"BINARY": a_bin, "SPIN": a_else, "INTEGER": a_else, "REAL": a_else}
        if len(body) != 2 or ast.unparse(body[0]) != "u_vartype = self.vartype(u)" or not isinstance(body[1], ast.If):
            raise Bad(f"line {body[0].lineno}: QM same-label case is expected to start with u_vartype = self.vartype(u)")
        table = {}
        node = body[1]
        while True:
            names = []
            t = node.test
            parts = t.values if isinstance(t, ast.BoolOp) and isinstance(t.op, ast.Or) else [t]
            for p in parts:
                u = ast.unparse(p)
                if not u.startswith("u_vartype is Vartype."):
                    raise Bad(f"line {p.lineno}: condition outside the grammar: {u}")
                names.append(u.rsplit(".", 1)[1])
            a = action(node.body, "new")
            for nm in names:
                if nm not in VARTYPES or nm in table:
                    raise Bad(f"line {t.lineno}: unexpected vartype {nm}")
                table[nm] = a
            if len(node.orelse) == 1 and isinstance(node.orelse[0], ast.If):
                node = node.orelse[0]
                continue
            if node.orelse and action(node.orelse, "new") != "Unexpected":
                raise Bad(f"line {node.lineno}: the final else is expected to raise")
            break
        for vt in VARTYPES:
            table.setdefault(vt, "Unexpected")
        return table


REF_BQM_SRC = '''
bqm = self.empty(self.vartype)
self_offset = self.offset
other_offset = other.offset
for u, ubias in self.linear.items():
    for v, vbias in other.linear.items():
        if u == v:
            pass
        else:
            bqm.add_quadratic(u, v, ubias * vbias)
    bqm.add_linear(u, ubias * other_offset)
for v, bias in other.linear.items():
    bqm.add_linear(v, bias * self_offset)
bqm.offset += self_offset * other_offset
return bqm
'''
REF_QM_SRC = '''
new = type(self)(dtype=self.dtype)
for v in self.variables:
    new.add_variable(self.vartype(v), v, lower_bound=self.lower_bound(v), upper_bound=self.upper_bound(v))
for v in other.variables:
    new.add_variable(other.vartype(v), v, lower_bound=other.lower_bound(v), upper_bound=other.upper_bound(v))
self_offset = self.offset
other_offset = other.offset
for u, ubias in self.linear.items():
    for v, vbias in other.linear.items():
        if u == v:
            pass
        else:
            new.add_quadratic(u, v, ubias * vbias)
    new.add_linear(u, ubias * other_offset)
for v, bias in other.linear.items():
    new.add_linear(v, bias * self_offset)
new.offset += self_offset * other_offset
return new
'''
REF_BQM = ast.parse(REF_BQM_SRC).body
REF_QM = ast.parse(REF_QM_SRC).body

SOURCES = [("BinaryQuadraticModel", "KBqm", "dimod/binary/binary_quadratic_model.py"),
           ("QuadraticModel", "KQm", "dimod/quadratic/quadratic_model.py"),
           ("_ExpressionMixin", "KView", "dimod/constrained/expression.py")]


def update_checks(build):
    """cyqm update(): the three compatibility tests and their exception class, in source order"""
    import re
    path = os.path.join(build, "dimod/quadratic/cyqm/cyqm_template.pyx.pxi")
    src = open(path).read()
    print("INPUT %s %s" % (path, hashlib.sha256(src.encode()).hexdigest()))
    m = re.search(r"def update\(self, cyBQM_and_QM other\):(.*?)(?:\n    def |\n\S|\Z)", src, re.S)
    if not m:
        raise Bad("cyqm update() not found")
    body = m.group(1)
    pat = re.compile(r"if self\.cppqm\.(vartype|lower_bound|upper_bound)\(mapping\[vi\]\) != other\.data\(\)\.\1\(vi\):\s*\n\s*raise (\w+)\(f\"conflicting")
    found = pat.findall(body)
    if [f[0] for f in found] != ["vartype", "lower_bound", "upper_bound"]:
        raise Bad(f"cyqm update(): expected the tests vartype, lower_bound, upper_bound in that order, found {found}")
    if body.count("raise ") != 3:
        raise Bad("cyqm update(): unexpected number of raise statements")
    first_add = body.find("self.add_variable(")
    if first_add < 0 or any(body.find("raise", first_add) >= 0 for _ in [0]):
        raise Bad("cyqm update(): a raise after the first modification of the receiver")
    return found


REF_FROM_BQM_SRC = """
obj = cls.__new__(cls)
try:
    obj.data = obj._DATA_CLASSES[np.dtype(bqm.dtype)].from_cybqm(bqm.data)
except (TypeError, KeyError):
    obj = cls()
else:
    return obj
for v in bqm.variables:
    obj.set_linear(obj.add_variable(bqm.vartype, v), bqm.get_linear(v))
for u, v, bias in bqm.iter_quadratic():
    obj.set_quadratic(u, v, bias)
obj.offset = bqm.offset
return obj
"""

# from_cybqm, line by line (comments and blank lines dropped): what each line contributes
FROM_CYBQM_LINES = [
    ("cdef cyQM_template qm = cls()", None),
    ("qm.offset = bqm.offset", "FbOffset"),
    ("cdef Py_ssize_t vi", None),
    ("cdef cppVartype vartype = bqm.cppbqm.vartype()", "FbVartypeOfBqm"),
    ("for vi in range(bqm.num_variables()):", None),
    ("qm.cppqm.add_variable(vartype)", "FbAddVariable"),
    ("qm.cppqm.set_linear(vi, bqm.cppbqm.linear(vi))", "FbLinear"),
    ("qm.variables._extend(bqm.variables)", "FbLabels"),
    ("it = bqm.cppbqm.cbegin_quadratic()", None),
    ("while it != bqm.cppbqm.cend_quadratic():", None),
    ("qm.cppqm.set_quadratic(deref(it).u, deref(it).v, deref(it).bias)", "FbQuadratic"),
    ("inc(it)", None),
    ("return qm", None),
]


def from_bqm_steps(build):
    """QuadraticModel.from_bqm (python, compared with reference code) and cyqm from_cybqm (every line must be
    one of the known lines, in the known order; a missing line is allowed and shows in the emitted list, so the
    Coq proof that from_bqm keeps offset, variables, labels, linear and quadratic biases fails)"""
    path = os.path.join(build, "dimod/quadratic/quadratic_model.py")
    src = open(path).read()
    tree = ast.parse(src)
    cl = [n for n in tree.body if isinstance(n, ast.ClassDef) and n.name == "QuadraticModel"]
    fns = [n for n in cl[0].body if isinstance(n, ast.FunctionDef) and n.name == "from_bqm"] if cl else []
    if len(fns) != 1:
        raise Bad("QuadraticModel.from_bqm not found")
    fn = fns[0]
    if [ast.unparse(d) for d in fn.decorator_list] != ["classmethod"] or [a.arg for a in fn.args.args] != ["cls", "bqm"]:
        raise Bad(f"line {fn.lineno}: from_bqm is expected to be a classmethod (cls, bqm)")
    body = [s for s in fn.body if not (isinstance(s, ast.Expr) and isinstance(s.value, ast.Constant))]
    ref = ast.parse(REF_FROM_BQM_SRC).body
    if len(body) != len(ref):
        raise Bad(f"line {fn.lineno}: from_bqm has {len(body)} statements, expected {len(ref)}")
    for s, r in zip(body, ref):
        if ast.unparse(s) != ast.unparse(r):
            raise Bad(f"line {s.lineno}: from_bqm differs from the reference: {seg(src, s)}")
    # the cython constructor
    path = os.path.join(build, "dimod/quadratic/cyqm/cyqm_template.pyx.pxi")
    lines = open(path).read().split("\n")
    start = [i for i, l in enumerate(lines) if l.strip() == "def from_cybqm(cls, cyBQM bqm):"]
    if len(start) != 1 or lines[start[0] - 1].strip() != "@classmethod":
        raise Bad("cyqm from_cybqm(cls, cyBQM bqm) classmethod not found")
    got = []
    for j in range(start[0] + 1, len(lines)):
        l = lines[j]
        if l.strip() and not l.startswith("        "):
            break                                   # back at method level
        t = l.split("#", 1)[0].strip()
        if t:
            got.append((j + 1, t))
    known = [k for k, _ in FROM_CYBQM_LINES]
    pos = -1
    steps = []
    for ln, t in got:
        if t not in known:
            raise Bad(f"cyqm_template.pyx.pxi line {ln}: from_cybqm line outside the grammar: {t}")
        k = known.index(t)
        if k <= pos:
            raise Bad(f"cyqm_template.pyx.pxi line {ln}: from_cybqm line out of order or repeated: {t}")
        pos = k
        if FROM_CYBQM_LINES[k][1]:
            steps.append(FROM_CYBQM_LINES[k][1])
    for need in ("cdef cyQM_template qm = cls()", "return qm"):
        if need not in [t for _, t in got]:
            raise Bad(f"cyqm from_cybqm: `{need}` missing")
    return steps


def main():
    build, out = sys.argv[1], sys.argv[2]
    lines = ["(* GENERATED by translators/ops_dispatch.py from binary_quadratic_model.py, quadratic_model.py,",
             "   constrained/expression.py and cyqm_template.pyx.pxi - do not edit *)",
             "From Coq Require Import List ZArith.", "From Dimod Require Import Model.Poly Model.OpsLang.",
             "Import ListNotations.", ""]
    defs = []
    for cls, kc, rel in SOURCES:
        path = os.path.join(build, rel)
        src = open(path).read()
        print("INPUT %s %s" % (path, hashlib.sha256(src.encode()).hexdigest()))
        tree = ast.parse(src)
        cl = [n for n in tree.body if isinstance(n, ast.ClassDef) and n.name == cls]
        if not cl:
            raise Bad(f"class {cls} not found in {rel}")
        fns = {n.name: n for n in cl[0].body if isinstance(n, ast.FunctionDef)}
        # every arithmetic dunder the class defines must be one we translate
        for name in fns:
            if name.startswith("__") and name.endswith("__") and name[2:-2].lstrip("ri") in (
                    "add", "sub", "mul", "truediv", "floordiv", "mod", "matmul", "pow", "neg", "pos", "abs", "invert") \
                    and name not in METHODS:
                raise Bad(f"{cls}.{name}: an operator method this translator does not know")
        for name, mn in METHODS.items():
            if name not in fns:
                continue
            fn = fns[name]
            if fn.decorator_list:
                raise Bad(f"line {fn.lineno}: {cls}.{name} is decorated")
            argn = [a.arg for a in fn.args.args]
            if argn not in (["self", "other"], ["self"]):
                raise Bad(f"line {fn.lineno}: {cls}.{name} has unexpected parameters {argn}")
            tr = Tr(src, cls)
            body = tr.block(fn.body)
            ident = f"gen_{kc}_{name.strip('_')}"
            lines.append(f"(* {cls}.{name}, {rel}:{fn.lineno} *)")
            lines.append(f"Definition {ident} : list stmt :=\n  {Tr.lst(body)}.")
            lines.append("")
            defs.append((kc, mn, ident))
    lines.append("Definition gen_method (k : kcls) (m : mname) : option (list stmt) :=")
    lines.append("  match k, m with")
    for kc, mn, ident in defs:
        lines.append(f"  | {kc}, {mn} => Some {ident}")
    lines.append("  | _, _ => None")
    lines.append("  end.")
    lines.append("")
    checks = update_checks(build)
    exn = {"ValueError": "XValue", "TypeError": "XType"}
    lines.append("(* cyqm update(): compatibility tests on a shared label, in source order, each with its exception;")
    lines.append("   all of them precede the first modification of the receiver *)")
    lines.append("Inductive upd_check := CkVartype | CkLower | CkUpper.")
    names = {"vartype": "CkVartype", "lower_bound": "CkLower", "upper_bound": "CkUpper"}
    lines.append("Definition gen_update_checks : list (upd_check * exnk) :=")
    lines.append("  [" + "; ".join(f"({names[f]}, {exn[e]})" for f, e in checks) + "].")
    lines.append("")
    steps = from_bqm_steps(build)
    lines.append("(* QuadraticModel.from_bqm -> cyqm from_cybqm(): what the constructor copies from the BQM, in source order *)")
    lines.append("Definition gen_from_bqm : list fb_step :=")
    lines.append("  [" + "; ".join(steps) + "].")
    lines.append("")
    os.makedirs(out, exist_ok=True)
    with open(os.path.join(out, "Gen_Ops.v"), "w") as fh:
        fh.write("\n".join(lines))


if __name__ == "__main__":
    try:
        main()
    except Bad as e:
        print("ops_dispatch: " + str(e))
        sys.exit(1)
