#!/venv/bin/python
"""Fail-closed translator: the CQM constructions of dimod/generators/knapsack.py, multi_knapsack.py and
binpacking.py -> coq/theories/Gen/Gen_Knap.v

usage: knap_constructions.py <build_dir> <out_dir>

For knapsack, quadratic_knapsack, multi_knapsack, quadratic_multi_knapsack and bin_packing the body is read
statement by statement.  Understood statements:

  preamble      X = np.asarray(X) ; shape / symmetry guards that only raise ; model = ConstrainedQuadraticModel() ;
                obj = BinaryQuadraticModel(vartype='BINARY' | BINARY) ; num_items = len(weights) ; max_num_bins = num_items ;
                model.set_objective(obj) ; return model
  variables     x = [obj.add_variable(f'x_{i}') for i in range(N)]
                x = {(i, j): obj|model.add_variable([BINARY,] f'x_{i}_{j}') for i in range(N) for j in range(B)}
                y = {j: obj.add_variable(f'y_{j}') for j in range(B)}
                (families are numbered in creation order, row major: that is the numbering of Model/Knap.v)
  objective     for i, value in enumerate(values): [for j in range(B):] obj.set_linear(x[..], -value)
                for j in range(B): obj.set_linear(y[j], <int>)
                for i, profit in np.ndenumerate(profits): if i[0] < i[1]: [for j in range(B):]
                    obj.set_quadratic(x[i[0](, j)], x[i[1](, j)], -profit)
  constraints   [constraint = <row> ;] model.add_constraint(<row> | constraint, sense='<=' | '==', label=...)
                possibly inside `for i in range(N):` or `for j, capacity in enumerate(capacities):`, with
                <row> = [(x[..], <coef>) for <v> in range(N) | for <v>, weight in enumerate(weights)] + [<tail>],
                <coef> = <int> | weight | weights[i],  <tail> = (-<int>,) | (-capacity,) | (y[j], -capacity)

and each is emitted as the corresponding piece of a Coq `lcqm` (objective polynomial + list of linear
constraints `sum + const (sense) 0`).  Proofs/KnapGen.v proves the emitted constructions equal to the models
the C17 theorems are about.  Anything else is an error naming the source line.
"""
import ast
import hashlib
import os
import sys

FUNCS = [("knapsack.py", "knapsack", ["values", "weights", "capacity"]),
         ("knapsack.py", "quadratic_knapsack", ["values", "weights", "profits", "capacity"]),
         ("multi_knapsack.py", "multi_knapsack", ["values", "weights", "capacities"]),
         ("multi_knapsack.py", "quadratic_multi_knapsack", ["values", "weights", "profits", "capacities"]),
         ("binpacking.py", "bin_packing", ["weights", "capacity"])]
COQ_TYPES = {"values": "list Qc", "weights": "list Qc", "capacities": "list Qc", "capacity": "Qc", "profits": "matrix"}


class Bad(Exception):
    def __init__(self, node, why):
        self.node, self.why = node, why


def dump(n):
    return ast.dump(n)


def same(node, text):
    return dump(node) == dump(ast.parse(text).body[0])


def same_expr(node, text):
    return dump(node) == dump(ast.parse(text, mode="eval").body)


class Fn:
    def __init__(self, fn, params):
        self.fn, self.params = fn, params
        self.sizes = {}            # python name -> Coq nat expression
        self.families = {}         # name -> (dims as Coq nat exprs, base as Coq nat expr)
        self.total = "0"
        self.lin, self.quad, self.cons = [], [], []
        self.pending_row = None

    # ---- sizes
    def size(self, n):
        if same_expr(n, "values.shape[0]"):
            return "(length values)"
        if same_expr(n, "profits.shape[0]") and "profits" in self.params:
            return "(length profits)"
        if same_expr(n, "len(capacities)") and "capacities" in self.params:
            return "(length capacities)"
        if same_expr(n, "len(weights)"):
            return "(length weights)"
        if isinstance(n, ast.Name) and n.id in self.sizes:
            return self.sizes[n.id]
        raise Bad(n, "size expression not understood")

    def range_of(self, gen_iter):
        if isinstance(gen_iter, ast.Call) and isinstance(gen_iter.func, ast.Name) and gen_iter.func.id == "range" \
                and len(gen_iter.args) == 1 and not gen_iter.keywords:
            return self.size(gen_iter.args[0])
        raise Bad(gen_iter, "range(<size>) expected")

    # ---- variables
    def index(self, sub, env):
        """x[i] / x[(i, j)] / x[i[0], j] -> Coq nat expression; env maps python index expressions to Coq names"""
        if not (isinstance(sub, ast.Subscript) and isinstance(sub.value, ast.Name) and sub.value.id in self.families):
            raise Bad(sub, "indexed variable family expected")
        dims, base = self.families[sub.value.id]
        idx = sub.slice
        elts = list(idx.elts) if isinstance(idx, ast.Tuple) else [idx]
        if len(elts) != len(dims):
            raise Bad(sub, "wrong number of indices")
        names = []
        for e in elts:
            key = dump(e)
            if key not in env:
                raise Bad(e, "index is not a loop variable in scope")
            names.append(env[key])
        if len(dims) == 1:
            return f"({base} + {names[0]})%nat"
        return f"({base} + {names[0]} * {dims[1]} + {names[1]})%nat"

    def add_family(self, st):
        tgt = st.targets[0].id
        v = st.value
        if isinstance(v, ast.ListComp) and len(v.generators) == 1:
            g = v.generators[0]
            ok = (isinstance(g.target, ast.Name) and not g.ifs and same_expr(v.elt, f"obj.add_variable(f'{tgt}_{{{g.target.id}}}')"))
            if not ok:
                raise Bad(st, "variable family not understood")
            dims = [self.range_of(g.iter)]
        elif isinstance(v, ast.DictComp) and len(v.generators) == 2:
            g1, g2 = v.generators
            a, b = g1.target.id, g2.target.id
            ok = (not g1.ifs and not g2.ifs and same_expr(v.key, f"({a}, {b})")
                  and (same_expr(v.value, f"obj.add_variable(f'{tgt}_{{{a}}}_{{{b}}}')")
                       or same_expr(v.value, f"model.add_variable(BINARY, f'{tgt}_{{{a}}}_{{{b}}}')")))
            if not ok:
                raise Bad(st, "variable family not understood")
            dims = [self.range_of(g1.iter), self.range_of(g2.iter)]
        elif isinstance(v, ast.DictComp) and len(v.generators) == 1:
            g = v.generators[0]
            a = g.target.id
            ok = (not g.ifs and same_expr(v.key, a) and same_expr(v.value, f"obj.add_variable(f'{tgt}_{{{a}}}')"))
            if not ok:
                raise Bad(st, "variable family not understood")
            dims = [self.range_of(g.iter)]
        else:
            raise Bad(st, "variable family not understood")
        if tgt in self.families:
            raise Bad(st, "family defined twice")
        self.families[tgt] = (dims, self.total)
        count = dims[0] if len(dims) == 1 else f"{dims[0]} * {dims[1]}"
        self.total = count if self.total == "0" else f"{self.total} + {count}"

    # ---- objective
    def objective_loop(self, st):
        # for i, value in enumerate(values): ...
        if isinstance(st.target, ast.Tuple) and same_expr(st.iter, "enumerate(values)") \
                and [e.id for e in st.target.elts] == [st.target.elts[0].id, "value"]:
            i = st.target.elts[0].id
            n = "(length values)"
            if len(st.body) != 1:
                raise Bad(st, "single statement expected in the loop")
            inner = st.body[0]
            if isinstance(inner, ast.For):
                j = inner.target.id if isinstance(inner.target, ast.Name) else None
                if j is None or len(inner.body) != 1 or inner.orelse:
                    raise Bad(inner, "inner loop not understood")
                b = self.range_of(inner.iter)
                call = self.set_linear(inner.body[0])
                idx = self.index(call.args[0], {dump(ast.Name(id=i, ctx=ast.Load())): i, dump(ast.Name(id=j, ctx=ast.Load())): j})
                if not same_expr(call.args[1], "-value"):
                    raise Bad(inner.body[0], "`-value` expected")
                self.lin.append(f"flat_map (fun {i} => lin_of {b} (fun {j} => {idx}) (fun _ => - wt values {i})) (seq 0 {n})")
            else:
                call = self.set_linear(inner)
                idx = self.index(call.args[0], {dump(ast.Name(id=i, ctx=ast.Load())): i})
                if not same_expr(call.args[1], "-value"):
                    raise Bad(inner, "`-value` expected")
                self.lin.append(f"lin_of {n} (fun {i} => {idx}) (fun {i} => - wt values {i})")
            return
        # for j in range(B): obj.set_linear(y[j], <int>)
        if isinstance(st.target, ast.Name) and len(st.body) == 1 and isinstance(st.body[0], ast.Expr):
            j = st.target.id
            b = self.range_of(st.iter)
            call = self.set_linear(st.body[0])
            idx = self.index(call.args[0], {dump(ast.Name(id=j, ctx=ast.Load())): j})
            c = call.args[1]
            if not (isinstance(c, ast.Constant) and type(c.value) is int):
                raise Bad(c, "integer literal expected")
            self.lin.append(f"lin_of {b} (fun {j} => {idx}) (fun _ => {coq_int(c.value)})")
            return
        raise Bad(st, "objective loop not understood")

    def set_linear(self, st):
        if isinstance(st, ast.Expr) and isinstance(st.value, ast.Call) and same_expr(st.value.func, "obj.set_linear") \
                and len(st.value.args) == 2 and not st.value.keywords:
            return st.value
        raise Bad(st, "obj.set_linear(<variable>, <bias>) expected")

    def profit_loop(self, st):
        ok = (isinstance(st.target, ast.Tuple) and [getattr(e, "id", None) for e in st.target.elts] == ["i", "profit"]
              and same_expr(st.iter, "np.ndenumerate(profits)") and len(st.body) == 1 and isinstance(st.body[0], ast.If)
              and same_expr(st.body[0].test, "i[0] < i[1]") and not st.body[0].orelse and len(st.body[0].body) == 1)
        if not ok:
            raise Bad(st, "profit loop not understood")
        n = "(length profits)"
        inner = st.body[0].body[0]
        env = {dump(ast.parse("i[0]", mode="eval").body): "i0", dump(ast.parse("i[1]", mode="eval").body): "i1"}
        if isinstance(inner, ast.For):
            j = inner.target.id
            b = self.range_of(inner.iter)
            env[dump(ast.Name(id=j, ctx=ast.Load()))] = j
            if len(inner.body) != 1:
                raise Bad(inner, "inner loop not understood")
            call = self.set_quadratic(inner.body[0])
            u, v = self.index(call.args[0], env), self.index(call.args[1], env)
            body = f"map (fun {j} => ({u}, {v}, - mget profits i0 i1)) (seq 0 {b})"
        else:
            call = self.set_quadratic(inner)
            u, v = self.index(call.args[0], env), self.index(call.args[1], env)
            body = f"[({u}, {v}, - mget profits i0 i1)]"
        self.quad.append(f"flat_map (fun i0 => flat_map (fun i1 => if (i0 <? i1)%nat then {body} else []) (seq 0 {n})) (seq 0 {n})")

    def set_quadratic(self, st):
        if isinstance(st, ast.Expr) and isinstance(st.value, ast.Call) and same_expr(st.value.func, "obj.set_quadratic") \
                and len(st.value.args) == 3 and not st.value.keywords and same_expr(st.value.args[2], "-profit"):
            return st.value
        raise Bad(st, "obj.set_quadratic(<variable>, <variable>, -profit) expected")

    # ---- constraints
    def row(self, n, env, cap_name):
        """[(x[..], coef) for ...] + [tail] -> (lin terms, const) as Coq"""
        if not (isinstance(n, ast.BinOp) and isinstance(n.op, ast.Add) and isinstance(n.left, ast.ListComp)
                and isinstance(n.right, ast.List) and len(n.right.elts) == 1 and len(n.left.generators) == 1):
            raise Bad(n, "constraint row not understood")
        comp, tail = n.left, n.right.elts[0]
        g = comp.generators[0]
        if g.ifs:
            raise Bad(comp, "filtered comprehension")
        if not (isinstance(comp.elt, ast.Tuple) and len(comp.elt.elts) == 2):
            raise Bad(comp, "(variable, coefficient) pairs expected")
        env = dict(env)
        if isinstance(g.target, ast.Name):
            v = g.target.id
            size = self.range_of(g.iter)
            env[dump(ast.Name(id=v, ctx=ast.Load()))] = v
            weight_ok = False
        elif isinstance(g.target, ast.Tuple) and same_expr(g.iter, "enumerate(weights)") \
                and [getattr(e, "id", None) for e in g.target.elts][1:] == ["weight"]:
            v = g.target.elts[0].id
            size = "(length weights)"
            env[dump(ast.Name(id=v, ctx=ast.Load()))] = v
            weight_ok = True
        else:
            raise Bad(comp, "comprehension not understood")
        idx = self.index(comp.elt.elts[0], env)
        c = comp.elt.elts[1]
        if isinstance(c, ast.Constant) and type(c.value) is int:
            coef = f"(fun _ => {coq_int(c.value)})"
        elif weight_ok and isinstance(c, ast.Name) and c.id == "weight":
            coef = f"(fun {v} => wt weights {v})"
        elif same_expr(c, f"weights[{v}]") and size == self.sizes.get("num_items", "?"):
            coef = f"(fun {v} => wt weights {v})"
        else:
            raise Bad(c, "coefficient not understood")
        lin = f"lin_of {size} (fun {v} => {idx}) {coef}"
        # tail
        if isinstance(tail, ast.Tuple) and len(tail.elts) == 1:
            t = tail.elts[0]
            if isinstance(t, ast.UnaryOp) and isinstance(t.op, ast.USub):
                if isinstance(t.operand, ast.Constant) and type(t.operand.value) is int:
                    return lin, f"(- ({coq_int(t.operand.value)}))"
                if isinstance(t.operand, ast.Name) and t.operand.id == "capacity" and cap_name is not None:
                    return lin, f"(- {cap_name})"
            raise Bad(tail, "constant term not understood")
        if isinstance(tail, ast.Tuple) and len(tail.elts) == 2 and same_expr(tail.elts[1], "-capacity") \
                and "capacity" in self.params:
            yidx = self.index(tail.elts[0], env)
            return f"{lin} ++ [({yidx}, - capacity)]", "0"
        raise Bad(tail, "constant term not understood")

    def add_constraint(self, st, env, cap_name, pending=None):
        if not (isinstance(st, ast.Expr) and isinstance(st.value, ast.Call) and same_expr(st.value.func, "model.add_constraint")
                and len(st.value.args) == 1 and [k.arg for k in st.value.keywords] == ["sense", "label"]):
            raise Bad(st, "model.add_constraint(<row>, sense=..., label=...) expected")
        sense = st.value.keywords[0].value
        if not (isinstance(sense, ast.Constant) and sense.value in ("<=", "==", ">=")):
            raise Bad(sense, "sense literal expected")
        arg = st.value.args[0]
        if isinstance(arg, ast.Name) and arg.id == "constraint" and pending is not None:
            lin, const = pending
        else:
            lin, const = self.row(arg, env, cap_name)
        s = {"<=": "SLe", "==": "SEq", ">=": "SGe"}[sense.value]
        return f"mkLC ({lin}) {const} {s}"

    def constraint_loop(self, st):
        if len(st.body) != 1 or st.orelse:
            raise Bad(st, "single add_constraint expected in the loop")
        if isinstance(st.target, ast.Name):
            v = st.target.id
            size = self.range_of(st.iter)
            env = {dump(ast.Name(id=v, ctx=ast.Load())): v}
            cap = "capacity" if "capacity" in self.params else None
        elif isinstance(st.target, ast.Tuple) and same_expr(st.iter, "enumerate(capacities)") \
                and [getattr(e, "id", None) for e in st.target.elts][1:] == ["capacity"]:
            v = st.target.elts[0].id
            size = "(length capacities)"
            env = {dump(ast.Name(id=v, ctx=ast.Load())): v}
            cap = f"wt capacities {v}"
        else:
            raise Bad(st, "constraint loop not understood")
        c = self.add_constraint(st.body[0], env, cap)
        self.cons.append(f"map (fun {v} => {c}) (seq 0 {size})")

    # ---- driver
    def run(self):
        body = self.fn.body
        if body and isinstance(body[0], ast.Expr) and isinstance(body[0].value, ast.Constant) and isinstance(body[0].value.value, str):
            body = body[1:]
        seen_model = seen_obj = set_obj = returned = False
        for st in body:
            if returned:
                raise Bad(st, "statement after return")
            if any(same(st, f"{p} = np.asarray({p})") for p in self.params):
                continue
            if isinstance(st, ast.If) and not st.orelse and len(st.body) == 1 and isinstance(st.body[0], ast.Raise) \
                    and not any(isinstance(x, (ast.Call,)) and isinstance(getattr(x, "func", None), ast.Attribute)
                                and x.func.attr.startswith(("add_", "set_")) for x in ast.walk(st.test)):
                continue            # a guard that only raises
            if same(st, "model = ConstrainedQuadraticModel()"):
                seen_model = True
                continue
            if same(st, "obj = BinaryQuadraticModel(vartype='BINARY')") or same(st, "obj = BinaryQuadraticModel(BINARY)"):
                seen_obj = True
                continue
            if same(st, "num_items = len(weights)"):
                self.sizes["num_items"] = "(length weights)"
                continue
            if same(st, "max_num_bins = num_items") and "num_items" in self.sizes:
                self.sizes["max_num_bins"] = self.sizes["num_items"]
                continue
            if same(st, "model.set_objective(obj)"):
                set_obj = True
                continue
            if same(st, "return model"):
                returned = True
                continue
            if isinstance(st, ast.Assign) and len(st.targets) == 1 and isinstance(st.targets[0], ast.Name):
                if st.targets[0].id in ("x", "y") and seen_obj:
                    self.add_family(st)
                    continue
                if st.targets[0].id == "constraint":
                    self.pending_row = self.row(st.value, {}, "capacity" if "capacity" in self.params else None)
                    continue
            if isinstance(st, ast.For) and not st.orelse:
                txt = dump(st)
                if "set_quadratic" in txt:
                    self.profit_loop(st)
                elif "set_linear" in txt:
                    if set_obj:
                        raise Bad(st, "objective edited after set_objective")
                    self.objective_loop(st)
                elif "add_constraint" in txt:
                    self.constraint_loop(st)
                else:
                    raise Bad(st, "loop not understood")
                continue
            if isinstance(st, ast.Expr) and "add_constraint" in dump(st):
                self.cons.append("[" + self.add_constraint(st, {}, "capacity" if "capacity" in self.params else None,
                                                           self.pending_row) + "]")
                continue
            raise Bad(st, "statement not understood")
        if not (seen_model and seen_obj and set_obj and returned):
            raise Bad(self.fn, "model / objective / set_objective / return missing")

    def coq(self, name):
        args = " ".join(f"({p} : {COQ_TYPES[p]})" for p in self.params)
        lin = " ++ ".join(f"({x})" for x in self.lin) if self.lin else "[]"
        quad = " ++ ".join(f"({x})" for x in self.quad) if self.quad else "[]"
        cons = " ++ ".join(f"({x})" for x in self.cons) if self.cons else "[]"
        return (f"Definition gen_{name} {args} : lcqm :=\n  mkLCQM (mkPoly 0 ({lin}) ({quad}))\n    ({cons}).\n"
                f"Definition gen_{name}_nvars {args} : nat := ({self.total})%nat.\n")


def coq_int(k):
    if k == 1:
        return "1"
    if k == 0:
        return "0"
    return f"(qc ({k}) 1)"


def main():
    build, out = sys.argv[1], sys.argv[2]
    pieces = []
    digest = hashlib.sha256()
    cache = {}
    for fname, func, params in FUNCS:
        src = os.path.join(build, "dimod", "generators", fname)
        if src not in cache:
            data = open(src, "rb").read()
            print("INPUT", src, hashlib.sha256(data).hexdigest())
            digest.update(data)
            cache[src] = (data.decode("utf-8"), ast.parse(data.decode("utf-8")))
        text, tree = cache[src]
        lines = text.splitlines()
        try:
            fns = [n for n in tree.body if isinstance(n, ast.FunctionDef) and n.name == func]
            if len(fns) != 1:
                raise Bad(tree, f"exactly one function {func} expected")
            fn = fns[0]
            a = fn.args
            if [x.arg for x in a.args] != params or a.vararg or a.kwarg or a.kwonlyargs or a.defaults or fn.decorator_list:
                raise Bad(fn, f"signature of {func} changed")
            f = Fn(fn, params)
            f.run()
            pieces.append(f.coq(func))
        except Bad as e:
            ln = getattr(e.node, "lineno", 0)
            print(f"knap_constructions: {src}:{ln}: {func}: {e.why}")
            if ln:
                print("    " + lines[ln - 1].strip())
            return 2
    os.makedirs(out, exist_ok=True)
    new = "\n".join([
        "(* GENERATED by translators/knap_constructions.py from dimod/generators/{knapsack,multi_knapsack,binpacking}.py - do not edit.",
        f"   sources sha256 {digest.hexdigest()} *)",
        "From Coq Require Import List ZArith QArith Qcanon Arith.",
        "From Dimod Require Import Base.Util Model.Poly Model.Knap Model.Qap.",
        "Import ListNotations.",
        "Open Scope Qc_scope.",
        ""] + pieces)
    dst = os.path.join(out, "Gen_Knap.v")
    if not os.path.exists(dst) or open(dst).read() != new:
        with open(dst, "w") as fh:
            fh.write(new)
    return 0


if __name__ == "__main__":
    sys.exit(main())
