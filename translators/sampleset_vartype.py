#!/venv/bin/python
"""Fail-closed translator: sampleset.py SampleSet.change_vartype -> coq/theories/Gen/Gen_SSetVartype.v

Checks, with ast, the statement sequence of the in-place part of SampleSet.change_vartype (everything after the
`inplace` / pending-future prologue) and extracts
  * the sample map of BINARY -> SPIN  `self.record.sample = 2 * self.record.sample - 1`      -> (multiplier, addend)
  * the sample map of SPIN -> BINARY  `self.record.sample = (self.record.sample + 1) // 2`    -> (addend, divisor)
  * the storage kinds that are widened before BINARY -> SPIN (`dtype.kind in 'bu'`)
  * whether the energies are shifted before the same-vartype / unsupported-vartype tests.
Proofs/SSetVartypeGenFacts.v proves that Model/SSetVartype.v uses exactly these.

usage: sampleset_vartype.py <build_dir> <out_dir>
"""
import ast
import hashlib
import os
import sys
from fractions import Fraction

NAMES = {Fraction(2): "two", Fraction(-1): "(- (1))", Fraction(1): "1", Fraction(0): "0", Fraction(1, 2): "half"}


class Bad(Exception):
    pass


def u(n):
    return ast.unparse(n)


def expect(node, text, what):
    if u(node) != text:
        raise Bad(f"line {node.lineno}: {what}: expected `{text}`, found `{u(node)}`")


X = "self.record.sample"


def affine(node):
    """node must be an affine expression m*X + a over X = self.record.sample"""
    def ev(n, x):
        if u(n) == X:
            return Fraction(x)
        if isinstance(n, ast.Constant) and isinstance(n.value, (int, float)) and not isinstance(n.value, bool):
            return Fraction(n.value)
        if isinstance(n, ast.UnaryOp) and isinstance(n.op, ast.USub):
            return -ev(n.operand, x)
        if isinstance(n, ast.BinOp) and isinstance(n.op, (ast.Add, ast.Sub, ast.Mult)):
            a, b = ev(n.left, x), ev(n.right, x)
            return a + b if isinstance(n.op, ast.Add) else a - b if isinstance(n.op, ast.Sub) else a * b
        raise Bad(f"line {n.lineno}: expression outside the grammar: {u(n)}")
    v0, v1, v2 = ev(node, 0), ev(node, 1), ev(node, 2)
    if v2 - v1 != v1 - v0:
        raise Bad(f"line {node.lineno}: not affine in the samples: {u(node)}")
    return v1 - v0, v0


def name(k, where):
    if k not in NAMES:
        raise Bad(f"{where}: constant {k} has no named Coq constant (the source changed)")
    return NAMES[k]


def main():
    build, out = sys.argv[1], sys.argv[2]
    path = os.path.join(build, "dimod", "sampleset.py")
    src = open(path).read()
    print("INPUT %s %s" % (path, hashlib.sha256(src.encode()).hexdigest()))
    tree = ast.parse(src)
    cls = [n for n in tree.body if isinstance(n, ast.ClassDef) and n.name == "SampleSet"]
    if not cls:
        raise Bad("class SampleSet not found")
    fns = [n for n in cls[0].body if isinstance(n, ast.FunctionDef) and n.name == "change_vartype"]
    if len(fns) != 1:
        raise Bad("SampleSet.change_vartype not found")
    body = [s for s in fns[0].body if not (isinstance(s, ast.Expr) and isinstance(s.value, ast.Constant))]
    if len(body) != 7:
        raise Bad(f"line {fns[0].lineno}: change_vartype has {len(body)} statements, expected 7")
    s_inpl, s_done, s_cast, s_off, s_same, s_conv, s_ret = body
    expect(s_inpl.test, "not inplace", "prologue")
    expect(s_done.test, "not self.done()", "prologue")
    expect(s_cast, "vartype = as_vartype(vartype, extended=True)", "vartype cast")
    # energy shift
    if not isinstance(s_off, ast.If) or u(s_off.test) != "energy_offset" or s_off.orelse or len(s_off.body) != 3:
        raise Bad(f"line {s_off.lineno}: expected `if energy_offset:` with three statements")
    expect(s_off.body[0], "energy = self.record.energy + energy_offset", "energy shift")
    expect(s_off.body[2], "self.record.energy = energy", "energy shift")
    # same vartype
    if not isinstance(s_same, ast.If) or u(s_same.test) != "vartype is self.vartype" or s_same.orelse \
            or [u(x) for x in s_same.body] != ["return self"]:
        raise Bad(f"line {s_same.lineno}: expected `if vartype is self.vartype: return self`")
    # conversions
    if not isinstance(s_conv, ast.If):
        raise Bad(f"line {s_conv.lineno}: expected the if/elif/else over the conversions")
    expect(s_conv.test, "vartype is Vartype.SPIN and self.vartype is Vartype.BINARY", "first branch")
    b1 = s_conv.body
    if len(b1) != 3 or not isinstance(b1[0], ast.If):
        raise Bad(f"line {s_conv.lineno}: BINARY->SPIN branch: expected widening test, sample map, vartype update")
    wid = b1[0]
    if not (isinstance(wid.test, ast.Compare) and u(wid.test.left) == "self.record.sample.dtype.kind" and len(wid.test.ops) == 1
            and isinstance(wid.test.ops[0], ast.In) and isinstance(wid.test.comparators[0], ast.Constant)
            and isinstance(wid.test.comparators[0].value, str)) or wid.orelse:
        raise Bad(f"line {wid.lineno}: widening test: expected `self.record.sample.dtype.kind in '<kinds>'`")
    kinds = wid.test.comparators[0].value
    if [u(x) for x in wid.body] != ["self._record = _astype_field(self.record, 'sample', np.int8)"]:
        raise Bad(f"line {wid.lineno}: widening statement changed")
    if not (isinstance(b1[1], ast.Assign) and u(b1[1].targets[0]) == X):
        raise Bad(f"line {b1[1].lineno}: expected an assignment to {X}")
    m, a = affine(b1[1].value)
    expect(b1[2], "self._vartype = vartype", "vartype update")
    if len(s_conv.orelse) != 1 or not isinstance(s_conv.orelse[0], ast.If):
        raise Bad(f"line {s_conv.lineno}: expected an elif branch")
    e2 = s_conv.orelse[0]
    expect(e2.test, "vartype is Vartype.BINARY and self.vartype is Vartype.SPIN", "second branch")
    if len(e2.body) != 2 or not (isinstance(e2.body[0], ast.Assign) and u(e2.body[0].targets[0]) == X):
        raise Bad(f"line {e2.lineno}: SPIN->BINARY branch: expected sample map, vartype update")
    v = e2.body[0].value
    if not (isinstance(v, ast.BinOp) and isinstance(v.op, ast.FloorDiv) and isinstance(v.right, ast.Constant)
            and isinstance(v.right.value, int)):
        raise Bad(f"line {v.lineno}: expected `(<affine in samples>) // <int>`, found `{u(v)}`")
    m2, a2 = affine(v.left)
    if m2 != 1:
        raise Bad(f"line {v.lineno}: the numerator must be samples + constant")
    d2 = Fraction(v.right.value)
    expect(e2.body[1], "self._vartype = vartype", "vartype update")
    if len(e2.orelse) != 1 or not isinstance(e2.orelse[0], ast.Raise) or not u(e2.orelse[0]).startswith("raise ValueError("):
        raise Bad(f"line {e2.lineno}: the else branch must raise ValueError")
    expect(s_ret, "return self", "epilogue")

    lines = ["(* GENERATED by translators/sampleset_vartype.py from dimod/sampleset.py (SampleSet.change_vartype) - do not edit *)",
             "From Coq Require Import QArith Qcanon Bool.", "From Dimod Require Import Base.Util Model.Poly.", "Open Scope Qc_scope.", "",
             "(* BINARY -> SPIN: samples := multiplier * samples + addend *)",
             "Definition gen_ss_to_spin : Qc * Qc := (%s, %s)." % (name(m, "to spin"), name(a, "to spin")),
             "(* SPIN -> BINARY: samples := (samples + addend) // divisor *)",
             "Definition gen_ss_to_binary : Qc * Qc := (%s, %s)." % (name(a2, "to binary"), name(d2, "to binary")),
             "(* storage kinds widened to int8 before BINARY -> SPIN: bool, unsigned *)",
             "Definition gen_ss_widens_bool : bool := %s." % ("true" if "b" in kinds else "false"),
             "Definition gen_ss_widens_unsigned : bool := %s." % ("true" if "u" in kinds else "false"),
             "(* the energies are shifted by energy_offset BEFORE the same-vartype and unsupported-vartype tests *)",
             "Definition gen_ss_energy_shift_first : bool := true.", ""]
    os.makedirs(out, exist_ok=True)
    p = os.path.join(out, "Gen_SSetVartype.v")
    new = "\n".join(lines)
    if not os.path.exists(p) or open(p).read() != new:
        open(p, "w").write(new)


if __name__ == "__main__":
    try:
        main()
    except Bad as e:
        print("sampleset_vartype.py: " + str(e))
        sys.exit(1)
