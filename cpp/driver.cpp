// C20 driver: executes a list of operations on the header-only C++ model
// classes of the tree under test (compiled against <tree>/dimod/include with
// ASan + UBSan, assertions live) and prints the raw state after EVERY op.
//
//   driver < ops.txt > dump.jsonl
//
// Input: one op per line, blank separated tokens.  `case <id>` starts a fresh
// set of objects.  Output: one JSON object per line.
// Slots 0,1: dimod::QuadraticModel<double,int>; slots 2,3:
// dimod::BinaryQuadraticModel<double,int> (2 starts BINARY, 3 starts SPIN);
// CQM slots 0,1: dimod::ConstrainedQuadraticModel<double,int>.
// Exit codes: 0 ok, 3 native invariant broken, 4 bad input, anything else =
// sanitizer report / failed assertion / signal.
#include <algorithm>
#include <cassert>
#include <cmath>
#include <cstdio>
#include <cstdlib>
#include <cstring>
#include <iostream>
#include <limits>
#include <memory>
#include <set>
#include <sstream>
#include <stdexcept>
#include <string>
#include <utility>
#include <vector>

#include "dimod/abc.h"
#include "dimod/binary_quadratic_model.h"
#include "dimod/constrained_quadratic_model.h"
#include "dimod/constraint.h"
#include "dimod/expression.h"
#include "dimod/quadratic_model.h"
#include "dimod/utils.h"

#ifdef NDEBUG
#error "the driver must be compiled with assertions enabled"
#endif

using Base = dimod::abc::QuadraticModelBase<double, int>;
using QM = dimod::QuadraticModel<double, int>;
using BQM = dimod::BinaryQuadraticModel<double, int>;
using CQM = dimod::ConstrainedQuadraticModel<double, int>;
using Expr = dimod::Expression<double, int>;
using Con = dimod::Constraint<double, int>;
using dimod::Vartype;

static std::string current_case = "?";
static long current_op = -1;

[[noreturn]] static void broken(const std::string& msg) {
    std::fflush(stdout);
    std::fprintf(stderr, "INVARIANT: case %s op %ld: %s\n", current_case.c_str(), current_op,
                 msg.c_str());
    std::printf("{\"invariant_broken\":\"%s\"}\n", msg.c_str());
    std::fflush(stdout);
    std::_Exit(3);
}
[[noreturn]] static void badinput(const std::string& msg) {
    std::fflush(stdout);
    std::fprintf(stderr, "BADINPUT: case %s op %ld: %s\n", current_case.c_str(), current_op,
                 msg.c_str());
    std::_Exit(4);
}
#define REQ(c, msg)                                                    \
    do {                                                               \
        if (!(c)) broken(std::string(msg) + "  [" #c "]");             \
    } while (0)

static std::string dstr(double x) {
    char buf[64];
    if (std::isnan(x)) return "\"nan\"";
    if (std::isinf(x)) return x > 0 ? "\"inf\"" : "\"-inf\"";
    std::snprintf(buf, sizeof buf, "\"%a\"", x);
    return buf;
}

static Vartype vt_of(int k) {
    switch (k) {
        case 0: return Vartype::BINARY;
        case 1: return Vartype::SPIN;
        case 2: return Vartype::INTEGER;
        case 3: return Vartype::REAL;
    }
    badinput("vartype code");
}
static int vt_code(Vartype v) {
    switch (v) {
        case Vartype::BINARY: return 0;
        case Vartype::SPIN: return 1;
        case Vartype::INTEGER: return 2;
        case Vartype::REAL: return 3;
    }
    return -1;
}

// ---------------------------------------------------------------------------
// token reader
// ---------------------------------------------------------------------------
struct Toks {
    std::vector<std::string> t;
    size_t i = 0;
    bool more() const { return i < t.size(); }
    const std::string& s() {
        if (i >= t.size()) badinput("missing token");
        return t[i++];
    }
    int n() {
        const std::string& x = s();
        char* e;
        long v = std::strtol(x.c_str(), &e, 10);
        if (*e) badinput("bad int " + x);
        return static_cast<int>(v);
    }
    double d() {
        const std::string& x = s();
        if (x == "inf") return std::numeric_limits<double>::infinity();
        char* e;
        double v = std::strtod(x.c_str(), &e);
        if (*e) badinput("bad double " + x);
        return v;
    }
    std::vector<int> ns(int k) {
        std::vector<int> r;
        for (int j = 0; j < k; ++j) r.push_back(n());
        return r;
    }
    std::vector<double> ds(int k) {
        std::vector<double> r;
        for (int j = 0; j < k; ++j) r.push_back(d());
        return r;
    }
};

// ---------------------------------------------------------------------------
// native invariant of one QuadraticModelBase (internal indices).
// vt(i) gives the vartype the base sees for internal index i.
// ---------------------------------------------------------------------------
template <class VT>
static void check_base(const Base& m, VT vt, const std::string& who) {
    const int n = static_cast<int>(m.num_variables());
    size_t entries = 0, loops = 0;
    for (int u = 0; u < n; ++u) {
        auto b = m.cbegin_neighborhood(u), e = m.cend_neighborhood(u);
        REQ(static_cast<size_t>(e - b) == m.num_interactions(u), who + ": degree != neighbourhood length");
        int prev = -1;
        for (auto it = b; it != e; ++it) {
            REQ(it->v >= 0 && it->v < n, who + ": neighbour index out of bounds");
            REQ(it->v > prev, who + ": neighbourhood not strictly sorted");
            prev = it->v;
            ++entries;
            if (it->v == u) {
                ++loops;
                Vartype t = vt(u);
                REQ(t != Vartype::BINARY && t != Vartype::SPIN, who + ": self-loop on a BINARY/SPIN variable");
            }
            REQ(m.has_interaction(it->v, u), who + ": asymmetric (reverse entry missing)");
            double r = m.quadratic(it->v, u);
            REQ(r == it->bias || (std::isnan(r) && std::isnan(it->bias)), who + ": asymmetric bias");
            REQ(m.quadratic_at(u, it->v) == it->bias || std::isnan(it->bias), who + ": quadratic_at disagrees");
        }
    }
    REQ((entries + loops) % 2 == 0, who + ": odd number of stored entries");
    REQ(m.num_interactions() == (entries + loops) / 2, who + ": num_interactions() inconsistent");
    REQ(m.is_linear() == (entries == 0), who + ": is_linear() inconsistent");
    // the lower-triangle iterator
    size_t cnt = 0;
    int pu = -1, pv = -1;
    for (auto it = m.cbegin_quadratic(); it != m.cend_quadratic(); ++it) {
        REQ(it->u >= 0 && it->u < n && it->v >= 0 && it->v <= it->u, who + ": quadratic iterator term out of range");
        REQ(it->u > pu || (it->u == pu && it->v > pv), who + ": quadratic iterator not increasing");
        pu = it->u;
        pv = it->v;
        REQ(m.quadratic(it->u, it->v) == it->bias || std::isnan(it->bias), who + ": quadratic iterator bias");
        ++cnt;
        REQ(cnt <= entries + 1, who + ": quadratic iterator runs away");
    }
    REQ(cnt == m.num_interactions(), who + ": quadratic iterator count != num_interactions()");
    bool threw = false;
    if (n > 0 && !m.has_interaction(0, n - 1)) {
        try {
            (void)m.quadratic_at(0, n - 1);
        } catch (const std::out_of_range&) {
            threw = true;
        }
        REQ(threw, who + ": quadratic_at on a missing interaction did not throw");
    }
}

static void dump_base(std::ostream& o, const Base& m) {
    const int n = static_cast<int>(m.num_variables());
    o << "\"n\":" << n << ",\"lin\":[";
    for (int v = 0; v < n; ++v) o << (v ? "," : "") << dstr(m.linear(v));
    o << "],\"adj\":[";
    for (int u = 0; u < n; ++u) {
        o << (u ? "," : "") << "[";
        bool first = true;
        for (auto it = m.cbegin_neighborhood(u); it != m.cend_neighborhood(u); ++it) {
            o << (first ? "" : ",") << "[" << it->v << "," << dstr(it->bias) << "]";
            first = false;
        }
        o << "]";
    }
    o << "],\"off\":" << dstr(m.offset()) << ",\"ni\":" << m.num_interactions() << ",\"deg\":[";
    for (int v = 0; v < n; ++v) o << (v ? "," : "") << m.num_interactions(v);
    o << "],\"isl\":" << (m.is_linear() ? 1 : 0);
}

// ---------------------------------------------------------------------------
// QM / BQM section
// ---------------------------------------------------------------------------
struct Models {
    std::unique_ptr<QM> q[2];
    std::unique_ptr<BQM> b[2];
    Models() {
        q[0].reset(new QM());
        q[1].reset(new QM());
        b[0].reset(new BQM(Vartype::BINARY));
        b[1].reset(new BQM(Vartype::SPIN));
    }
    bool isq(int s) const {
        if (s < 0 || s > 3) badinput("slot");
        return s < 2;
    }
    Base& base(int s) { return isq(s) ? static_cast<Base&>(*q[s]) : static_cast<Base&>(*b[s - 2]); }
    QM& Q(int s) {
        if (!isq(s)) badinput("QM slot expected");
        return *q[s];
    }
    BQM& B(int s) {
        if (isq(s)) badinput("BQM slot expected");
        return *b[s - 2];
    }
};

static void dump_slot(std::ostream& o, Models& M, int s) {
    Base& m = M.base(s);
    const int n = static_cast<int>(m.num_variables());
    o << "{";
    dump_base(o, m);
    o << ",\"vt\":[";
    for (int v = 0; v < n; ++v) o << (v ? "," : "") << vt_code(m.vartype(v));
    o << "],\"lb\":[";
    for (int v = 0; v < n; ++v) o << (v ? "," : "") << dstr(m.lower_bound(v));
    o << "],\"ub\":[";
    for (int v = 0; v < n; ++v) o << (v ? "," : "") << dstr(m.upper_bound(v));
    o << "],\"bvt\":" << (M.isq(s) ? -1 : vt_code(M.B(s).vartype())) << "}";
}

static void check_models(Models& M) {
    for (int s = 0; s < 4; ++s) {
        Base& m = M.base(s);
        std::string who = "slot " + std::to_string(s);
        check_base(m, [&m](int i) { return m.vartype(i); }, who);
        if (!M.isq(s)) {
            BQM& b = M.B(s);
            REQ(b.vartype() == Vartype::BINARY || b.vartype() == Vartype::SPIN, who + ": BQM vartype");
        }
    }
}

struct Filter {
    int kind;
    double param;
    bool operator()(int u, int v, double bias) const {
        switch (kind) {
            case 0: return bias < param;
            case 1: return ((u + v) % 2) == static_cast<int>(param);
            case 2: return u == static_cast<int>(param) || v == static_cast<int>(param);
            default: return true;
        }
    }
};

// returns a JSON fragment describing the result of the op ("" when nothing)
static std::string model_op(Models& M, const std::string& op, Toks& T) {
    std::ostringstream ret;
    if (op == "addvar") {
        int s = T.n(), vt = T.n();
        int r = M.isq(s) ? M.Q(s).add_variable(vt_of(vt)) : M.B(s).add_variable();
        ret << r;
    } else if (op == "addvarb") {
        int s = T.n(), vt = T.n();
        double lb = T.d(), ub = T.d();
        ret << M.Q(s).add_variable(vt_of(vt), lb, ub);
    } else if (op == "addvars") {
        int s = T.n(), vt = T.n(), k = T.n();
        ret << M.Q(s).add_variables(vt_of(vt), k);
    } else if (op == "addvarsb") {
        int s = T.n(), vt = T.n(), k = T.n();
        double lb = T.d(), ub = T.d();
        ret << M.Q(s).add_variables(vt_of(vt), k, lb, ub);
    } else if (op == "addlin") {
        int s = T.n(), v = T.n();
        M.base(s).add_linear(v, T.d());
    } else if (op == "setlin") {
        int s = T.n(), v = T.n();
        M.base(s).set_linear(v, T.d());
    } else if (op == "addoff") {
        int s = T.n();
        M.base(s).add_offset(T.d());
    } else if (op == "setoff") {
        int s = T.n();
        M.base(s).set_offset(T.d());
    } else if (op == "addq") {
        int s = T.n(), u = T.n(), v = T.n();
        M.base(s).add_quadratic(u, v, T.d());
    } else if (op == "setq") {
        int s = T.n(), u = T.n(), v = T.n();
        double b = T.d();
        try {
            M.base(s).set_quadratic(u, v, b);
            ret << "\"ok\"";
        } catch (const std::domain_error&) {
            ret << "\"domain_error\"";
        }
    } else if (op == "addqb") {
        int s = T.n(), u = T.n(), v = T.n();
        M.base(s).add_quadratic_back(u, v, T.d());
    } else if (op == "dense") {
        int s = T.n(), k = T.n();
        std::vector<double> d = T.ds(k * k);
        d.shrink_to_fit();
        M.base(s).add_quadratic_from_dense(d.data(), k);
    } else if (op == "densei") {  // integer typed dense matrix (template parameter T = long)
        int s = T.n(), k = T.n();
        std::vector<long> d;
        for (int j = 0; j < k * k; ++j) d.push_back(T.n());
        d.shrink_to_fit();
        M.base(s).add_quadratic_from_dense(d.data(), k);
    } else if (op == "coo") {
        int s = T.n(), k = T.n();
        std::vector<int> r = T.ns(k), c = T.ns(k);
        std::vector<double> b = T.ds(k);
        r.shrink_to_fit();
        c.shrink_to_fit();
        b.shrink_to_fit();
        if (M.isq(s)) {
            M.base(s).add_quadratic(r.begin(), c.begin(), b.begin(), k);
        } else {
            M.B(s).add_quadratic(r.begin(), c.begin(), b.begin(), k);  // may resize
        }
    } else if (op == "remint") {
        int s = T.n(), u = T.n(), v = T.n();
        ret << (M.base(s).remove_interaction(u, v) ? 1 : 0);
    } else if (op == "remints") {
        int s = T.n();
        Filter f;
        f.kind = T.n();
        f.param = T.d();
        ret << M.base(s).remove_interactions(f);
    } else if (op == "remvar") {
        int s = T.n(), v = T.n();
        if (M.isq(s)) {
            M.Q(s).remove_variable(v);
        } else {
            M.B(s).remove_variable(v);
        }
    } else if (op == "remvars") {
        int s = T.n(), k = T.n();
        std::vector<int> vs = T.ns(k);
        vs.shrink_to_fit();
        if (M.isq(s)) {
            M.Q(s).remove_variables(vs);
        } else {
            M.B(s).remove_variables(vs);
        }
    } else if (op == "resize") {
        int s = T.n(), k = T.n();
        if (M.isq(s)) {
            M.Q(s).resize(k);
        } else {
            M.B(s).resize(k);
        }
    } else if (op == "resizevt") {
        int s = T.n(), k = T.n(), vt = T.n();
        M.Q(s).resize(k, vt_of(vt));
    } else if (op == "resizeb") {
        int s = T.n(), k = T.n(), vt = T.n();
        double lb = T.d(), ub = T.d();
        M.Q(s).resize(k, vt_of(vt), lb, ub);
    } else if (op == "scale") {
        int s = T.n();
        M.base(s).scale(T.d());
    } else if (op == "fix") {
        int s = T.n(), v = T.n();
        double a = T.d();
        if (M.isq(s)) {
            M.Q(s).fix_variable(v, a);
        } else {
            M.B(s).fix_variable(v, a);
        }
    } else if (op == "fixi") {  // integer typed assignment (template parameter T = int)
        int s = T.n(), v = T.n(), a = T.n();
        if (M.isq(s)) {
            M.Q(s).fix_variable(v, a);
        } else {
            M.B(s).fix_variable(v, a);
        }
    } else if (op == "subst") {
        int s = T.n(), v = T.n();
        double m = T.d(), c = T.d();
        M.base(s).substitute_variable(v, m, c);
    } else if (op == "substall") {
        int s = T.n();
        double m = T.d(), c = T.d();
        M.base(s).substitute_variables(m, c);
    } else if (op == "chvt") {
        int s = T.n(), vt = T.n();
        try {
            if (M.isq(s)) {
                int v = T.n();
                M.Q(s).change_vartype(vt_of(vt), v);
            } else {
                M.B(s).change_vartype(vt_of(vt));
            }
            ret << "\"ok\"";
        } catch (const std::logic_error&) {
            ret << "\"logic_error\"";
        }
    } else if (op == "setlb") {
        int s = T.n(), v = T.n();
        M.Q(s).set_lower_bound(v, T.d());
    } else if (op == "setub") {
        int s = T.n(), v = T.n();
        M.Q(s).set_upper_bound(v, T.d());
    } else if (op == "setvt") {
        int s = T.n(), v = T.n(), vt = T.n();
        M.Q(s).set_vartype(v, vt_of(vt));
    } else if (op == "clear") {
        int s = T.n();
        if (M.isq(s)) {
            M.Q(s).clear();
        } else {
            M.B(s).clear();
        }
    } else if (op == "copyctor") {
        int a = T.n(), b = T.n();
        if (M.isq(a)) {
            std::unique_ptr<QM> p(new QM(M.Q(b)));
            M.q[a] = std::move(p);
        } else {
            std::unique_ptr<BQM> p(new BQM(M.B(b)));
            M.b[a - 2] = std::move(p);
        }
    } else if (op == "copyassign") {
        int a = T.n(), b = T.n();
        if (M.isq(a)) {
            M.Q(a) = M.Q(b);
        } else {
            M.B(a) = M.B(b);
        }
    } else if (op == "movector" || op == "moveassign") {
        // a takes b's value; b is then only cleared or assigned to
        int a = T.n(), b = T.n();
        std::string fix = T.s();
        int c = fix == "assign" ? T.n() : -1;
        if (a == b) badinput("self move");
        if (M.isq(a)) {
            if (op == "movector") {
                std::unique_ptr<QM> p(new QM(std::move(M.Q(b))));
                M.q[a] = std::move(p);
            } else {
                M.Q(a) = std::move(M.Q(b));
            }
            if (c >= 0) {
                M.Q(b) = M.Q(c);
            } else {
                M.Q(b).clear();
            }
        } else {
            if (op == "movector") {
                std::unique_ptr<BQM> p(new BQM(std::move(M.B(b))));
                M.b[a - 2] = std::move(p);
            } else {
                M.B(a) = std::move(M.B(b));
            }
            if (c >= 0) {
                M.B(b) = M.B(c);
            } else {
                M.B(b).clear();
            }
        }
    } else if (op == "swap") {
        int a = T.n(), b = T.n();
        using std::swap;
        if (M.isq(a)) {
            swap(M.Q(a), M.Q(b));
        } else {
            swap(M.B(a), M.B(b));
        }
    } else if (op == "qmofbqm") {
        int a = T.n(), b = T.n(), tmpl = T.n();
        BQM& src = M.B(b);
        bool narrow_ok = true;
        if (tmpl) {
            // the templated converting constructor from BinaryQuadraticModel<float,long>
            auto fits = [](double x) { return static_cast<double>(static_cast<float>(x)) == x; };
            narrow_ok = fits(src.offset());
            for (size_t v = 0; v < src.num_variables(); ++v) narrow_ok = narrow_ok && fits(src.linear(v));
            for (auto it = src.cbegin_quadratic(); it != src.cend_quadratic(); ++it)
                narrow_ok = narrow_ok && fits(it->bias);
        }
        if (tmpl && narrow_ok) {
            dimod::BinaryQuadraticModel<float, long> f(static_cast<long>(src.num_variables()), src.vartype());
            for (size_t v = 0; v < src.num_variables(); ++v) f.set_linear(v, static_cast<float>(src.linear(v)));
            for (auto it = src.cbegin_quadratic(); it != src.cend_quadratic(); ++it)
                f.add_quadratic(it->u, it->v, static_cast<float>(it->bias));
            f.set_offset(static_cast<float>(src.offset()));
            std::unique_ptr<QM> p(new QM(f));
            M.q[a] = std::move(p);
            ret << "\"templated\"";
        } else {
            std::unique_ptr<QM> p(new QM(src));
            M.q[a] = std::move(p);
            ret << "\"plain\"";
        }
    } else if (op == "densector") {
        int s = T.n(), k = T.n(), vt = T.n();
        std::vector<double> d = T.ds(k * k);
        d.shrink_to_fit();
        std::unique_ptr<BQM> p(new BQM(d.data(), k, vt_of(vt)));
        M.b[s - 2] = std::move(p);
        (void)M.B(s);
    } else if (op == "bqmctor") {
        int s = T.n(), k = T.n(), vt = T.n();
        (void)M.B(s);
        std::unique_ptr<BQM> p(new BQM(k, vt_of(vt)));
        M.b[s - 2] = std::move(p);
    } else if (op == "energy") {
        int s = T.n();
        int n = static_cast<int>(M.base(s).num_variables());
        std::vector<double> x = T.ds(n);
        x.shrink_to_fit();
        ret << dstr(M.base(s).energy(x.begin()));
    } else if (op == "nop") {
    } else {
        badinput("unknown model op " + op);
    }
    return ret.str();
}

// ---------------------------------------------------------------------------
// CQM section
// ---------------------------------------------------------------------------
struct Cqms {
    std::unique_ptr<CQM> c[2];
    std::weak_ptr<Con> weak;
    bool weak_set = false;
    Cqms() {
        c[0].reset(new CQM());
        c[1].reset(new CQM());
    }
    CQM& at(int s) {
        if (s < 0 || s > 1) badinput("cqm slot");
        return *c[s];
    }
    Expr& expr(int s, int k) {
        CQM& q = at(s);
        if (k < 0) return q.objective;
        if (static_cast<size_t>(k) >= q.num_constraints()) badinput("constraint index");
        return q.constraint_ref(k);
    }
};

static void check_expr(const CQM& q, const Expr& e, const std::string& who) {
    const Base& b = e;  // internal indices
    const std::vector<int>& vars = e.variables();
    const int nq = static_cast<int>(q.num_variables());
    REQ(vars.size() == b.num_variables(), who + ": variables().size() != base num_variables");
    std::set<int> seen;
    for (size_t i = 0; i < vars.size(); ++i) {
        int v = vars[i];
        REQ(v >= 0 && v < nq, who + ": variable label outside the parent");
        REQ(seen.insert(v).second, who + ": duplicate label in variables()");
        REQ(e.has_variable(v), who + ": has_variable false for a listed label");
        // parent consistency (a wrong/dangling parent_ shows here or under ASan)
        REQ(e.vartype(v) == q.vartype(v), who + ": vartype through parent_ differs from the owner");
        REQ(e.lower_bound(v) == q.lower_bound(v), who + ": lower_bound through parent_ differs");
        REQ(e.upper_bound(v) == q.upper_bound(v), who + ": upper_bound through parent_ differs");
    }
    int cnt = 0;
    for (int v = 0; v < nq; ++v) cnt += e.has_variable(v) ? 1 : 0;
    REQ(cnt == static_cast<int>(vars.size()), who + ": indices_ has stale labels");
    REQ(!e.has_variable(nq) && !e.has_variable(nq + 1) && !e.has_variable(-1), who + ": indices_ has out of range labels");
    check_base(b, [&](int i) { return q.vartype(vars[i]); }, who);
    // indices_[variables_[i]] == i : write through the label, read through the index
    Expr& me = const_cast<Expr&>(e);
    for (size_t i = 0; i < vars.size(); ++i) {
        int v = vars[i];
        double old = b.linear(i);
        REQ(e.linear(v) == old || std::isnan(old), who + ": linear(label) != base linear(index)");
        double probe = (old == 12345.0) ? 54321.0 : 12345.0;
        me.set_linear(v, probe);
        bool ok = b.linear(i) == probe;
        me.set_linear(v, old);
        REQ(ok, who + ": indices_ inconsistent with variables_");
        REQ(b.num_variables() == vars.size(), who + ": probe grew the expression");
        REQ(e.num_interactions(v) == b.num_interactions(i), who + ": num_interactions(label)");
        // label level neighbourhood iterator
        auto bi = b.cbegin_neighborhood(i);
        for (auto it = e.cbegin_neighborhood(v); it != e.cend_neighborhood(v); ++it, ++bi) {
            REQ(bi != b.cend_neighborhood(i), who + ": label neighbourhood longer than the stored one");
            REQ(it->v == vars[bi->v], who + ": label neighbourhood term");
            REQ(e.has_interaction(v, it->v) && e.quadratic(v, it->v) == bi->bias, who + ": label level quadratic");
        }
        REQ(bi == b.cend_neighborhood(i), who + ": label neighbourhood shorter than the stored one");
    }
    size_t k = 0;
    for (auto it = e.cbegin_quadratic(); it != e.cend_quadratic(); ++it) {
        REQ(e.has_variable(it->u) && e.has_variable(it->v), who + ": label quadratic iterator term");
        ++k;
        REQ(k <= b.num_interactions(), who + ": label quadratic iterator runs away");
    }
    REQ(k == b.num_interactions(), who + ": label quadratic iterator count");
    // labels not in the expression read as zero / absent
    for (int v = 0; v < nq; ++v) {
        if (!e.has_variable(v)) {
            REQ(e.linear(v) == 0 && e.num_interactions(v) == 0, who + ": absent label reads non-zero");
            REQ(e.cbegin_neighborhood(v) == e.cend_neighborhood(v), who + ": absent label has neighbours");
        }
    }
}

static void check_cqms(Cqms& C) {
    for (int s = 0; s < 2; ++s) {
        const CQM& q = C.at(s);
        std::string who = "cqm " + std::to_string(s);
        check_expr(q, q.objective, who + " objective");
        REQ(q.constraints().size() == q.num_constraints(), who + ": view size");
        size_t i = 0;
        for (auto& c : q.constraints()) {
            check_expr(q, c, who + " constraint " + std::to_string(i));
            REQ(&c == &q.constraint_ref(static_cast<int>(i)), who + ": view iteration order");
            ++i;
        }
        REQ(i == q.num_constraints(), who + ": view iteration count");
    }
}

static void dump_expr(std::ostream& o, const Expr& e) {
    const Base& b = e;
    o << "{";
    dump_base(o, b);
    o << ",\"vars\":[";
    for (size_t i = 0; i < e.variables().size(); ++i) o << (i ? "," : "") << e.variables()[i];
    o << "]";
}

static void dump_cqm(std::ostream& o, const CQM& q) {
    o << "{\"nv\":" << q.num_variables() << ",\"vt\":[";
    for (size_t v = 0; v < q.num_variables(); ++v) o << (v ? "," : "") << vt_code(q.vartype(v));
    o << "],\"lb\":[";
    for (size_t v = 0; v < q.num_variables(); ++v) o << (v ? "," : "") << dstr(q.lower_bound(v));
    o << "],\"ub\":[";
    for (size_t v = 0; v < q.num_variables(); ++v) o << (v ? "," : "") << dstr(q.upper_bound(v));
    o << "],\"obj\":";
    dump_expr(o, q.objective);
    o << "},\"cons\":[";
    for (size_t i = 0; i < q.num_constraints(); ++i) {
        const Con& c = q.constraint_ref(static_cast<int>(i));
        o << (i ? "," : "");
        dump_expr(o, c);
        o << ",\"sense\":" << static_cast<int>(c.sense()) << ",\"rhs\":" << dstr(c.rhs())
          << ",\"weight\":" << dstr(c.weight()) << ",\"pen\":" << static_cast<int>(c.penalty())
          << ",\"disc\":" << (c.marked_discrete() ? 1 : 0) << ",\"soft\":" << (c.is_soft() ? 1 : 0)
          << ",\"onehot\":" << (c.is_onehot() ? 1 : 0) << "}";
    }
    o << "]}";
}

// inline polynomial: nl (v b)* nq (u v b)* off
struct Poly {
    std::vector<std::pair<int, double>> lin;
    std::vector<std::pair<std::pair<int, int>, double>> quad;
    double off;
};
static Poly read_poly(Toks& T) {
    Poly p;
    int nl = T.n();
    for (int i = 0; i < nl; ++i) {
        int v = T.n();
        p.lin.emplace_back(v, T.d());
    }
    int nq = T.n();
    for (int i = 0; i < nq; ++i) {
        int u = T.n(), v = T.n();
        p.quad.emplace_back(std::make_pair(u, v), T.d());
    }
    p.off = T.d();
    return p;
}
static dimod::Sense sense_of(int k) {
    switch (k) {
        case 0: return dimod::Sense::LE;
        case 1: return dimod::Sense::GE;
        case 2: return dimod::Sense::EQ;
    }
    badinput("sense");
}
// a QuadraticModel over local indices 0..k-1 whose variable i mirrors CQM variable map[i]
static QM local_qm(const CQM& q, const std::vector<int>& map, const Poly& p) {
    QM m;
    for (int v : map) m.add_variable(q.vartype(v), q.lower_bound(v), q.upper_bound(v));
    for (auto& l : p.lin) m.add_linear(l.first, l.second);
    for (auto& t : p.quad) m.add_quadratic(t.first.first, t.first.second, t.second);
    m.add_offset(p.off);
    return m;
}

static std::string cqm_op(Cqms& C, const std::string& op, Toks& T) {
    std::ostringstream ret;
    if (op == "cq.addvar") {
        int s = T.n(), vt = T.n();
        ret << C.at(s).add_variable(vt_of(vt));
    } else if (op == "cq.addvarb") {
        int s = T.n(), vt = T.n();
        double lb = T.d(), ub = T.d();
        ret << C.at(s).add_variable(vt_of(vt), lb, ub);
    } else if (op == "cq.addvars") {
        int s = T.n(), vt = T.n(), k = T.n();
        ret << C.at(s).add_variables(vt_of(vt), k);
    } else if (op == "cq.addvarsb") {
        int s = T.n(), vt = T.n(), k = T.n();
        double lb = T.d(), ub = T.d();
        ret << C.at(s).add_variables(vt_of(vt), k, lb, ub);
    } else if (op == "cq.addcon") {
        ret << C.at(T.n()).add_constraint();
    } else if (op == "cq.addcons") {
        int s = T.n(), k = T.n();
        ret << C.at(s).add_constraints(k);
    } else if (op == "cq.newcon") {
        // new_constraint(), fill through the label API, then add by copy or by move
        int s = T.n(), mode = T.n(), sense = T.n();
        double rhs = T.d();
        Poly p = read_poly(T);
        CQM& q = C.at(s);
        Con c = q.new_constraint();
        for (auto& l : p.lin) c.add_linear(l.first, l.second);
        for (auto& t : p.quad) c.add_quadratic(t.first.first, t.first.second, t.second);
        c.add_offset(p.off);
        c.set_sense(sense_of(sense));
        c.set_rhs(rhs);
        if (mode == 0) {
            ret << q.add_constraint(c);
            // the local copy stays usable and independent
            c.add_offset(1);
            c.clear();
        } else {
            ret << q.add_constraint(std::move(c));
        }
    } else if (op == "cq.addcon_qm" || op == "cq.setobj_map") {
        int s = T.n(), mode = T.n(), sense = T.n();
        double rhs = T.d();
        int k = T.n();
        std::vector<int> map = T.ns(k);
        Poly p = read_poly(T);
        CQM& q = C.at(s);
        QM m = local_qm(q, map, p);
        if (op == "cq.setobj_map") {
            q.set_objective(m, map);
        } else if (mode == 0) {
            ret << q.add_constraint(m, sense_of(sense), rhs, map);
        } else {
            ret << q.add_constraint(std::move(m), sense_of(sense), rhs, map);  // labels must be distinct
        }
    } else if (op == "cq.setobj") {
        // set_objective(qm): variable i of qm is variable i of the CQM; missing ones are added
        int s = T.n(), k = T.n();
        std::vector<int> vts = T.ns(k);
        Poly p = read_poly(T);
        CQM& q = C.at(s);
        QM m;
        for (int i = 0; i < k; ++i) {
            if (static_cast<size_t>(i) < q.num_variables()) {
                m.add_variable(q.vartype(i), q.lower_bound(i), q.upper_bound(i));
            } else {
                m.add_variable(vt_of(vts[i]));
            }
        }
        for (auto& l : p.lin) m.add_linear(l.first, l.second);
        for (auto& t : p.quad) m.add_quadratic(t.first.first, t.first.second, t.second);
        m.add_offset(p.off);
        q.set_objective(m);
    } else if (op == "cq.addlincon") {
        int s = T.n(), k = T.n();
        std::vector<int> v = T.ns(k);
        std::vector<double> b = T.ds(k);
        int sense = T.n();
        double rhs = T.d();
        CQM& q = C.at(s);
        switch (k) {
            case 0: ret << q.add_linear_constraint({}, {}, sense_of(sense), rhs); break;
            case 1: ret << q.add_linear_constraint({v[0]}, {b[0]}, sense_of(sense), rhs); break;
            case 2: ret << q.add_linear_constraint({v[0], v[1]}, {b[0], b[1]}, sense_of(sense), rhs); break;
            case 3:
                ret << q.add_linear_constraint({v[0], v[1], v[2]}, {b[0], b[1], b[2]}, sense_of(sense), rhs);
                break;
            default: badinput("addlincon arity");
        }
    } else if (op == "cq.remcon") {
        int s = T.n(), c = T.n();
        C.at(s).remove_constraint(c);
    } else if (op == "cq.remcons_if") {
        int s = T.n(), par = T.n();
        C.at(s).remove_constraints_if([par](const Con& c) { return static_cast<int>(c.num_variables() % 2) == par; });
    } else if (op == "cq.remvar") {
        int s = T.n(), v = T.n();
        C.at(s).remove_variable(v);
    } else if (op == "cq.fix") {
        int s = T.n(), v = T.n();
        C.at(s).fix_variable(v, T.d());
    } else if (op == "cq.fixvars") {
        int s = T.n(), dst = T.n(), k = T.n();
        std::vector<int> vs = T.ns(k);
        std::vector<double> as = T.ds(k);
        vs.shrink_to_fit();
        as.shrink_to_fit();
        CQM r = C.at(s).fix_variables(vs.begin(), vs.end(), as.begin());
        C.at(dst) = std::move(r);
    } else if (op == "cq.subst") {
        int s = T.n(), v = T.n();
        double m = T.d(), c = T.d();
        C.at(s).substitute_variable(v, m, c);
    } else if (op == "cq.chvt") {
        int s = T.n(), vt = T.n(), v = T.n();
        try {
            C.at(s).change_vartype(vt_of(vt), v);
            ret << "\"ok\"";
        } catch (const std::logic_error&) {
            ret << "\"logic_error\"";
        }
    } else if (op == "cq.setlb") {
        int s = T.n(), v = T.n();
        C.at(s).set_lower_bound(v, T.d());
    } else if (op == "cq.setub") {
        int s = T.n(), v = T.n();
        C.at(s).set_upper_bound(v, T.d());
    } else if (op == "cq.clear") {
        C.at(T.n()).clear();
    } else if (op == "cq.copyctor") {
        int a = T.n(), b = T.n();
        std::unique_ptr<CQM> p(new CQM(C.at(b)));
        (void)C.at(a);
        C.c[a] = std::move(p);
    } else if (op == "cq.copyassign") {
        int a = T.n(), b = T.n();
        C.at(a) = C.at(b);
    } else if (op == "cq.movector" || op == "cq.moveassign") {
        int a = T.n(), b = T.n();
        if (a == b) badinput("self move");
        if (op == "cq.movector") {
            std::unique_ptr<CQM> p(new CQM(std::move(C.at(b))));
            C.c[a] = std::move(p);
        } else {
            C.at(a) = std::move(C.at(b));
        }
        C.at(b).clear();
    } else if (op == "cq.swap") {
        int a = T.n(), b = T.n();
        swap(C.at(a), C.at(b));  // the friend found by ADL
    } else if (op == "cq.weak") {
        int s = T.n(), c = T.n();
        C.weak = C.at(s).constraint_weak_ptr(c);
        C.weak_set = true;
    } else if (op == "cq.weakchk") {
        if (C.weak_set) {
            if (auto sp = C.weak.lock()) {
                // must still be owned by one of the two models
                bool owned = false;
                for (int s = 0; s < 2; ++s)
                    for (size_t i = 0; i < C.at(s).num_constraints(); ++i)
                        owned = owned || (&C.at(s).constraint_ref(static_cast<int>(i)) == sp.get());
                ret << (owned ? "\"alive\"" : "\"orphan\"");
                REQ(owned, "weak_ptr still locks a constraint no model owns");
            } else {
                ret << "\"expired\"";
            }
        }
    } else if (op.compare(0, 5, "cq.e.") == 0) {
        std::string sub = op.substr(5);
        int s = T.n(), k = T.n();
        Expr& e = C.expr(s, k);
        Con* con = k >= 0 ? &C.at(s).constraint_ref(k) : nullptr;
        if (sub == "addlin") {
            int v = T.n();
            e.add_linear(v, T.d());
        } else if (sub == "setlin") {
            int v = T.n();
            e.set_linear(v, T.d());
        } else if (sub == "addq") {
            int u = T.n(), v = T.n();
            e.add_quadratic(u, v, T.d());
        } else if (sub == "addqb") {
            // the append-at-the-back path; the caller guarantees the ordering promise on the
            // expression's INTERNAL indices
            int u = T.n(), v = T.n();
            e.add_quadratic_back(u, v, T.d());
        } else if (sub == "setq") {
            int u = T.n(), v = T.n();
            double b = T.d();
            try {
                e.set_quadratic(u, v, b);
                ret << "\"ok\"";
            } catch (const std::domain_error&) {
                ret << "\"domain_error\"";
            }
        } else if (sub == "addoff") {
            e.add_offset(T.d());
        } else if (sub == "setoff") {
            e.set_offset(T.d());
        } else if (sub == "remint") {
            int u = T.n(), v = T.n();
            ret << (e.remove_interaction(u, v) ? 1 : 0);
        } else if (sub == "remvar") {
            e.remove_variable(T.n());
        } else if (sub == "remvars") {
            int n = T.n();
            std::vector<int> vs = T.ns(n);
            vs.shrink_to_fit();
            e.remove_variables(vs);
        } else if (sub == "fix") {
            int v = T.n();
            e.fix_variable(v, T.d());
        } else if (sub == "subst") {
            int v = T.n();
            double m = T.d(), c = T.d();
            e.substitute_variable(v, m, c);
        } else if (sub == "scale") {
            double x = T.d();
            if (con) {
                con->scale(x);
            } else {
                e.scale(x);
            }
        } else if (sub == "clear") {
            if (con) {
                con->clear();
            } else {
                e.clear();
            }
        } else if (sub == "sense") {
            int x = T.n();
            if (con) con->set_sense(sense_of(x));
        } else if (sub == "rhs") {
            double x = T.d();
            if (con) con->set_rhs(x);
        } else if (sub == "weight") {
            double x = T.d();
            int pen = T.n();
            if (con) {
                con->set_weight(x);
                con->set_penalty(static_cast<dimod::Penalty>(pen));
            }
        } else if (sub == "disc") {
            int x = T.n();
            if (con) con->mark_discrete(x != 0);
        } else if (sub == "energy") {
            int n = static_cast<int>(C.at(s).num_variables());
            std::vector<double> x = T.ds(n);
            x.shrink_to_fit();
            ret << dstr(e.energy(x.begin()));
        } else if (sub == "disjoint") {
            int k2 = T.n();
            Expr& o = C.expr(s, k2);
            bool dj = e.is_disjoint(o);
            REQ(dj == !e.shares_variables(o), "is_disjoint and shares_variables disagree");
            ret << (dj ? 1 : 0);
        } else {
            badinput("unknown expression op " + sub);
        }
    } else {
        badinput("unknown cqm op " + op);
    }
    return ret.str();
}

int main() {
    std::ios::sync_with_stdio(false);
    std::unique_ptr<Models> M(new Models());
    std::unique_ptr<Cqms> C(new Cqms());
    std::string line;
    while (std::getline(std::cin, line)) {
        Toks T;
        {
            std::istringstream is(line);
            std::string w;
            while (is >> w) T.t.push_back(w);
        }
        if (T.t.empty() || T.t[0][0] == '#') continue;
        std::string op = T.s();
        if (op == "case") {
            current_case = T.s();
            current_op = -1;
            M.reset(new Models());
            C.reset(new Cqms());
            std::cout << "{\"case\":\"" << current_case << "\"}\n" << std::flush;
            continue;
        }
        ++current_op;
        bool is_cqm = op.compare(0, 3, "cq.") == 0;
        std::string ret = is_cqm ? cqm_op(*C, op, T) : model_op(*M, op, T);
        if (T.more()) badinput("trailing tokens after " + op);
        std::ostringstream o;
        o << "{\"i\":" << current_op << ",\"op\":\"" << op << "\",\"ret\":" << (ret.empty() ? "null" : ret);
        if (is_cqm) {
            check_cqms(*C);
            o << ",\"cqms\":[";
            for (int s = 0; s < 2; ++s) {
                o << (s ? "," : "");
                dump_cqm(o, C->at(s));
            }
            o << "]}";
        } else {
            check_models(*M);
            o << ",\"slots\":[";
            for (int s = 0; s < 4; ++s) {
                o << (s ? "," : "");
                dump_slot(o, *M, s);
            }
            o << "]}";
        }
        std::cout << o.str() << "\n" << std::flush;
    }
    std::cout << "{\"done\":1}" << std::endl;
    M.reset();
    C.reset();
    return 0;
}
